"""C20 — regular-expression matching agrees with SRFI 115.
   (T) coq/Properties_C20.v: derivative matcher = SPEC language, search = some substring, leftmost-longest span,
       span validator sound.
   (K-outer) lib/chibi/regexp.scm through harness/c20_driver.scm vs the extracted verified matcher:
       regexp-matches / regexp-search booleans, span 0 (whole match; leftmost-longest for greedy SREs),
       all reported spans through check_spans; character-level functions (case pairs, word constituents)."""
import itertools, json, os, subprocess, tempfile, concurrent.futures
from vlib import build as B

HERE = os.path.dirname(os.path.abspath(__file__))
ROOT = os.path.dirname(HERE)
DRIVER = os.path.join(ROOT, "harness", "c20_driver.scm")
CORPUS = os.path.join(ROOT, "corpus", "C20")

NL = 10
A_, B_, C_, UA, UB = 97, 98, 99, 65, 66

# ------------------------------------------------------------------------------------------------
# SREs as nested tuples
#   ('eps',) ('fail',) ('chr', cset) ('str', (cp,...)) ('seq', a, b, ...) ('or', a, b, ...)
#   ('star', g, a) ('plus', a) ('opt', g, a) ('rep', form, g, m, n, a)   form in '**', '=', '>='
#   ('sub', a) ('anc', name) ('nocase', a) ('case', a)
#   cset: ('c', cp) ('r', lo, hi) ('any',) ('o', A, B) ('n', A, B) ('~', A) ('-', A, B) ('i', A) ('j', A)


def cs_bin(c):
    """the n-ary char-set forms in terms of the binary ones of the model's syntax: ('O', (A, B, ...)) = (or A B ...) printed flat,
    ('s', (cp, ...)) = ("...") the string-list form (string->char-set: one adjoin per character, in order),
    ('R', ((lo, hi), ...)) = (/ lo hi lo hi ...) (a union of ucs-range->char-set)"""
    t = c[0]
    if t == 'O':
        xs = list(c[1])
    elif t == 's':
        xs = [('c', cp) for cp in c[1]]
    elif t == 'R':
        xs = [('r', lo, hi) for lo, hi in c[1]]
    else:
        return c
    out = xs[0]
    for x in xs[1:]:
        out = ('o', out, x)
    return out


def cs_proto(c):
    c = cs_bin(c)
    t = c[0]
    if t == 'c':
        return "c %x" % c[1]
    if t == 'r':
        return "r %x %x" % (c[1], c[2])
    if t == 'any':
        return "a"
    if t in ('o', 'n', '-'):
        return "%s %s %s" % (t, cs_proto(c[1]), cs_proto(c[2]))
    if t in ('~', 'i', 'j'):
        return "%s %s" % (t, cs_proto(c[1]))
    raise ValueError(c)


def proto(r):
    t = r[0]
    if t == 'pcre':             # ('pcre', text, sre): the PCRE string text, whose meaning is the SRE sre
        return proto(r[2])
    if t == 'eps':
        return "E"
    if t == 'fail':
        return "F"
    if t == 'chr':
        return "C " + cs_proto(r[1])
    if t == 'str':
        if not r[1]:
            return "E"
        out = ""
        for i, cp in enumerate(r[1]):
            out += ("S " if i < len(r[1]) - 1 else "") + "C c %x " % cp
        return out.strip()
    if t in ('seq', 'or'):
        tag = "S" if t == 'seq' else "A"
        args = r[1:]
        if not args:
            return "E" if t == 'seq' else "F"
        out = ""
        for i, a in enumerate(args):
            out += ("%s " % tag if i < len(args) - 1 else "") + proto(a) + " "
        return out.strip()
    if t == 'star':
        return "K %d %s" % (1 if r[1] else 0, proto(r[2]))
    if t == 'plus':
        return "P " + proto(r[1])
    if t == 'opt':
        return "O %d %s" % (1 if r[1] else 0, proto(r[2]))
    if t == 'rep':
        _, form, g, m, n, a = r
        return "R %d %d %s %s" % (1 if g else 0, m, "i" if n is None else str(n), proto(a))
    if t == 'sub':
        return "U " + proto(r[1])
    if t == 'anc':
        return "N " + r[1]
    if t == 'nocase':
        return "I " + proto(r[1])
    if t == 'case':
        return "J " + proto(r[1])
    if t == 'nocap':            # (w/nocapture a): same language, the submatches inside are not registered
        return proto(strip_subs(r[1]))
    if t == 'named':            # (-> name a): a submatch with a name
        return "U " + proto(r[1])
    if t == 'word':             # (word a) = (: bow a eow)
        return "S N bow S %s N eow" % proto(r[1])
    raise ValueError(r)


def strip_subs(r):
    t = r[0]
    if t in ('sub', 'named'):
        return strip_subs(r[1])
    if t in ('seq', 'or'):
        return (t,) + tuple(strip_subs(a) for a in r[1:])
    if t in ('star', 'opt'):
        return (t, r[1], strip_subs(r[2]))
    if t in ('plus', 'nocase', 'case', 'nocap', 'word'):
        return (t, strip_subs(r[1]))
    if t == 'rep':
        return r[:5] + (strip_subs(r[5]),)
    return r


def alias(r, names):
    """pick one of the synonymous operator names, stable for a given node"""
    import zlib
    return names[zlib.crc32(repr(r).encode()) % len(names)]


def ch_scm(cp):
    return "#\\x%x" % cp


def cs_scm(c):
    t = c[0]
    if t == 'c':
        return ch_scm(c[1])
    if t == 'r':
        return "(/ %s %s)" % (ch_scm(c[1]), ch_scm(c[2]))
    if t == 'any':
        return "any"
    if t == 'O':
        return "(or%s)" % "".join(" " + cs_scm(x) for x in c[1])
    if t == 's':
        return "(%s)" % str_scm(c[1])
    if t == 'R':
        return "(/%s)" % "".join(" %s %s" % (ch_scm(lo), ch_scm(hi)) for lo, hi in c[1])
    if t in ('o', 'n', '-'):
        return "(%s %s %s)" % ({'o': 'or', 'n': 'and', '-': '-'}[t], cs_scm(c[1]), cs_scm(c[2]))
    if t == '~':
        return "(~ %s)" % cs_scm(c[1])
    if t == 'i':
        return "(w/nocase %s)" % cs_scm(c[1])
    if t == 'j':
        return "(w/case %s)" % cs_scm(c[1])
    raise ValueError(c)


def str_scm(cps):
    return '"' + "".join("\\x%x;" % c for c in cps) + '"'


def scm(r):
    t = r[0]
    if t == 'pcre':             # harness/c20_driver.scm compiles this form with pcre->regexp
        return '(pcre "%s")' % r[1]
    if t == 'eps':
        return "(:)"
    if t == 'fail':
        return "(or)"
    if t == 'chr':
        return cs_scm(r[1])
    if t == 'str':
        return str_scm(r[1])
    if t in ('seq', 'or'):
        return "(%s%s)" % (alias(r, [":", ":", "seq"]) if t == 'seq' else alias(r, ["or", "or", "|\\||"]), "".join(" " + scm(a) for a in r[1:]))
    if t == 'star':
        return "(%s %s)" % (alias(r, ["*", "*", "zero-or-more"]) if r[1] else alias(r, ["*?", "non-greedy-zero-or-more"]), body(r[2]))
    if t == 'plus':
        return "(%s %s)" % (alias(r, ["+", "+", "one-or-more"]), body(r[1]))
    if t == 'opt':
        return "(%s %s)" % (alias(r, ["?", "?", "optional"]) if r[1] else alias(r, ["??", "non-greedy-optional"]), body(r[2]))
    if t == 'rep':
        _, form, g, m, n, a = r
        if form == '=':
            return "(%s %d %s)" % (alias(r, ["=", "exactly"]), m, body(a))
        if form == '>=':
            return "(%s %d %s)" % (alias(r, [">=", "at-least"]), m, body(a))
        return "(%s %d %d %s)" % (alias(r, ["**", "repeated"]) if g else alias(r, ["**?", "non-greedy-repeated"]), m, n, body(a))
    if t == 'sub':
        return "(%s %s)" % (alias(r, ["$", "$", "submatch"]), body(r[1]))
    if t == 'nocap':
        return "(w/nocapture %s)" % body(r[1])
    if t == 'named':
        return "(%s foo %s)" % (alias(r, ["->", "=>", "submatch-named"]), body(r[1]))
    if t == 'word':
        return "(word %s)" % body(r[1])
    if t == 'anc':
        return r[1]
    if t == 'nocase':
        return "(w/nocase %s)" % scm(r[1])
    if t == 'case':
        return "(w/case %s)" % scm(r[1])
    raise ValueError(r)


def body(a):
    """operators take an implicit sequence: (* a b) = (* (: a b)); use that form for some sequences"""
    import zlib
    if a[0] == 'seq' and len(a) > 2 and zlib.crc32(repr(a).encode()) % 2 == 0:
        return " ".join(scm(x) for x in a[1:])
    return scm(a)


def walk(r):
    yield r
    if r[0] in ('seq', 'or'):
        for a in r[1:]:
            yield from walk(a)
    elif r[0] in ('star', 'opt'):
        yield from walk(r[2])
    elif r[0] in ('plus', 'sub', 'nocase', 'case', 'nocap', 'named', 'word'):
        yield from walk(r[1])
    elif r[0] == 'rep':
        yield from walk(r[5])
    elif r[0] == 'pcre':
        yield from walk(r[2])


def depth(r):
    if r[0] == 'pcre':
        return depth(r[2])
    if r[0] in ('seq', 'or'):
        return 1 + max([depth(a) for a in r[1:]] or [0])
    if r[0] in ('star', 'opt'):
        return 1 + depth(r[2])
    if r[0] in ('plus', 'sub', 'nocase', 'case', 'nocap', 'named', 'word'):
        return 1 + depth(r[1])
    if r[0] == 'rep':
        return 1 + depth(r[5])
    return 0


def klass(r):
    """input class used in violation signatures (first that applies)"""
    if r[0] == 'pcre':
        return "pcre-syntax:" + klass(r[2])
    nodes = list(walk(r))
    if any((n[0] in ('star', 'opt') and not n[1]) or (n[0] == 'rep' and not n[2]) for n in nodes):
        return "non-greedy"
    if any(n[0] == 'rep' and n[4] == 0 for n in nodes):
        return "zero-repeat"
    if any(n[0] == 'rep' for n in nodes):
        return "bounded-repeat"
    if any(n[0] in ('nocase', 'case') for n in nodes):
        return "case-folding"
    if any(n[0] in ('anc', 'word') for n in nodes):
        return "anchor"
    if any(n[0] == 'chr' and cs_wide(n[1]) for n in nodes):
        return "char-class"           # a class of four or more operands (the streams over multi-node iset trees)
    if any(n[0] in ('sub', 'named', 'nocap') for n in nodes):
        return "submatch"
    return "core"


def cs_wide(c):
    if c[0] in ('O', 's', 'R'):
        return len(c[1]) >= 4 or (c[0] == 'O' and any(cs_wide(x) for x in c[1]))
    return any(cs_wide(x) for x in c[1:] if isinstance(x, tuple))


def cps_of(r):
    """all code points an SRE mentions, ranges expanded (for the character-level stage)"""
    out = set()

    def cs(c):
        c = cs_bin(c)
        if c[0] == 'c':
            out.add(c[1])
        elif c[0] == 'r':
            out.update(range(c[1], c[2] + 1))
        elif c[0] in ('o', 'n', '-'):
            cs(c[1]); cs(c[2])
        elif c[0] in ('~', 'i', 'j'):
            cs(c[1])
    for n in walk(r):
        if n[0] == 'chr':
            cs(n[1])
        elif n[0] == 'str':
            out.update(n[1])
    return out


def sfield(s):
    return ",".join("%x" % c for c in s) if s else "_"


# ------------------------------------------------------------------------------------------------
# generators

def all_strings(alpha, maxlen):
    out = []
    for n in range(maxlen + 1):
        out.extend(itertools.product(alpha, repeat=n))
    return out


ATOMS_FULL = [('chr', ('c', A_)), ('chr', ('c', B_)), ('chr', ('any',)), ('chr', ('r', A_, B_)), ('chr', ('~', ('c', A_))),
              ('eps',), ('fail',), ('anc', 'bos'), ('anc', 'eos'), ('anc', 'bol'), ('anc', 'eol'), ('anc', 'bow'), ('anc', 'eow'),
              ('anc', 'nwb'), ('str', (A_, B_))]
UNARY_FULL = [lambda a: ('star', True, a), lambda a: ('star', False, a), lambda a: ('plus', a), lambda a: ('opt', True, a),
              lambda a: ('opt', False, a), lambda a: ('rep', '**', True, 0, 2, a), lambda a: ('rep', '**', True, 1, 2, a),
              lambda a: ('rep', '**', True, 2, 3, a), lambda a: ('rep', '**', False, 1, 2, a), lambda a: ('rep', '=', True, 2, 2, a),
              lambda a: ('rep', '=', True, 0, 0, a), lambda a: ('rep', '>=', True, 1, None, a), lambda a: ('rep', '>=', True, 2, None, a),
              lambda a: ('rep', '**', True, 0, 0, a), lambda a: ('sub', a), lambda a: ('nocase', a)]
BINARY = [lambda a, b: ('seq', a, b), lambda a, b: ('or', a, b)]

ATOMS_SMALL = [('chr', ('c', A_)), ('chr', ('c', B_)), ('chr', ('any',)), ('eps',), ('anc', 'bol'), ('anc', 'eol')]
UNARY_SMALL = [lambda a: ('star', True, a), lambda a: ('plus', a), lambda a: ('opt', True, a), lambda a: ('star', False, a),
               lambda a: ('rep', '**', True, 1, 2, a), lambda a: ('sub', a)]


def grow(prev_all, unary, binary):
    out = []
    for u in unary:
        for a in prev_all:
            out.append(u(a))
    for b in binary:
        for a in prev_all:
            for c in prev_all:
                out.append(b(a, c))
    return out


def level_sets(atoms, unary, binary, maxdepth):
    """list of lists: SREs of depth exactly 0, 1, ... (depth d built from all of depth < d, at least ... any)"""
    levels = [list(atoms)]
    allprev = list(atoms)
    for d in range(1, maxdepth + 1):
        new = [r for r in grow(allprev, unary, binary) if depth(r) == d]
        levels.append(new)
        allprev = allprev + new
    return levels


UNI = dict(  # the modelled universe beyond ASCII: (lower, upper) pairs and caseless characters
    latin1=(0xe9, 0xc9), greek=(0x3bb, 0x39b), cyr=(0x436, 0x416), cyr2=(0x451, 0x401), deseret=(0x10428, 0x10400),
    cjk=0x4e2d, digit=0x37, under=0x5f, space=0x20)
UNI_RANGES = [(A_, C_), (UA, UB + 1), (0x430, 0x44f), (0x410, 0x42f), (0x3b1, 0x3c1), (0x10400, 0x10427), (0x30, 0x39), (0xe0, 0xf6)]


def rand_cset(rng, alpha, d=0):
    k = rng.random()
    if k < 0.45 or d >= 2:
        return ('c', rng.choice(alpha))
    if k < 0.6:
        lo, hi = rng.choice(UNI_RANGES) if rng.random() < 0.5 else (A_, rng.choice([A_, B_, C_]))
        return ('r', lo, hi)
    if k < 0.68:
        return ('any',)
    if k < 0.76:
        return ('~', rand_cset(rng, alpha, d + 1))
    if k < 0.84:
        return ('o', rand_cset(rng, alpha, d + 1), rand_cset(rng, alpha, d + 1))
    if k < 0.89:
        return ('n', rand_cset(rng, alpha, d + 1), rand_cset(rng, alpha, d + 1))
    if k < 0.94:
        return ('-', rand_cset(rng, alpha, d + 1), rand_cset(rng, alpha, d + 1))
    if k < 0.98:
        return ('i', rand_cset(rng, alpha, d + 1))
    return ('j', rand_cset(rng, alpha, d + 1))


def rand_sre(rng, alpha, d):
    """random SRE of depth <= d; operators weighted towards the proof's case split (nested repetition,
    alternation under repetition, submatches under repetition, anchors inside loops, case flags)"""
    if d == 0 or rng.random() < 0.12:
        k = rng.random()
        if k < 0.55:
            return ('chr', rand_cset(rng, alpha))
        if k < 0.67:
            return ('str', tuple(rng.choice(alpha) for _ in range(rng.choice([0, 1, 2, 2, 3]))))
        if k < 0.72:
            return ('eps',)
        if k < 0.75:
            return ('fail',)
        return ('anc', rng.choice(['bos', 'eos', 'bol', 'eol', 'bol', 'eol', 'bow', 'eow', 'nwb']))
    k = rng.random()
    sub = lambda: rand_sre(rng, alpha, d - 1)
    if k < 0.24:
        return ('seq',) + tuple(sub() for _ in range(rng.choice([2, 2, 2, 3])))
    if k < 0.42:
        return ('or',) + tuple(sub() for _ in range(rng.choice([2, 2, 3])))
    if k < 0.54:
        return ('star', rng.random() < 0.85, sub())
    if k < 0.62:
        return ('plus', sub())
    if k < 0.70:
        return ('opt', rng.random() < 0.85, sub())
    if k < 0.82:
        form = rng.choice(['**', '**', '=', '>='])
        m = rng.choice([0, 0, 1, 1, 2, 3])
        if form == '**':
            return ('rep', '**', rng.random() < 0.85, m, m + rng.choice([0, 1, 1, 2]), sub())
        if form == '=':
            return ('rep', '=', True, m, m, sub())
        return ('rep', '>=', True, m, None, sub())
    if k < 0.90:
        return ('sub', sub())
    if k < 0.92:
        return ('named', sub())
    if k < 0.94:
        return ('nocap', sub())
    if k < 0.955:
        return ('word', sub())
    if k < 0.985:
        return ('nocase', sub())
    return ('case', sub())


def case_rel(c):
    out = {c}
    ch = chr(c)
    for x in (ch.upper(), ch.lower()):
        if len(x) == 1:
            out.add(ord(x))
    return out


def cs_eval(c, ci, x, mode):
    """is code point x in char set c under case flag ci?  mode = the reading of set algebra (~ - and) evaluated while w/nocase is in force:
    0 fold the operands, then operate (chibi; the model's cs_in); 1 operate on the case-sensitive operands, then fold the result
    (SRFI 115: "character sets match if any character they contain matches case-insensitively"); 2 fold the operands, operate, fold again"""
    c = cs_bin(c)
    t = c[0]
    if t == 'c':
        return x == c[1] or (ci and c[1] in case_rel(x))
    if t == 'r':
        return c[1] <= x <= c[2] or (ci and any(c[1] <= y <= c[2] for y in case_rel(x)))
    if t == 'any':
        return True
    if t == 'o':
        return cs_eval(c[1], ci, x, mode) or cs_eval(c[2], ci, x, mode)
    if t == 'i':
        return cs_eval(c[1], True, x, mode)
    if t == 'j':
        return cs_eval(c[1], False, x, mode)

    def op(f, y):
        if t == '~':
            return not cs_eval(c[1], f, y, mode)
        if t == 'n':
            return cs_eval(c[1], f, y, mode) and cs_eval(c[2], f, y, mode)
        return cs_eval(c[1], f, y, mode) and not cs_eval(c[2], f, y, mode)
    if not ci or mode == 0:
        return op(ci, x)
    return any(op(mode == 2, y) for y in case_rel(x))


def tame_cs(c, ci, subj=None):
    """Set algebra (complement, difference, intersection) evaluated while w/nocase is in force is the one unspecified corner: SRFI 115's
    "character sets match if any character they contain matches case-insensitively" folds the RESULT, chibi folds the OPERANDS
    ((w/nocase (~ #\a)) matches "a" under the first reading only).  Everything else stays compared: plain sets, ranges and unions under
    w/nocase; set algebra with the flag off -- including operands that are themselves (w/nocase ..) sets and algebra re-enabled by a
    nested w/case, where "w/case overrides any enclosing w/nocase" is explicit; and an algebra node under w/nocase on which all readings
    agree for every subject character of the case (e.g. operands closed under case, or caseless characters).  Only a node on which the
    readings differ on some subject character is rewritten to a union."""
    t = c[0]
    if t == 'i':
        return ('i', tame_cs(c[1], True, subj))
    if t == 'j':
        return ('j', tame_cs(c[1], False, subj))
    if t in ('c', 'r', 'any', 's', 'R'):
        return c
    if t == 'O':
        return ('O', tuple(tame_cs(x, ci, subj) for x in c[1]))
    if t in ('~', 'n', '-') and ci and subj is not None and \
            all(cs_eval(c, True, x, 0) == cs_eval(c, True, x, 1) == cs_eval(c, True, x, 2) for x in subj):
        return c
    if t == '~':
        return tame_cs(c[1], ci, subj) if ci else ('~', tame_cs(c[1], ci, subj))
    a, b = tame_cs(c[1], ci, subj), tame_cs(c[2], ci, subj)
    return ('o', a, b) if ci else (t, a, b)


def tame(r, ci=False, subj=None):
    t = r[0]
    if t == 'chr':
        return ('chr', tame_cs(r[1], ci, subj))
    if t in ('seq', 'or'):
        return (t,) + tuple(tame(a, ci, subj) for a in r[1:])
    if t in ('star', 'opt'):
        return (t, r[1], tame(r[2], ci, subj))
    if t in ('plus', 'sub', 'nocap', 'named', 'word'):
        return (t, tame(r[1], ci, subj))
    if t == 'nocase':
        return (t, tame(r[1], True, subj))
    if t == 'case':
        return (t, tame(r[1], False, subj))
    if t == 'rep':
        return r[:5] + (tame(r[5], ci, subj),)
    return r


def tame_subj(r, strs):
    """the characters on which the readings of set algebra under w/nocase must agree for a node to stay compared: everything the case is
    evaluated on -- the subject characters and the alphabet on which the engine stage compares char-set states"""
    return subj_of(strs) | set(engine_alphabet(r, strs))


def subj_of(strs):
    out = set()
    for s in strs:
        out.update(s[0] if s and isinstance(s[0], tuple) else s)
    return out


def rand_strings(rng, alpha, n, maxlen):
    out = []
    for _ in range(n):
        ln = rng.choice([0, 1, 2, 3, 3, 4, 5, 6, 8, maxlen])
        out.append(tuple(rng.choice(alpha) for _ in range(ln)))
    return out


# ------------------------------------------------------------------------------------------------
# character classes whose iset representation is a TREE of several nodes (lib/chibi/iset/constructors.scm: members more than
# bits-thresh = 128 apart get their own node, nearer ones are merged into a bitmap node to the left or to the right)

CLUSTERS = [(0x20, 0x7e), (0xa0, 0x2ff), (0x370, 0x4ff), (0x5d0, 0x6ff), (0x900, 0xaff), (0x3040, 0x30ff), (0x4e00, 0x51ff),
            (0xac00, 0xaeff), (0xe000, 0xe2ff), (0x10400, 0x106ff), (0x1f300, 0x1f6ff), (0x20000, 0x203ff)]
NEAR = [1, 2, 3, 17, 60, 90, 100, 110, 120, 125, 126, 127, 127]       # steps that merge into the neighbouring node
EDGE = [126, 127, 128, 129, 130, 140, 200, 255, 256, 257, 300]               # steps around the threshold and beyond


def valid_cp(c):
    return 0x20 <= c <= 0x10ffff and not (0xd800 <= c <= 0xdfff)


def tree_members(rng, clusters=None):
    """an insertion-ordered list of distinct code points: far-apart anchors (separate nodes; the order of arrival shapes the tree:
    a left child with a right child, a right child with a left child, ...), then walks from one member towards and past another with
    steps below the threshold (every step merges into the node it comes from, whose range then creeps over the ranges held deeper in
    the tree), then near neighbours of existing members; finally kept in this order or sorted / reversed / interleaved"""
    pts = []
    for lo, hi in rng.sample(clusters or CLUSTERS, rng.choice([1, 1, 1, 2, 2, 3])):
        # anchors: at least bits-thresh apart (separate nodes); their order of arrival decides the shape of the tree -- outside-in gives
        # a zig-zag spine (a left child with a right child with a left child ...), ascending / descending a one-sided spine
        anchors = [rng.randrange(lo, hi + 1)]
        for _ in range(rng.choice([1, 2, 2, 3, 4])):
            anchors.append(anchors[-1] + rng.choice([128, 129, 130, 150, 200, 256, 300, 400]))
        arr = rng.choice(['random', 'high-low', 'high-low', 'low-high', 'low-high', 'asc', 'desc'])
        if arr == 'random':
            rng.shuffle(anchors)
        elif arr == 'desc':
            anchors.reverse()
        elif arr in ('high-low', 'low-high'):
            q, anchors = anchors, []
            while q:
                anchors.append(q.pop() if (len(anchors) % 2 == 0) == (arr == 'high-low') else q.pop(0))
        mine = list(anchors)
        for _ in range(rng.choice([1, 1, 2, 3])):
            a = anchors[0] if rng.random() < 0.6 else rng.choice(mine)
            b = rng.choice(anchors[1:])
            if a == b:
                b = a + rng.choice([-1, 1]) * rng.choice([130, 260, 400])
            d = 1 if b > a else -1
            cur, steps = a, 0
            while steps < 14:
                cur += d * rng.choice(NEAR if rng.random() < 0.93 else EDGE)
                steps += 1
                mine.append(cur)
                if (cur - b) * d > 0:           # one step past the target
                    break
        for _ in range(rng.choice([0, 1, 2, 3])):
            mine.append(rng.choice(mine) + rng.choice([-1, 1]) * rng.choice([1, 1, 2, 3, 10] + EDGE))
        pts.extend(mine)
    pts = [c for c in dict.fromkeys(pts) if valid_cp(c)] or [0x3bb]
    if len(pts) > 28:
        pts = pts[:28]
    order = rng.choice(['kept', 'kept', 'kept', 'kept', 'kept', 'random', 'asc', 'desc', 'outside-in', 'inside-out'])
    if order == 'random':
        rng.shuffle(pts)
    elif order in ('asc', 'desc'):
        pts.sort(reverse=order == 'desc')
    elif order in ('outside-in', 'inside-out'):
        q = sorted(pts)
        pts = []
        while q:
            pts.append(q.pop(0))
            if q:
                pts.append(q.pop())
        if order == 'inside-out':
            pts.reverse()
    return pts


def tree_cset(rng, pts, chars_only=False):
    """one of the spellings of the class with the members pts, inserted in this order"""
    k = rng.random() * (0.55 if chars_only else 1.0)
    if k < 0.3:
        return ('O', tuple(('c', c) for c in pts))
    if k < 0.55:
        return ('s', tuple(pts))
    if k < 0.8:                                  # some members widened to ranges (nodes without a bitmap, ranges that bridge two nodes)
        xs = []
        for c in pts:
            w = rng.choice([0, 0, 0, 1, 2, 5, 40, 127, 128, 200])
            xs.append(('r', c, c + w) if w and valid_cp(c + w) and rng.random() < 0.4 else ('c', c))
        return ('O', tuple(xs))
    if k < 0.9:
        return ('R', tuple((c, c + w) if valid_cp(c + w) else (c, c) for c in pts for w in [rng.choice([0, 0, 1, 3, 30, 130])]))
    h = max(1, len(pts) // 2)                    # a union of two string classes: iset-union adjoins whole nodes of the second tree
    return ('O', (('s', tuple(pts[:h])), ('s', tuple(pts[h:] or pts[:1]))))


def cs_points(c, out):
    c = cs_bin(c)
    if c[0] == 'c':
        out.add(c[1])
    elif c[0] == 'r':
        out.update((c[1], c[2]))
    elif c[0] in ('o', 'n', '-'):
        cs_points(c[1], out); cs_points(c[2], out)
    elif c[0] in ('~', 'i', 'j'):
        cs_points(c[1], out)
    return out


def tree_case(rng, clusters=None, nocase=False):
    """(SRE, subjects): a tree-shaped class, possibly combined with a second one by the set operations of the SRE syntax, and as
    subjects one-character strings for EVERY member and the neighbours (+-1, +-2) of every member and range end"""
    pts = tree_members(rng, clusters)
    if nocase:
        pts = [c for c in pts if in_universe(c)] or [0x3bb]
    cs = tree_cset(rng, pts, chars_only=nocase)
    k = rng.random()
    if k < 0.45 or nocase:
        pass
    else:
        # the second operand shares members and neighbours with the first
        other = [c + rng.choice([0, 0, 0, 1, -1, 2, 127, -128]) for c in rng.sample(pts, max(1, len(pts) // 2))]
        other += tree_members(rng, clusters)[:6]
        other = [c for c in dict.fromkeys(other) if valid_cp(c)] or pts[:1]
        cs2 = tree_cset(rng, other)
        if k < 0.6:
            cs = ('-', cs, cs2)
        elif k < 0.75:
            cs = ('n', cs, cs2)
        elif k < 0.85:
            cs = ('o', cs, cs2)
        elif k < 0.93:
            cs = ('~', cs)
        elif max(pts) - min(pts) > 5000:
            cs = ('~', cs)
        else:
            cs = ('-', ('r', min(pts) - 3 if min(pts) > 0x23 else min(pts), max(pts) + 3 if valid_cp(max(pts) + 3) else max(pts)), cs)
    if nocase:
        cs = ('i', cs)
    mem = sorted(cs_points(cs, set()))
    cand = list(mem)
    for c in mem:
        cand.extend(x for x in (c - 1, c + 1, c - 2, c + 2) if valid_cp(x))
    if nocase:
        cand = [c for c in cand if in_universe(c)]
        for c in list(cand):
            cand.extend(case_rel(c))
    cand = list(dict.fromkeys(cand))
    if len(cand) > 130:
        cand = cand[:len(mem)] + rng.sample(cand[len(mem):], max(0, 130 - len(mem)))
    r = ('chr', cs)
    w = rng.random()
    if w < 0.7:
        strs = [(c,) for c in cand]
    elif w < 0.85:                               # search / submatch spans over runs of members and non-members
        r = ('plus', ('sub', r))
        strs = [(c,) for c in cand[:60]] + [tuple(rng.choice(cand) for _ in range(rng.choice([2, 3, 4, 6]))) for _ in range(30)]
    else:
        r = ('seq', ('sub', r), ('opt', True, r))
        strs = [(c,) for c in cand[:60]] + [tuple(rng.choice(cand) for _ in range(rng.choice([2, 2, 3]))) for _ in range(30)]
    return r, list(dict.fromkeys(strs))


UNIVERSE = [(0x20, 0x7e), (0xc0, 0xfe), (0x391, 0x3a9), (0x3b1, 0x3c9), (0x400, 0x45f), (0x10400, 0x1044f), (0x4e00, 0x51ff)]


def in_universe(c):
    """code points on which the model's fold / chibi's upcase-downcase closure are known to induce the same relation (Chars.v)"""
    return any(lo <= c <= hi for lo, hi in UNIVERSE) and c not in (0xd7, 0xf7, 0xdf, 0xff, 0x3a2, 0x3c2, 0x3a2 + 32)



# ------------------------------------------------------------------------------------------------
# the PCRE string front end (lib/chibi/regexp/pcre.scm, pcre->regexp) -- an extension beyond the property text, which speaks about SREs.
# No parser here: a small term tree is generated and printed BOTH as PCRE text (standard precedence: a postfix operator binds to the single
# preceding character, class, dot or group, never to a run of literals) and as the SRE it denotes.

def pcre_atom(rng, d):
    """-> (text, sre, single): single = a postfix operator may follow directly"""
    k = rng.random()
    if k < 0.45 or d == 0:
        run = tuple(rng.choice([A_, B_, C_]) for _ in range(rng.choice([1, 2, 2, 3])))
        return "".join(chr(c) for c in run), run, True
    if k < 0.52:
        return ".", ('chr', ('~', ('c', NL))), True
    if k < 0.68:
        form = rng.choice(["[ab]", "[a-c]", "[^a]", "[^ab]", "[bc]"])
        cs = {"[ab]": ('O', (('c', A_), ('c', B_))), "[bc]": ('O', (('c', B_), ('c', C_))), "[a-c]": ('r', A_, C_),
              "[^a]": ('~', ('c', A_)), "[^ab]": ('~', ('O', (('c', A_), ('c', B_))))}[form]
        return form, ('chr', cs), True
    txt, r = pcre_alt(rng, d - 1)
    if rng.random() < 0.55:
        return "(" + txt + ")", ('sub', r), True
    # pcre->sre flattens a non-capturing group around ONE quantified term, so a `?` written after the group is read as the
    # non-greedy marker of the inner quantifier ("(?:.{3,})?c" -> (seq (**? 3 #f nonl) "c"), which no longer matches "c"): an
    # observation about the PCRE front end, which lies outside the property (it quantifies over SREs) -- no postfix operator is
    # generated directly after such a group.
    return "(?:" + txt + ")", r, not (isinstance(r, tuple) and r and r[0] in ('rep', 'star', 'plus', 'opt'))


def pcre_term(rng, d):
    """-> (text, list of SRE elements)"""
    txt, r, single = pcre_atom(rng, d)
    k = rng.random()
    if k < 0.4 or not single:
        op = None
    elif k < 0.75:
        m = rng.choice([0, 1, 1, 2, 2, 3])
        n = m + rng.choice([0, 1, 2])
        op = rng.choice([("{%d}" % m, lambda x: ('rep', '=', True, m, m, x)), ("{%d,}" % m, lambda x: ('rep', '>=', True, m, None, x)),
                         ("{%d,%d}" % (m, n), lambda x: ('rep', '**', True, m, n, x))])
    else:
        op = rng.choice([("*", lambda x: ('star', True, x)), ("+", lambda x: ('plus', x)), ("?", lambda x: ('opt', True, x))])
    if isinstance(r, tuple) and r and isinstance(r[0], int):          # a run of literals: the operator takes the LAST character only
        if op is None:
            return txt, [('str', r)]
        head = [('str', r[:-1])] if len(r) > 1 else []
        return txt + op[0], head + [op[1](('chr', ('c', r[-1])))]
    if op is None:
        return txt, [r]
    return txt + op[0], [op[1](r)]


def pcre_seq(rng, d):
    txt, elems = "", []
    for _ in range(rng.choice([1, 2, 2, 3])):
        t, e = pcre_term(rng, d)
        # two adjacent literal runs would read as one run: only the printed text matters, and the SRE is the same sequence either way
        txt += t
        elems += e
    return txt, (elems[0] if len(elems) == 1 else ('seq',) + tuple(elems))


def pcre_alt(rng, d):
    parts = [pcre_seq(rng, d) for _ in range(rng.choice([1, 1, 1, 2, 3]))]
    if len(parts) == 1:
        return parts[0]
    return "|".join(t for t, _ in parts), ('or',) + tuple(r for _, r in parts)


def pcre_case(rng):
    txt, r = pcre_alt(rng, rng.choice([0, 1, 1, 2]))
    k = rng.random()
    if k < 0.12 and r[0] != 'or':
        txt, r = "^" + txt, ('seq', ('anc', 'bos'), r)
    elif k < 0.24 and r[0] != 'or':
        txt, r = txt + "$", ('seq', r, ('anc', 'eos'))
    return ('pcre', txt, r)



# ------------------------------------------------------------------------------------------------
# running both sides

def run_impl(d, cases, jobs=4, timeout=900, ranged=False):
    """cases: list of (sre, strs) -- or (sre, [(str, start, end)]) when ranged.  Returns list of raw driver lines (None where the process died)."""
    res = [None] * len(cases)
    os.makedirs(B.SCRATCH, exist_ok=True)

    def run_range(lo, hi):
        with tempfile.NamedTemporaryFile("w", suffix=".c20", dir=B.SCRATCH, delete=False) as fh:
            for i in range(lo, hi):
                r, strs = cases[i]
                if ranged:
                    fh.write("(%d range %s%s)\n" % (i, scm(r), "".join(" (%s %d %d)" % (str_scm(s), a, b) for s, a, b in strs)))
                else:
                    fh.write("(%d %s%s)\n" % (i, scm(r), "".join(" " + str_scm(s) for s in strs)))
            path = fh.name
        try:
            try:
                p = B.run_chibi(d, [DRIVER, path], timeout=timeout)
                out, rc, err = p.stdout, p.returncode, p.stderr
            except subprocess.TimeoutExpired as e:
                out = e.stdout.decode() if isinstance(e.stdout, bytes) else (e.stdout or "")
                rc, err = "TIMEOUT", ""
        finally:
            os.unlink(path)
        last, done = lo - 1, False
        for line in out.split("\n"):
            if line == "DONE":
                done = True
                continue
            sp = line.find(" ")
            if sp > 0 and line[:sp].isdigit() and lo <= int(line[:sp]) < hi:
                res[int(line[:sp])] = line[sp + 1:]
                last = max(last, int(line[:sp]))
        if not done and last + 1 < hi:
            res[last + 1] = "DIED rc=%s %s" % (rc, (err or "")[-300:].replace("\n", " | "))
            if last + 2 < hi:
                run_range(last + 2, hi)

    n = len(cases)
    step = max(1, min(400, (n + jobs - 1) // jobs))
    with concurrent.futures.ThreadPoolExecutor(max_workers=jobs) as ex:
        list(ex.map(lambda lo: run_range(lo, min(n, lo + step)), range(0, n, step)))
    return res


def replay_cmd(r, s, api):
    if api.endswith("/start-end"):
        return "as %s on the substring; see input.called_with for the original string and start/end" % replay_cmd(r, s, api[:-10])
    if r[0] == 'pcre':
        return ("printf '%%s' '(import (scheme base) (scheme write) (chibi regexp) (chibi regexp pcre)) (let ((m (%s (pcre->regexp \"%s\") %s))) "
                "(write (and m (let lp ((i 0)) (if (> i (regexp-match-count m)) (quote ()) (cons (cons (regexp-match-submatch-start m i) "
                "(regexp-match-submatch-end m i)) (lp (+ i 1)))))))) (newline)' | "
                "LD_LIBRARY_PATH=$D CHIBI_MODULE_PATH=$D/lib $D/chibi-scheme /dev/stdin   # D = scratch build of the tree under test"
                % (api, r[1], str_scm(s)))
    return ("printf '%%s' '(import (scheme base) (scheme write) (chibi regexp)) (let ((m (%s (quote %s) %s))) "
            "(write (and m (let lp ((i 0)) (if (> i (regexp-match-count m)) (quote ()) (cons (cons (regexp-match-submatch-start m i) "
            "(regexp-match-submatch-end m i)) (lp (+ i 1)))))))) (newline)' | "
            "LD_LIBRARY_PATH=$D CHIBI_MODULE_PATH=$D/lib $D/chibi-scheme /dev/stdin   # D = scratch build of the tree under test"
            % (api, scm(r), str_scm(s)))


def parse_spans(txt):
    """'-' -> None ; 'i-j,x,...' -> list"""
    if txt == "-":
        return None
    out = []
    for t in txt.split(","):
        if t == "x":
            out.append(None)
        else:
            a, b = t.split("-")
            out.append((int(a), int(b)))
    return out


def compare(ctx, exe, d, cases, label, sample=True, ranged=False):
    """run model and implementation on cases = [(sre, [strings])] and judge every pair.
    ranged: cases = [(sre, [(string, start, end)])]: the implementation is called with the optional start/end arguments; SRFI 115:
    equivalent to matching (substring str start end), positions reported relative to the whole string"""
    if not cases:
        return
    if ranged:
        rcases = cases
        cases = [(r, [s[a:b] for s, a, b in xs]) for r, xs in rcases]
    reqs = ["B %s%s" % (proto(r), "".join(" | " + sfield(s) for s in strs)) for r, strs in cases]
    mo = ctx.run_model(exe, reqs)
    io = run_impl(d, rcases if ranged else cases, ranged=ranged)
    if ranged:
        # shift the implementation's absolute positions back to positions inside the substring
        def shift(line, xs):
            if line is None or not line.startswith("R"):
                return line
            out = ["R"]
            for res, (s, a, b) in zip(line.split(" ")[1:], xs):
                parts = []
                for part in res.split(";"):
                    tag, txt = part[0], part[1:]
                    if txt not in ("-",) and not txt.startswith("!"):
                        txt = ",".join(t if t == "x" else "%d-%d" % tuple(int(v) - a for v in t.split("-")) for t in txt.split(","))
                    parts.append(tag + txt)
                out.append(";".join(parts))
            return " ".join(out)
        io = [shift(l, xs) for l, (r, xs) in zip(io, rcases)]
    api_sfx = "/start-end" if ranged else ""
    chk_req, chk_meta = [], []
    for ci, ((r, strs), m, i) in enumerate(zip(cases, mo, io)):
        cls = klass(r)
        if m.startswith("ERR"):
            ctx.broken("model-driver:C20", "model driver rejected %s: %s" % (proto(r), m))
            continue
        mf = m.split(" ")
        ng, nsub = mf[0][0] == "1", int(mf[0][1:])
        mres = mf[1:]
        if i is None or i.startswith("DIED"):
            ctx.violation("regexp:crash-or-hang:" + cls, input=dict(sre=scm(r), strings=[str_scm(s) for s in strs]), observed=i,
                          expected="a result for every subject", replay=replay_cmd(r, strs[0] if strs else (), "regexp-search"))
            continue
        if i.startswith("ERR") and r[0] == 'pcre' and ("repeat_empty_pattern" in i or "duplicate_repetition" in i):
            continue            # pcre->sre refuses (x*)*, (x?)+ ... by design (sre-empty? / sre-repeater?, pcre.scm:190-208): not compared
        if i.startswith("ERR"):
            ctx.count(1, key=("compile", r), nontrivial=True)
            ctx.violation("regexp:compile-error:" + cls, input=dict(sre=scm(r)), observed=i,
                          expected="SRFI 115: a valid SRE compiles", replay=replay_cmd(r, (), "regexp-search"))
            continue
        ires = i.split(" ")[1:]
        if len(ires) != len(strs) or len(mres) != len(strs):
            ctx.broken("correspondence:C20", "driver answered %d results for %d strings: %s" % (len(ires), len(strs), i[:200]))
            continue
        for si, (s, mr, ir) in enumerate(zip(strs, mres, ires)):
            nontriv = depth(r) >= 1 and len(s) >= 1
            ctx.count(1, key=(r, rcases[ci][1][si]) if ranged else (r, s), nontrivial=nontriv)
            ctx.cov["traces_validated_against_impl"] += 1
            mb, sb = mr[0] == "1", mr[1] == "1"
            mspan = None if mr[3:] == "x" else tuple(int(x) for x in mr[3:].split("-"))
            im, isr = ir.split(";")
            im, isr = im[1:], isr[1:]
            inp = dict(sre=scm(r), string=str_scm(s), sre_model=proto(r), string_cps=list(s))
            if ranged:
                o, a, b = rcases[ci][1][si]
                inp["called_with"] = dict(string=str_scm(o), start=a, end=b)
            for api, txt, want in (("regexp-matches" + api_sfx, im, mb), ("regexp-search" + api_sfx, isr, sb)):
                if txt.startswith("!"):
                    ctx.violation("%s:error:%s" % (api, cls), input=inp, observed=txt, expected="match=%s" % want, replay=replay_cmd(r, s, api))
                    continue
                sp = parse_spans(txt)
                if (sp is not None) != want:
                    ctx.violation("%s:%s:%s" % (api, "accepts-nonmember" if sp is not None else "rejects-member", cls), input=inp,
                                  observed=txt, expected=("a match" if want else "no match (verified matcher: not in the language)"),
                                  model_search_span=mspan, replay=replay_cmd(r, s, api))
                    continue
                if sp is None:
                    continue
                if len(sp) != nsub + 1:
                    ctx.violation("%s:submatch-count:%s" % (api, cls), input=inp, observed=txt, expected="%d submatches" % nsub,
                                  replay=replay_cmd(r, s, api))
                    continue
                if sp[0] is None:
                    ctx.violation("%s:span0-missing:%s" % (api, cls), input=inp, observed=txt, expected="span of the whole match", replay=replay_cmd(r, s, api))
                    continue
                if api.startswith("regexp-matches") and sp[0] != (0, len(s)):
                    ctx.violation("%s:span0-not-whole-string:%s" % (api, cls), input=inp, observed=txt, expected="0-%d" % len(s), replay=replay_cmd(r, s, api))
                    continue
                if api.startswith("regexp-search") and not ng and sp[0] != mspan:
                    ctx.violation("%s:not-leftmost-longest:%s" % (api, cls), input=inp, observed=txt, expected="%d-%d" % mspan, replay=replay_cmd(r, s, api))
                    continue
                if api.startswith("regexp-search") and ng and sp[0][0] != mspan[0]:
                    ctx.violation("%s:not-leftmost:%s" % (api, cls), input=inp, observed=txt, expected="start %d" % mspan[0], replay=replay_cmd(r, s, api))
                    continue
                chk_req.append("C %s | %s | %s" % (proto(r), sfield(s), ",".join("x" if x is None else "%d-%d" % x for x in sp)))
                chk_meta.append((api, cls, inp, txt, r, s))
    if chk_req:
        co = ctx.run_model(exe, chk_req)
        for q, o, (api, cls, inp, txt, r, s) in zip(chk_req, co, chk_meta):
            if o != "1":
                ctx.violation("%s:span-not-in-language:%s" % (api, cls), input=inp, observed=txt,
                              expected="every reported span delimits text in the language of its subexpression and nests (check_spans)",
                              check_request=q, replay=replay_cmd(r, s, api))
        if sample:
            ctx.sample(dict(kind=label, sre=chk_meta[-1][2]["sre"], string=chk_meta[-1][2]["string"], api=chk_meta[-1][0],
                            impl_spans=chk_meta[-1][3], check_spans=co[-1]))


def run_fold_impl(d, cases, jobs=4, timeout=900):
    """cases: list of (sre, strs) -> raw 'G ...' driver lines"""
    res = [None] * len(cases)
    os.makedirs(B.SCRATCH, exist_ok=True)

    def run_range(lo, hi):
        with tempfile.NamedTemporaryFile("w", suffix=".c20", dir=B.SCRATCH, delete=False) as fh:
            for i in range(lo, hi):
                r, strs = cases[i]
                fh.write("(%d fold %s%s)\n" % (i, scm(r), "".join(" " + str_scm(s) for s in strs)))
            path = fh.name
        try:
            try:
                out = B.run_chibi(d, [DRIVER, path], timeout=timeout).stdout
            except subprocess.TimeoutExpired as e:
                out = e.stdout.decode() if isinstance(e.stdout, bytes) else (e.stdout or "")
        finally:
            os.unlink(path)
        for line in out.split("\n"):
            sp = line.find(" ")
            if sp > 0 and line[:sp].isdigit() and lo <= int(line[:sp]) < hi:
                res[int(line[:sp])] = line[sp + 1:]

    n = len(cases)
    step = max(1, min(400, (n + jobs - 1) // jobs))
    with concurrent.futures.ThreadPoolExecutor(max_workers=jobs) as ex:
        list(ex.map(lambda lo: run_range(lo, min(n, lo + step)), range(0, n, step)))
    return res


def strs_field(ls):
    return "_" if not ls else ",".join("e" if not x else ".".join("%x" % c for c in x) for x in ls)


def fold_replay(r, s, fn):
    call = {"regexp-fold": "(regexp-fold (quote %s) (lambda (i m s a) (cons (cons (regexp-match-submatch-start m 0) (regexp-match-submatch-end m 0)) a)) (quote ()) %s (lambda (i m s a) (reverse a)))",
            "regexp-extract": "(regexp-extract (quote %s) %s)", "regexp-split": "(regexp-split (quote %s) %s)",
            "regexp-partition": "(regexp-partition (quote %s) %s)", "regexp-replace": "(regexp-replace (quote %s) %s \"-\")",
            "regexp-replace-all": "(regexp-replace-all (quote %s) %s \"-\")"}[fn] % (scm(r), str_scm(s))
    return ("printf '%%s' '(import (scheme base) (scheme write) (chibi regexp)) (write %s) (newline)' | "
            "LD_LIBRARY_PATH=$D CHIBI_MODULE_PATH=$D/lib $D/chibi-scheme /dev/stdin   # D = scratch build of the tree under test" % call)


def fold_stage(ctx, exe, d, cases, label):
    """regexp-fold / regexp-extract / regexp-split / regexp-partition / regexp-replace against expectations derived from the
    proved fold_spans (successive leftmost-longest matches, each in its true context inside the subject), for greedy SREs"""
    import time
    t0 = time.time()
    cases = [(tame(r, False, tame_subj(r, strs)), strs) for r, strs in cases]
    reqs = ["G %s%s" % (proto(r), "".join(" | " + sfield(s) for s in strs)) for r, strs in cases]
    mo = ctx.run_model(exe, reqs)
    keep = [(c, m.split(" ")) for c, m in zip(cases, mo) if not m.startswith("ERR") and m[0] == "0"]
    io = run_fold_impl(d, [c for c, _ in keep])
    for ((r, strs), mf), i in zip(keep, io):
        cls = klass(r)
        if i is None or i.startswith("ERR"):
            ctx.violation("regexp-fold:error:" + cls, input=dict(sre=scm(r)), observed=i, expected="results", replay=fold_replay(r, strs[0], "regexp-fold"))
            continue
        ires = i.split(" ")[1:]
        for s, ms, ir in zip(strs, mf[1:], ires):
            ctx.count(1, key=("fold", r, s), nontrivial=len(s) >= 1)
            ctx.cov["traces_validated_against_impl"] += 1
            if ms == "!":
                ctx.broken("model:fold_spans", "out of fuel on %s %s (contradicts fold_spans_sound)" % (proto(r), sfield(s)))
                continue
            spans = [] if ms == "_" else [tuple(int(x) for x in t.split("-")) for t in ms.split(",")]
            ne = [(a, b) for a, b in spans if b > a]
            exp = {}
            exp["regexp-fold"] = ms
            exp["regexp-extract"] = strs_field([s[a:b] for a, b in ne])
            pieces, part, prev = [], [], 0
            for a, b in ne:
                pieces.append(s[prev:a]); part.extend([s[prev:a], s[a:b]]); prev = b
            pieces.append(s[prev:])
            if prev < len(s) or not ne:
                part.append(s[prev:])
            exp["regexp-split"] = strs_field(pieces)
            exp["regexp-partition"] = strs_field(part)
            if s:
                exp["regexp-replace"] = strs_field([s[:spans[0][0]] + (0x2d,) + s[spans[0][1]:]] if spans else [s])
            if len(ne) == len(spans):
                # no empty match: every match is replaced once (with empty matches SRFI 115 leaves the result open)
                out, prev = (), 0
                for a, b in ne:
                    out += s[prev:a] + (0x2d,); prev = b
                exp["regexp-replace-all"] = strs_field([out + s[prev:]])
            got = dict(zip(["regexp-fold", "regexp-extract", "regexp-split", "regexp-partition", "regexp-replace", "regexp-replace-all"], [x[1:] for x in ir.split(";")]))
            for fn, want in exp.items():
                if got.get(fn) != want:
                    ctx.violation("%s:differs-from-successive-leftmost-longest:%s" % (fn, cls), input=dict(sre=scm(r), string=str_scm(s), sre_model=proto(r)),
                                  observed=got.get(fn), expected=want, model_fold_spans=ms, replay=fold_replay(r, s, fn))
    if keep:
        (r, strs), mf = keep[-1]
        ctx.sample(dict(kind=label, sre=scm(r), string=str_scm(strs[-1]), model_fold_spans=mf[-1], impl=io[-1].split(" ")[-1] if io[-1] else None))
    ctx.note("stage %s: %d SREs (%d without non-greedy operators), %.1fs" % (label, len(cases), len(keep), time.time() - t0))


def anchor_stage(ctx, exe, d, strs):
    """K-inner: the seven position predicates of regexp.scm (match/bos .. match/nwb, reached through the module environment)
    against the SPEC's anchor_ok at every position of every string"""
    names = ["bos", "eos", "bol", "eol", "bow", "eow", "nwb"]
    strs = sorted(set(strs))
    with tempfile.NamedTemporaryFile("w", suffix=".c20", dir=B.SCRATCH, delete=False) as fh:
        fh.write("(0 anchors%s)\n" % "".join(" " + str_scm(s) for s in strs))
        path = fh.name
    try:
        p = B.run_chibi(d, [DRIVER, path], timeout=600)
    finally:
        os.unlink(path)
    line = [l for l in p.stdout.split("\n") if l.startswith("0 ")]
    if not line or not line[0].startswith("0 A "):
        ctx.broken("inner-correspondence:anchor-predicates", "match/bos .. match/nwb could not be called in (chibi regexp): %s %s" % (line[:1], p.stderr[-300:]))
        return
    ires = line[0].split(" ")[2:]
    mres = ctx.run_model(exe, ["A " + " | ".join(sfield(s) for s in strs)])[0].split(" ")
    if len(ires) != len(strs) or len(mres) != len(strs):
        ctx.broken("inner-correspondence:anchor-predicates", "answers for %d/%d of %d strings" % (len(ires), len(mres), len(strs)))
        return
    for s, i, m in zip(strs, ires, mres):
        ctx.count(1, key=("anchors", s), nontrivial=len(s) >= 1)
        ctx.cov["traces_validated_against_impl"] += 1
        if i != m:
            for pos, (bi, bm) in enumerate(zip(i.split(","), m.split(","))):
                for k, (x, y) in enumerate(zip(bi, bm)):
                    if x != y:
                        ctx.violation("anchor-predicate:match/%s" % names[k], input=dict(string=str_scm(s), position=pos), observed=x, expected=y,
                                      replay=replay_cmd(('anc', names[k]), s, "regexp-search"))
    ctx.sample(dict(kind="anchor-predicates", string=str_scm(strs[-1]), impl=ires[-1], model=mres[-1]))


def reps_stage(ctx, exe, d, maxfrom, maxto):
    """K-inner: sre-expand-reps of regexp.scm (through the module environment) against the model's expand_reps (whose language is
    proved in expand_reps_language), for every from <= maxfrom and to in from..maxto or unbounded"""
    pairs = [(f, t) for f in range(maxfrom + 1) for t in list(range(f, maxto + 1)) + [None]]
    with tempfile.NamedTemporaryFile("w", suffix=".c20", dir=B.SCRATCH, delete=False) as fh:
        fh.write("(0 reps%s)\n" % "".join(" (%d %s)" % (f, "#f" if t is None else t) for f, t in pairs))
        path = fh.name
    try:
        p = B.run_chibi(d, [DRIVER, path], timeout=300)
    finally:
        os.unlink(path)
    line = [l for l in p.stdout.split("\n") if l.startswith("0 ")]
    if not line or not line[0].startswith("0 X "):
        ctx.broken("inner-correspondence:sre-expand-reps", "sre-expand-reps could not be called in (chibi regexp): %s %s" % (line[:1], p.stderr[-300:]))
        return
    ires = line[0].split(" ")[2:]
    mres = ctx.run_model(exe, ["X %d %s" % (f, "i" if t is None else t) for f, t in pairs])
    for (f, t), i, m in zip(pairs, ires, mres):
        ctx.count(1, key=("reps", f, t), nontrivial=True)
        ctx.cov["traces_validated_against_impl"] += 1
        if i != m:
            # the model's shape has the right language (theorem); judge the implementation's shape by counting what it admits
            lo = sum(1 for ch in i if ch in "cC")
            hi = None if "S" in i else lo + sum(1 for ch in i if ch in "oO")
            if i.startswith("!") or "?" in i or lo != f or hi != t:
                sre = ('rep', '=' if t == f else ('>=' if t is None else '**'), True, f, t, ('chr', ('c', A_)))
                ctx.violation("sre-expand-reps:wrong-repetition-count", input=dict(from_=f, to=t), observed=i, expected=m,
                              replay=replay_cmd(sre, (A_,) * (f + 1), "regexp-matches"))
            else:
                ctx.broken("inner-correspondence:sre-expand-reps", "from=%s to=%s: code expands to %s, model to %s (same repetition counts)" % (f, t, i, m))
    ctx.sample(dict(kind="sre-expand-reps", from_to=pairs[-2], impl=ires[-2], model=mres[-2]))


def ge_stage(ctx, exe, d, rng, n):
    """K-inner: regexp-match>=? of regexp.scm (through the module environment, on constructed Regexp-Match records) against the
    model's match_ge (totality and leftmost-longest proved): every pair of one-pair vectors over {#f,0,1,2} with and without a
    non-greedy end slot, plus n random pairs of vectors with 2-3 pairs"""
    vals = [-1, 0, 1, 2]
    cases = [(ng, (a, b), (c, e)) for ng in ((), (1,)) for a in vals for b in vals for c in vals for e in vals]
    for _ in range(n):
        k = rng.choice([2, 2, 3])
        def vec():
            out = []
            for _ in range(k):
                a = rng.choice([-1, 0, 1, 2, 3])
                b = rng.choice([-1, a, a + 1, a + 2, rng.choice([0, 1, 2, 3, 4])])
                out += [a, b if a >= 0 or rng.random() < 0.2 else -1]
            return tuple(out)
        v1 = vec()
        v2 = tuple(x if rng.random() < 0.6 else y for x, y in zip(v1, vec()))
        ng = tuple(sorted(set(rng.choice([1, 3, 5][:k]) for _ in range(rng.choice([0, 1, 1, 2])))))
        cases.append((ng, v1, v2))
    with tempfile.NamedTemporaryFile("w", suffix=".c20", dir=B.SCRATCH, delete=False) as fh:
        fh.write("(0 ge%s)\n" % "".join(" ((%s) (%s) (%s))" % (" ".join(map(str, ng)), " ".join(map(str, v1)), " ".join(map(str, v2))) for ng, v1, v2 in cases))
        path = fh.name
    try:
        p = B.run_chibi(d, [DRIVER, path], timeout=300)
    finally:
        os.unlink(path)
    line = [l for l in p.stdout.split("\n") if l.startswith("0 ")]
    if not line or not line[0].startswith("0 Q "):
        ctx.broken("inner-correspondence:regexp-match>=?", "regexp-match>=? could not be called in (chibi regexp): %s %s" % (line[:1], p.stderr[-300:]))
        return
    ires = line[0].split(" ")[2:]
    f = lambda v: ",".join("x" if x < 0 else str(x) for x in v)
    mres = ctx.run_model(exe, ["Q %s | %s | %s" % (",".join(map(str, ng)) or "_", f(v1), f(v2)) for ng, v1, v2 in cases])
    nbroken = 0
    for (ng, v1, v2), i, m in zip(cases, ires, mres):
        ctx.count(1, key=("ge", ng, v1, v2), nontrivial=v1 != v2)
        ctx.cov["traces_validated_against_impl"] += 1
        if i != m:
            s1, e1, s2, e2 = v1[0], v1[1], v2[0], v2[1]
            if min(s1, e1, s2, e2) >= 0 and s1 <= e1 and s2 <= e2 and (s1, e1) != (s2, e2):
                # complete whole-match slots: the proved law decides
                want = s1 < s2 or (s1 == s2 and (e1 <= e2 if 1 in ng else e2 <= e1))
                if (i == "1") != want:
                    ctx.violation("regexp-match>=?:not-leftmost-longest", input=dict(non_greedy_indexes=list(ng), m1=list(v1), m2=list(v2)),
                                  observed=i, expected=m, replay="(regexp-match>=? m1 m2) inside (chibi regexp) with the vectors of input (see harness/c20_driver.scm, case ge)")
                    continue
            nbroken += 1
            if nbroken <= 3:
                ctx.broken("inner-correspondence:regexp-match>=?", "ng=%s m1=%s m2=%s: code %s, model %s" % (ng, v1, v2, i, m))
    ctx.sample(dict(kind="regexp-match>=?", case=cases[-1], impl=ires[-1], model=mres[-1]))


def char_stage(ctx, exe, d, cps):
    """character-level functions on every code point the run uses: the model's [fold] must induce exactly the
    pattern-char -> subject-char relation that char-set-ci (upcase/downcase closure) induces, and [is_word] must be
    char-set:word-constituent"""
    cps = sorted(cps)
    with tempfile.NamedTemporaryFile("w", suffix=".c20", dir=B.SCRATCH, delete=False) as fh:
        fh.write("(0 chars %s)\n" % " ".join(str(c) for c in cps))
        path = fh.name
    try:
        p = B.run_chibi(d, [DRIVER, path], timeout=300)
    finally:
        os.unlink(path)
    line = [l for l in p.stdout.split("\n") if l.startswith("0 K")]
    if not line:
        ctx.broken("chars:C20", "character stage produced no output: %s" % p.stderr[-300:])
        return
    info = {}
    for f in line[0].split(" ")[2:]:
        c, fo, up, dn, w = f.split(":")
        info[int(c, 16)] = (int(fo, 16), int(up, 16), int(dn, 16), w == "1")
    mf = ctx.run_model(exe, ["F %x" % c for c in cps])
    mw = ctx.run_model(exe, ["W %x" % c for c in cps])
    mfold = {c: int(x, 16) for c, x in zip(cps, mf)}
    for c, w in zip(cps, mw):
        ctx.count(1, key=("char", c), nontrivial=c > 127)
        if (w == "1") != info[c][3]:
            ctx.broken("chars:is_word", "U+%04X: model is_word=%s, char-set:word-constituent=%s" % (c, w, info[c][3]))
    bad = 0
    for dch in cps:              # pattern character
        ciset = {dch, info[dch][1], info[dch][2]}
        for c in cps:            # subject character
            if (c in ciset) != (c == dch or mfold[c] == mfold[dch]):
                bad += 1
                if bad <= 5:
                    ctx.broken("chars:fold", "pattern U+%04X subject U+%04X: char-set-ci says %s, model fold says %s"
                               % (dch, c, c in ciset, mfold[c] == mfold[dch]))


# ------------------------------------------------------------------------------------------------
# engine level (coq/C20/Nfa.v): the surface form of an SRE exactly as scm() prints it, in the model's xsre prefix syntax

def body_elems(a):
    """the elements body(a) prints after an operator"""
    import zlib
    if a[0] == 'seq' and len(a) > 2 and zlib.crc32(repr(a).encode()) % 2 == 0:
        return list(a[1:])
    return [a]


def xspine(elems, cons="q", end="e"):
    out = end
    for x in reversed(elems):
        out = "%s %s %s" % (cons, xproto(x), out)
    return out


def xchr(c):
    # (w/nocase X) / (w/case X) printed where an SRE is expected go through ->rx's w/nocase case: a one-element sequence
    if c[0] == 'i':
        return "i q %s e" % xchr(c[1])
    if c[0] == 'j':
        return "j q %s e" % xchr(c[1])
    return "c " + cs_proto(c)


def xproto(r):
    t = r[0]
    if t == 'eps':
        return "e"
    if t == 'fail':
        return "f"
    if t == 'chr':
        return xchr(r[1])
    if t == 'str':
        return ("s %d " % len(r[1]) + " ".join("%x" % c for c in r[1])).strip()
    if t == 'seq':
        return xspine(list(r[1:]))
    if t == 'or':
        sp = xspine(list(r[1:]), "l", "f")
        return sp if alias(r, ["or", "or", "|\\||"]) == "or" or len(r) == 1 else "b " + sp
    if t == 'star':
        return "k %d %s" % (1 if r[1] else 0, xspine(body_elems(r[2])))
    if t == 'plus':
        return "p " + xspine(body_elems(r[1]))
    if t == 'opt':
        return "o %d %s" % (1 if r[1] else 0, xspine(body_elems(r[2])))
    if t == 'rep':
        _, form, g, m, n, a = r
        if form == '=':
            return "r 1 %d %d %s" % (m, m, xspine(body_elems(a)))
        if form == '>=':
            return "r 1 %d i %s" % (m, xspine(body_elems(a)))
        return "r %d %d %d %s" % (1 if g else 0, m, n, xspine(body_elems(a)))
    if t == 'sub':
        return "u " + xspine(body_elems(r[1]))
    if t == 'named':
        return "m " + xspine(body_elems(r[1]))
    if t == 'nocap':
        return "x " + xspine(body_elems(r[1]))
    if t == 'word':
        return "w " + xspine(body_elems(r[1]))
    if t == 'anc':
        return "n " + r[1]
    if t == 'nocase':
        return "i " + xspine([r[1]])
    if t == 'case':
        return "j " + xspine([r[1]])
    raise ValueError(r)


def engine_alphabet(r, strs):
    """characters on which the char-set states of the two graphs are compared: the subject characters, the SRE's literals
    (ranges: end points and neighbours), their case relatives, and a few outsiders"""
    base = set()
    for s in strs:
        base.update(s)

    def cs(c):
        c = cs_bin(c)
        if c[0] == 'c':
            base.add(c[1])
        elif c[0] == 'r':
            base.update(x for x in (c[1] - 1, c[1], c[1] + 1, c[2] - 1, c[2], c[2] + 1) if x > 0)
            if c[2] - c[1] <= 40:
                base.update(range(c[1], c[2] + 1))
        elif c[0] in ('o', 'n', '-'):
            cs(c[1]); cs(c[2])
        elif c[0] in ('~', 'i', 'j'):
            cs(c[1])
    for n in walk(r):
        if n[0] == 'chr':
            cs(n[1])
        elif n[0] == 'str':
            base.update(n[1])
    out = set()
    for c in base:
        out |= case_rel(c)
    out |= {0x7a, 0x5a, 0x30, NL, 0x4e2d}
    out = {c for c in out if not (0xd800 <= c <= 0xdfff)}
    return sorted(out)[:200]


def canon_graph(txt):
    """'start nsave ngi | id:kind:match:rule:n1:n2 ...' -> (canonical description, raw id -> depth-first number)"""
    head, _, body = txt.partition("|")
    hf = head.split()
    start, nsave, ngi = hf[0], hf[1], hf[2]
    st = {}
    for f in body.split():
        i, kind, m, rule, n1, n2 = f.split(":")
        st[i] = (kind.partition("/")[0], m, rule, n1, n2)
    num, order, stack = {}, [], [start]
    while stack:
        q = stack.pop()
        if q == "x" or q in num or q not in st:
            continue
        num[q] = len(order)
        order.append(q)
        stack.append(st[q][4])
        stack.append(st[q][3])
    rows = []
    for q in order:
        kind, m, rule, n1, n2 = st[q]
        rows.append("%s:%s:%s:%s:%s" % (kind, m, rule, num.get(n1, "x"), num.get(n2, "x")))
    ng = "_" if ngi == "_" else ",".join(sorted(ngi.split(","), key=int))
    return "%s %s | %s" % (nsave, ng, " ".join(rows)), num


def graph_contents(txt):
    """the char-set states of a dumped graph whose whole content the driver listed: [(0/1 string over the alphabet, size, members or None)]"""
    out = []
    for f in txt.partition("|")[2].split():
        kind = f.split(":")[1]
        if kind.startswith("C") and "/" in kind and not kind.endswith("/!"):
            bits, _, rest = kind[1:].partition("/")
            fs = rest.split(".")
            out.append((bits, int(fs[0]), [int(x, 16) for x in fs[1:]] if len(fs) > 1 or fs[0] == "0" else None))
    return out


def canon_trace(txt, num):
    """'i;acc;q=vec q=vec | ... # result' -> list of (acc, sorted posse with canonical state numbers), result"""
    body, _, res = txt.rpartition(" # ")
    snaps = []
    for sn in body.split(" | "):
        f = sn.split(";")
        posse = sorted((num.get(x.split("=")[0], "?" + x.split("=")[0]), x.split("=")[1]) for x in f[2].split()) if len(f) > 2 and f[2] else []
        snaps.append((f[1], tuple(posse)))
    return snaps, res.strip()


def run_driver_lines(d, lines, jobs=4, timeout=900):
    """feed driver cases '(<id> ...)' (ids 0..n-1 in order), return the raw answer per id (None = no answer)"""
    res = [None] * len(lines)
    os.makedirs(B.SCRATCH, exist_ok=True)

    def run_range(lo, hi):
        with tempfile.NamedTemporaryFile("w", suffix=".c20", dir=B.SCRATCH, delete=False) as fh:
            fh.write("\n".join(lines[lo:hi]) + "\n")
            path = fh.name
        try:
            try:
                out = B.run_chibi(d, [DRIVER, path], timeout=timeout).stdout
            except subprocess.TimeoutExpired as e:
                out = e.stdout.decode() if isinstance(e.stdout, bytes) else (e.stdout or "")
        finally:
            os.unlink(path)
        for line in out.split("\n"):
            sp = line.find(" ")
            if sp > 0 and line[:sp].isdigit() and lo <= int(line[:sp]) < hi:
                res[int(line[:sp])] = line[sp + 1:]

    n = len(lines)
    step = max(1, (n + jobs - 1) // jobs)
    with concurrent.futures.ThreadPoolExecutor(max_workers=jobs) as ex:
        list(ex.map(lambda lo: run_range(lo, min(n, lo + step)), range(0, n, step)))
    return res


def engine_stage(ctx, exe, d, cases, per_sre, label="engine"):
    """K-inner at the level of the ENGINE (coq/C20/Nfa.v): for every SRE the state graph (regexp / ->rx) that the running code
    compiled, read through the module environment, against compile_top, state for state after renumbering both depth-first;
    for per_sre subjects of every SRE the searchers (state, match vector) and the accept after every character of
    regexp-advance! (seen through a wrapper around the internal posse-for-each) against loop_tr, for regexp-search and
    regexp-matches.  A difference is judged by the SPEC: the SRE is run through compare() on its subjects and every short
    string; answers that violate the language give the VIOLATION, equal answers make it engine drift (broken)."""
    import time
    t0 = time.time()
    rng = ctx.rng
    seen, uniq = set(), []
    for r, strs in cases:
        if r not in seen and strs:
            seen.add(r)
            uniq.append((r, strs))
    glines, mreq, tlines, treq, tmeta = [], [], [], [], []
    alphas, extra_probe, stray_cases = {}, {}, []
    for k, (r, strs) in enumerate(uniq):
        al = engine_alphabet(r, strs)
        alphas[k] = al
        glines.append("(%d graph %s (%s))" % (k, scm(r), " ".join(str(c) for c in al)))
        mreq.append("Y %s | %s" % (xproto(r), sfield(al)))
        for s in (rng.sample(strs, per_sre) if len(strs) > per_sre else strs):
            for search in (True, False):
                tlines.append("(%d trace %s %s %s)" % (len(tlines), "#t" if search else "#f", scm(r), str_scm(s)))
                treq.append("Z %d %s | %s" % (1 if search else 0, xproto(r), sfield(s)))
                tmeta.append((k, s, search))
    mg = ctx.run_model(exe, mreq)
    ig = run_driver_lines(d, glines)
    it = run_driver_lines(d, tlines)
    bad = {}            # index of SRE -> first description of the difference
    not_wf = []
    nums = {}
    internal_missing = False
    for k, ((r, strs), m, i) in enumerate(zip(uniq, mg, ig)):
        ctx.count(1, key=("graph", r), nontrivial=depth(r) >= 1)
        ctx.cov["traces_validated_against_impl"] += 1
        if m.startswith("ERR"):
            ctx.broken("model-driver:C20", "model driver rejected %s: %s" % (xproto(r), m))
            continue
        if i is None or i.startswith("ERRI"):
            internal_missing = True
            continue
        if i.startswith("ERR") or i.startswith("Y !"):
            bad.setdefault(k, "graph dump failed: %s" % i[:200])
            continue
        if " wf0" in m.partition("|")[0]:
            not_wf.append(scm(r))     # outside the hypothesis wf_x of the engine theorems (still compared)
        cm, nm = canon_graph(m)
        ci_, ni = canon_graph(i[2:])
        nums[k] = (nm, ni)
        if cm != ci_:
            bad.setdefault(k, "state graph differs: code %s ; model %s" % (ci_, cm))
        else:
            # the states agree on the alphabet; now the WHOLE content of every small char set as the iset iteration lists it (char-set-size /
            # char-set->list: the path char-set-ci walks): a listed member outside the alphabet is put to the SPEC as a subject of its own,
            # and the listing must have exactly the members the membership test has
            al = alphas[k]
            for bits, size, mem in graph_contents(i[2:]):
                if mem is None:
                    continue
                inside = {c for c, b in zip(al, bits) if b == "1"}
                stray = [c for c in mem if c not in al]
                if len(mem) != size or len(set(mem)) != size or not inside <= set(mem) or any(c in al and c not in inside for c in mem):
                    bad.setdefault(k, "char-set->list / char-set-size / char-set-contains? disagree with each other: size %d, listed %s, members on the alphabet %s"
                                   % (size, ["%x" % c for c in mem[:40]], ["%x" % c for c in sorted(inside)[:40]]))
                    extra_probe.setdefault(k, []).extend((c,) for c in (set(mem) ^ inside) & set(al))
                if stray:
                    extra_probe.setdefault(k, []).extend((c,) for c in stray[:20])
                    stray_cases.append((k, stray[:20]))
    if internal_missing:
        ctx.broken("inner-correspondence:engine", "the state accessors / regexp-advance! / posse-for-each of (chibi regexp) could not be reached through the module environment")
    # the code walks searchers1 in hash-table order and the merge of match vectors can depend on it: replay the observed order
    # (posse->list conses while folding, so the walk is the reverse of the dumped list) in the model
    for n, ((k, s, search), i) in enumerate(zip(tmeta, it)):
        if k in nums and i is not None and i.startswith("Z ") and not i.startswith("Z !"):
            nm, ni = nums[k]
            inv = {v: q for q, v in nm.items()}
            steps = []
            for sn in i[2:].rpartition(" # ")[0].split(" | ")[:-1]:
                f = sn.split(";")
                ids = [x.split("=")[0] for x in f[2].split()] if len(f) > 2 and f[2] else []
                steps.append(",".join(inv[ni[q]] for q in reversed(ids) if q in ni and ni[q] in inv) or "_")
            if steps:
                treq[n] += " | " + ";".join(steps)
    mt = ctx.run_model(exe, treq)
    for (k, s, search), m, i in zip(tmeta, mt, it):
        if k not in nums:
            continue
        r = uniq[k][0]
        ctx.count(1, key=("trace", r, s, search), nontrivial=depth(r) >= 1 and len(s) >= 1)
        ctx.cov["traces_validated_against_impl"] += 1
        if i is None or not i.startswith("Z ") or i.startswith("Z !"):
            bad.setdefault(k, "trace of %s on %s failed: %s" % ("regexp-search" if search else "regexp-matches", str_scm(s), (i or "no answer")[:200]))
            continue
        if m == "!" or m.endswith("# !"):
            ctx.broken("model:adv-fuel", "out of fuel on %s %s (contradicts adv_fuel_suffices)" % (xproto(r), sfield(s)))
            continue
        sm, rm = canon_trace(m, nums[k][0])
        si, ri = canon_trace(i[2:], nums[k][1])
        if sm != si or rm != ri:
            step = next((n for n, (a, b) in enumerate(zip(sm, si)) if a != b), min(len(sm), len(si)))
            bad.setdefault(k, "%s on %s: simulation differs at step %d: code %s ; model %s ; results %s / %s"
                           % ("regexp-search" if search else "regexp-matches", str_scm(s), step,
                              si[step] if step < len(si) else "(ended)", sm[step] if step < len(sm) else "(ended)", ri, rm))
    # members the iteration lists outside the compared alphabet: the SPEC decides on each as a one-character subject (sound for every SRE:
    # a wrongly listed member is wrongly matched or not; either way compare() judges by the verified matcher)
    if stray_cases:
        sc = [(uniq[k][0], [(c,) for c in cs_]) for k, cs_ in stray_cases[:400]]
        compare(ctx, exe, d, sc, "engine-listed-members", sample=False)
    # judge every differing SRE by the SPEC
    for k in sorted(bad)[:40]:
        r, strs = uniq[k]
        letters = sorted({c for s in strs for c in s} | cps_of(r))[:3] or [A_]
        probe = list(dict.fromkeys(list(strs) + extra_probe.get(k, []) + all_strings(letters, 3)))
        before = len(ctx.violations)
        compare(ctx, exe, d, [(r, probe)], "engine-judge", sample=False)
        if len(ctx.violations) == before:
            ctx.broken("inner-correspondence:engine", "%s: %s -- no subject up to length 3 separates the answers from the SPEC (engine drift)" % (scm(r), bad[k][:1500]))
        else:
            for v in ctx.violations[before:]:
                v.setdefault("engine_difference", bad[k][:1500])
    if uniq and 0 in nums:
        ctx.sample(dict(kind=label, sre=scm(uniq[-1][0]), model_graph=mg[-1][:300], impl_graph=(ig[-1] or "")[:300],
                        model_trace=mt[-1][:300] if mt else None, impl_trace=(it[-1] or "")[:300] if it else None))
    ctx.note("stage %s: %d state graphs, %d simulation traces, %d SREs differ, %d SREs outside wf_x%s, %.1fs"
             % (label, len(uniq), len(tmeta), len(bad), len(not_wf), (" e.g. " + not_wf[0]) if not_wf else "", time.time() - t0))


def load_corpus(fold=False):
    out = []
    if os.path.isdir(CORPUS):
        for f in sorted(os.listdir(CORPUS)):
            if f.endswith(".jsonl") and f.startswith("fold") == fold:
                for line in open(os.path.join(CORPUS, f)):
                    line = line.strip()
                    if line and not line.startswith("#"):
                        j = json.loads(line)
                        out.append((totuple(j["sre"]), [tuple(s) for s in j["strings"]]))
    return out


def totuple(x):
    return tuple(totuple(y) for y in x) if isinstance(x, list) else x


def run(ctx):
    ctx.cov["rule"] = ("(SRE, subject) pairs: corpus of past disagreements; EXHAUSTIVE small sizes (all 705 SREs of depth <= 1 over 15 atoms, "
                       "16 unary and 2 binary operators x every string up to length 2 (thorough: 3) over {a,b,A,newline} + a sample of the next length; "
                       "thorough: all 26.8k SREs of depth 2 over 6 atoms/6 unary/2 binary x 12 sampled strings up to length 4 over {a,b,newline} (quick: 300 of them); "
                       "a seeded slice of depth-2 SREs over the full operator set; random SREs to "
                       "depth 5 x strings to length 12 over 3-4 letters (+ newline, upper case); Unicode samples (2/3/4-byte characters, case pairs). "
                       "Each pair: regexp-matches and regexp-search vs the verified matcher (boolean, span 0, leftmost-longest for greedy SREs) and "
                       "all reported spans through the verified validator check_spans; for greedy SREs also regexp-fold, "
                       "regexp-extract, regexp-split, regexp-partition, regexp-replace, regexp-replace-all vs the proved fold_spans. Distinct by (SRE, string); non-trivial when the SRE has an "
                       "operator and the string is non-empty. ENGINE level: for every generated SRE the compiled state graph (read through the module environment) "
                       "vs compile_top of coq/C20/Nfa.v state for state, and for 2 (thorough 4) subjects per SRE the searchers and the accept after every character of "
                       "regexp-advance! vs loop_tr, for regexp-search and regexp-matches")
    ctx.coq_obligations("Properties_C20")
    d = ctx.build("default")
    exe = ctx.extract("C20")
    if exe is None:
        return
    rng = ctx.rng
    used = set()
    eng_cases = []

    import time

    def go(cases, label, track=True):
        t0 = time.time()
        cases = [(tame(r, False, tame_subj(r, strs)), strs) for r, strs in cases]
        for r, strs in cases if track else []:
            used.update(cps_of(r))
            for s in strs:
                used.update(s)
        compare(ctx, exe, d, cases, label)
        eng_cases.extend(cases)
        ctx.note("stage %s: %d SREs, %d pairs, %.1fs" % (label, len(cases), sum(len(x[1]) for x in cases), time.time() - t0))

    # -------------------------------------------------------------- corpus first
    go(load_corpus(), "corpus")
    # -------------------------------------------------------------- exhaustive small sizes
    T = ctx.thorough
    lv = level_sets(ATOMS_FULL, UNARY_FULL, BINARY, 1)
    full1 = lv[0] + lv[1]
    alpha4 = [A_, B_, NL, UA]
    strs_lo = all_strings(alpha4, 3 if T else 2)              # every string up to this length, for every SRE
    strs_hi = [s for s in all_strings(alpha4, 4 if T else 3) if len(s) == (4 if T else 3)]
    go([(r, strs_lo + rng.sample(strs_hi, 40 if T else 8)) for r in full1], "exhaustive-depth1")
    small = level_sets(ATOMS_SMALL, UNARY_SMALL, BINARY, 2)
    strs4 = all_strings([A_, B_, NL], 4)
    if T:
        go([(r, rng.sample(strs4, 12)) for r in small[2]], "all-depth2-small")
    else:
        go([(r, rng.sample(strs4, 12)) for r in rng.sample(small[2], 300)], "slice-depth2-small")
    strs3 = all_strings(alpha4, 3)
    # a submatch under a repetition whose body is itself an operator (stale spans from an earlier iteration): exhaustive family
    loops = [lambda a: ('star', True, a), lambda a: ('plus', a), lambda a: ('rep', '**', True, 1, 3, a), lambda a: ('rep', '>=', True, 1, None, a),
             lambda a: ('star', False, a)]
    fam = [lp(('sub', u(at))) for lp in loops for u in UNARY_FULL for at in (('chr', ('c', A_)), ('chr', ('r', A_, B_)), ('chr', ('any',)))]
    fam += [lp(('seq', ('sub', u(('chr', ('c', A_)))), ('opt', True, ('chr', ('c', B_))))) for lp in loops for u in UNARY_FULL]
    go([(r, rng.sample(strs3, 20 if T else 8) + rng.sample(strs4, 10 if T else 4)) for r in fam], "submatch-in-loop")
    # operators around a submatch whose body has several elements, printed both as ($ a b) and as ($ (: a b)) (strip-submatches and the
    # implicit sequences of ->rx see different lists): exhaustive family
    at3 = [('chr', ('c', A_)), ('chr', ('c', B_)), ('chr', ('any',))]
    fam2 = [u(('sub', ('seq', p, q))) for u in UNARY_FULL for p in at3 for q in at3[:2]]
    fam2 += [u(('seq', ('sub', ('seq', p, q, p)), ('opt', True, q))) for u in UNARY_FULL[5:13] for p in at3[:2] for q in at3[:2]]
    go([(r, rng.sample(strs3, 10 if T else 5) + rng.sample(strs4, 12 if T else 5)) for r in fam2], "multi-element-submatch")
    # depth-2 over the full operator set: seeded slice
    cases = []
    for _ in range(10000 if T else 300):
        if rng.random() < 0.5:
            r = rng.choice(UNARY_FULL)(rng.choice(lv[1]))
        else:
            r = rng.choice(BINARY)(rng.choice(full1), rng.choice(full1))
        cases.append((r, rng.sample(strs3, 16 if T else 10)))
    go(cases, "slice-depth2-full")
    # -------------------------------------------------------------- random deep SREs
    cases = []
    for _ in range(40000 if T else 400):
        alpha = rng.choice([[A_, B_, C_], [A_, B_, NL], [A_, B_, UA, NL], [A_, UA, B_, 0x20]])
        r = rand_sre(rng, alpha, rng.choice([2, 3, 3, 4, 4, 5]))
        cases.append((r, rand_strings(rng, alpha, 10 if T else 8, 12)))
    go(cases, "random-deep")
    # -------------------------------------------------------------- Unicode samples
    ualpha = [UNI["latin1"][0], UNI["latin1"][1], UNI["greek"][0], UNI["greek"][1], UNI["cyr"][0], UNI["cyr"][1], UNI["cyr2"][0], UNI["cyr2"][1],
              UNI["deseret"][0], UNI["deseret"][1], UNI["cjk"], A_, UA, UNI["digit"], UNI["under"], UNI["space"], NL]
    cases = []
    for _ in range(10000 if T else 150):
        alpha = rng.sample(ualpha, 4)
        r = rand_sre(rng, alpha, rng.choice([1, 2, 3]))
        if rng.random() < 0.6:
            r = ('nocase', r)
        cases.append((r, rand_strings(rng, alpha + [alpha[0]], 8 if T else 6, 8)))
    go(cases, "unicode")
    # -------------------------------------------------------------- character classes stored as a tree of iset nodes
    # (no case flag, no word anchors: the characters are opaque code points for the model, so they may come from any block and are
    # not handed to the character stage; the w/nocase share stays inside the modelled universe and is handed to it)
    cases = [(('chr', ('O', tuple(('c', c) for c in (0x3e8, 0x1f4, 0x2bc, 0x3b6, 0x33e, 0x2c6, 0x2b2)))), [(c,) for c in range(0x2b0, 0x2c8)]),
             (('chr', ('s', (0x100, 0x300, 0x200, 0x14a, 0x1c0, 0x210))), [(c,) for c in range(0x1fe, 0x212)])]
    cases += [tree_case(rng) for _ in range(1000 if T else 120)]
    go(cases, "charclass-tree", track=False)
    go([tree_case(rng, UNIVERSE, nocase=True) for _ in range(300 if T else 30)], "charclass-tree-nocase")
    # -------------------------------------------------------------- the PCRE string syntax (extension beyond the property text)
    pc = [('pcre', t, r) for t, r in [
        ("ab{2}", ('seq', ('str', (A_,)), ('rep', '=', True, 2, 2, ('chr', ('c', B_))))),
        ("ab{1,2}c", ('seq', ('str', (A_,)), ('rep', '**', True, 1, 2, ('chr', ('c', B_))), ('str', (C_,)))),
        ("c(ab{2,})", ('seq', ('str', (C_,)), ('sub', ('seq', ('str', (A_,)), ('rep', '>=', True, 2, None, ('chr', ('c', B_))))))),
        ("ab*", ('seq', ('str', (A_,)), ('star', True, ('chr', ('c', B_))))), ("ab+c", ('seq', ('str', (A_,)), ('plus', ('chr', ('c', B_))), ('str', (C_,)))),
        ("abc?", ('seq', ('str', (A_, B_)), ('opt', True, ('chr', ('c', C_)))))]]
    pc += [pcre_case(rng) for _ in range(800 if T else 50)]
    strs_abc = all_strings([A_, B_, C_], 3)
    t0 = time.time()
    pcases = [(r, strs_abc + rand_strings(rng, [A_, B_, C_], 8, 7)) for r in dict.fromkeys(pc)]
    compare(ctx, exe, d, pcases, "pcre-syntax")
    ctx.note("stage pcre-syntax: %d PCRE strings, %d pairs, %.1fs" % (len(pcases), sum(len(x[1]) for x in pcases), time.time() - t0))
    # -------------------------------------------------------------- optional start / end arguments
    rcases = []
    for _ in range(3000 if T else 200):
        alpha = rng.choice([[A_, B_, NL], [A_, B_, UA, NL], rng.sample(ualpha, 4)])
        r = rand_sre(rng, alpha, rng.choice([1, 2, 3]))
        xs = []
        for s in rand_strings(rng, alpha, 6, 9):
            a = rng.randrange(0, len(s) + 1)
            xs.append((s, a, rng.randrange(a, len(s) + 1)))
        r = tame(r, False, tame_subj(r, [x[0] for x in xs]))
        rcases.append((r, xs))
        used.update(cps_of(r))
        for s, _, _ in xs:
            used.update(s)
    for r in (full1 if T else rng.sample(full1, 200)):
        xs = []
        for s in rng.sample(strs3, 6 if T else 4):
            a = rng.randrange(0, len(s) + 1)
            xs.append((s, a, rng.randrange(a, len(s) + 1)))
        rcases.append((tame(r, False, tame_subj(r, [x[0] for x in xs])), xs))
    t0 = time.time()
    compare(ctx, exe, d, rcases, "start-end-arguments", ranged=True)
    ctx.note("stage start-end-arguments: %d SREs, %d calls, %.1fs" % (len(rcases), sum(len(x[1]) for x in rcases), time.time() - t0))
    # -------------------------------------------------------------- regexp-fold family
    greedy = [u for k, u in enumerate(UNARY_FULL) if k not in (1, 4, 8)]
    f1 = level_sets(ATOMS_FULL, greedy, BINARY, 1)
    fcases = load_corpus(fold=True) + [(r, rng.sample(strs3, 12 if T else 5)) for r in f1[0] + f1[1]]
    for _ in range(4000 if T else 250):
        alpha = rng.choice([[A_, B_, C_], [A_, B_, NL], [A_, B_, UA, NL], [A_, 0x2c, B_, 0x20]])
        fcases.append((rand_sre(rng, alpha, rng.choice([2, 3, 4])), rand_strings(rng, alpha, 6, 10)))
    for r, strs in fcases:
        used.update(cps_of(r))
        for s in strs:
            used.update(s)
    fold_stage(ctx, exe, d, fcases, "fold-family")
    # -------------------------------------------------------------- engine level: state graphs and simulation steps
    engine_stage(ctx, exe, d, eng_cases, 4 if T else 2)
    # -------------------------------------------------------------- function level: anchor predicates
    astrs = list(strs3) + rand_strings(rng, ualpha, 2000 if T else 200, 8) + rand_strings(rng, [A_, UNI["under"], UNI["digit"], 0x20, NL, 0x2d], 2000 if T else 200, 8)
    anchor_stage(ctx, exe, d, astrs)
    reps_stage(ctx, exe, d, 6 if T else 4, 9 if T else 6)
    ge_stage(ctx, exe, d, rng, 20000 if T else 2000)
    for x in astrs:
        used.update(x)
    char_stage(ctx, exe, d, used)
    ctx.assume("SRE subset: literals, strings, char sets (/ or and ~ - any w/nocase w/case), seq, or, * + ? *? ?? ** **? = >= and their long names, "
               "$ / submatch, -> (named submatch, by number only), w/nocapture, word, bos eos bol eol bow eow nwb, w/nocase w/case; submatch lists, look-around, "
               "word+, grapheme, named char classes, w/ascii, backreferences and the PCRE string syntax are outside the model")
    ctx.assume("characters are drawn from the modelled universe (ASCII, Latin-1 letters, Greek, Cyrillic, Deseret, one CJK ideograph); on it the model's "
               "simple case folding and chibi's upcase/downcase closure are checked to induce the same relation (characters such as U+03C2, U+00B5, U+00FF whose "
               "case relatives leave the universe are excluded)")
    ctx.assume("not compared (SRFI 115 leaves it open): (** m n) with n < m; complement / difference / intersection of char sets under w/nocase; which iteration a "
               "submatch under a repetition reports (only that its span is valid); for SREs with non-greedy operators the length of the match (only its start, its "
               "validity and, for regexp-matches, that it covers the string); the regexp-fold family only for SREs without non-greedy operators; empty matches of regexp-fold "
               "are compared as the repaired code produces them")
    ctx.trust("harness/c20_driver.scm (reads cases, prints spans), the renderers proto()/scm() in props/C20.py that print one SRE in the model's and in Scheme's syntax")
    ctx.trust("engine stage: xproto() (prints the surface form of an SRE exactly as scm() prints it for chibi), canon_graph()/canon_trace() (the same depth-first "
              "renumbering applied to both sides), the graph / trace dumpers of harness/c20_driver.scm (state accessors and a wrapper around posse-for-each installed "
              "through the module environment of (chibi regexp)); char-set states are compared on a finite alphabet per SRE")
    ctx.assume("engine stage: the order in which regexp-advance! walks a posse is hash-table order (regexp.scm:495); the vectors kept can depend on it, so the model replays "
               "the order observed in the running code (coq/C20/NfaOrd.v); state-ids are not compared (debugging only), graphs are compared up to depth-first renumbering")


def replay(ctx, data):
    d = ctx.build("default")
    exe = ctx.extract("C20")
    n = 0
    for c in data.get("failing_cases", []):
        inp = c.get("input", {})
        print(json.dumps(dict(sig=c.get("sig"), input=inp, expected=c.get("expected"), observed=c.get("observed")), indent=1))
        cmd = c.get("replay", "").replace("$D", d)
        print("replay:", cmd)
        if cmd.startswith("printf"):
            r = subprocess.run(cmd, shell=True, capture_output=True, text=True, timeout=120, env=B.chibi_env(d))
            print("implementation now answers:", (r.stdout + r.stderr).strip()[:500])
        n += 1
    return 1 if n else 0
