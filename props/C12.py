"""C12 — strings are sequences of Unicode scalar values whatever the byte encoding.
   (G)       gen/c12_leaf.py re-translates the UTF-8 leaf functions of sexp.c into coq/Gen/C12_Leaf.v; the
             theorems of coq/Properties_C12.v are proved about that translation; the translated functions
             (extracted) are cross-run against the real C functions (harness/embed_c12.c).
   (K-inner) harness/embed_c12.c calls sexp_string_index_to_cursor / sexp_string_utf8_index_ref /
             sexp_string_utf8_index_set / sexp_utf8_substring_op / ... on explicit (store, offset, size)
             triples; the answers (including the dumped stores) are compared with the extracted model.
   (K-outer) operation histories through the Scheme API (harness/c12_hist.scm) against the code-point-array
             SPEC (extracted spec_run for the modelled operations, the same array semantics in python for
             the wider set), with the extracted model in the middle for the modelled operations."""
import os, subprocess, json
from vlib import build as B, scm

HERE = os.path.dirname(os.path.abspath(__file__))
HARNESS = os.path.join(HERE, "..", "harness")

IMPORTS = ("(import (only (chibi io) make-custom-binary-input-port) (only (chibi filesystem) open open/read open/write open/create open/truncate "
           "open-input-file-descriptor open-output-file-descriptor) (scheme file))"
           "(import (only (chibi string) string-join) (prefix (only (srfi 130) string-join) s130:) (only (chibi) string-concatenate))"
           "(import (only (chibi io) utf8->string!) (only (chibi) string-cursor-start string-cursor-end "
           "string-cursor-next string-cursor-prev string-cursor-ref string-cursor<? string-cursor>? "
           "string-cursor->index string-index->cursor string-cursor? substring-cursor %write-string string-cmp))"
           "(import (only (chibi io) read-string!) (prefix (only (srfi 130) string-index string-index-right string-count string-fold "
           "string-for-each-cursor string-copy/cursors string->list/cursors string-take string-drop string-take-right string-drop-right) s130:))")

# code points at the case-split boundaries of the proofs (width classes, surrogate gap, lead-byte classes)
BOUNDARY = [0x1, 0x41, 0x61, 0x7E, 0x7F, 0x80, 0x81, 0xBF, 0xC0, 0xFF, 0x100, 0x3BB, 0x7FE, 0x7FF, 0x800, 0x801, 0xFFF, 0x1000,
            0x20AC, 0xD7FF, 0xE000, 0xFFFD, 0xFFFE, 0xFFFF, 0x10000, 0x10001, 0x1F600, 0x3FFFF, 0x40000, 0xFFFFF, 0x100000,
            0x10FFFE, 0x10FFFF]
BY_WIDTH = {1: [0x41, 0x7F, 0x62, 0x20, 0x1], 2: [0x80, 0x3BB, 0x7FF, 0xE9], 3: [0x800, 0x20AC, 0xFFFF, 0xD7FF, 0xE000],
            4: [0x10000, 0x1F600, 0x10FFFF]}


def is_scalar(c):
    return 0 <= c <= 0x10FFFF and not (0xD800 <= c <= 0xDFFF)


def utf8(cs):
    """the oracle: python's encoder (independent of chibi and of the model)"""
    return list("".join(chr(c) for c in cs).encode("utf-8"))


def width(c):
    return len(utf8([c]))


def hx(l):
    return ",".join("%x" % x for x in l) if l else "_"


def zhex(z):
    return ("-%x" % -z) if z < 0 else ("%x" % z)


def unhx(s):
    return [] if s in ("_", "-", "") else [int(x, 16) for x in s.split(",")]


def rand_cp(rng):
    r = rng.random()
    if r < 0.35:
        return rng.choice(BOUNDARY)
    if r < 0.55:
        return rng.randrange(0x20, 0x7F)
    w = rng.choice([2, 3, 4])
    while True:
        c = rng.randrange({2: 0x80, 3: 0x800, 4: 0x10000}[w], {2: 0x800, 3: 0x10000, 4: 0x110000}[w])
        if is_scalar(c):
            return c


def rand_cps(rng, maxlen=12):
    n = rng.choice([0, 1, 1, 2, 3, 3, 4, 5, 6, 8, maxlen])
    return [rand_cp(rng) for _ in range(n)]


# ------------------------------------------------------------------------------------------ (G) leaves
def leaf_requests(ctx):
    rng = ctx.rng
    reqs = []
    for b in range(256):
        reqs.append(("ibc", b))
    cps = set(BOUNDARY) | {0, 0xD800, 0xDFFF}
    for k in (7, 11, 16, 21):
        for d in (-2, -1, 0, 1, 2):
            if 0 <= (1 << k) + d <= 0x10FFFF:
                cps.add((1 << k) + d)
    n = 600 if not ctx.thorough else 0
    while len(cps) < len(BOUNDARY) + n:
        cps.add(rand_cp(rng))
    if ctx.thorough:
        cps |= set(range(0, 0x110000))
    cps = sorted(cps)
    for c in cps:
        reqs.append(("cbc", c))
        reqs.append(("enc", c))
    for c in (cps if not ctx.thorough else cps[::7]):
        e = utf8([c]) if is_scalar(c) else None
        if e:
            pad = [rng.randrange(256) for _ in range(4 - len(e))]
            reqs.append(("dec", tuple(e + pad)))
    # the lenient decoder on arbitrary (possibly ill-formed) bytes: every lead byte x random followers
    for b0 in range(256):
        for _ in range(2 if not ctx.thorough else 24):
            reqs.append(("dec", (b0, rng.randrange(256), rng.choice([0x80, 0xBF, rng.randrange(256)]), rng.randrange(256))))
    # the string ends after `size` (1..3) of the four bytes: every lead byte x every size, the bytes behind the end
    # of the string being continuation bytes (what a decoder trusting the lead byte would happily read) or random
    for b0 in range(256):
        for size in (1, 2, 3):
            for _ in range(1 if not ctx.thorough else 6):
                reqs.append(("dect", (b0, rng.choice([0x80, 0xBF, 0x82, rng.randrange(256)]), rng.choice([0x80, 0xBF, 0xAC, rng.randrange(256)]),
                                      rng.choice([0x80, 0xBF, rng.randrange(256)]), size)))
    for c in BOUNDARY:
        if is_scalar(c):
            e = utf8([c])
            for size in range(1, len(e) + 1):
                reqs.append(("dect", tuple(e + [rng.choice([0x80, 0xBF, rng.randrange(256)]) for _ in range(4 - len(e))]) + (size,)))
    return reqs


def leaf_line(r):
    if r[0] in ("dec", "dect"):
        return "leaf dec " + " ".join("%x" % b for b in r[1])
    return "leaf %s %x" % (r[0], r[1])


def leaf_oracle(r):
    """expected answer by the SPEC where the property defines one, else None"""
    k, a = r
    if k == "ibc":
        if a < 0x80: return "1"
        if 0xC2 <= a <= 0xDF: return "2"
        if 0xE0 <= a <= 0xEF: return "3"
        if 0xF0 <= a <= 0xF4: return "4"
        return None
    if k == "cbc":
        return "%x" % width(a) if is_scalar(a) else None
    if k == "enc":
        return hx(utf8([a])) if is_scalar(a) else None
    if k == "dect":
        b0, size = a[0], a[4]
        announced = 1 if b0 < 0xC0 or b0 > 0xF7 else 2 if b0 < 0xE0 else 3 if b0 < 0xF0 else 4
        if announced > size:
            return "ERR utf8"          # a lead byte cut off by the end of the string is never a character
        a = a[:size]
    if k in ("dec", "dect"):
        for n in range(1, len(a) + 1):
            try:
                s = bytes(a[:n]).decode("utf-8")
                if len(s) == 1:
                    return "OK %x" % ord(s)
            except UnicodeDecodeError:
                pass
        return None
    return None


def check_leaves(ctx, exe, emb, d):
    reqs = leaf_requests(ctx)
    lines = [leaf_line(r) for r in reqs]
    mo = ctx.run_model(exe, lines)
    io = run_embed(ctx, emb, d, lines)
    if io is None:
        return
    bad_model = 0
    for r, l, m, i in zip(reqs, lines, mo, io):
        exp = leaf_oracle(r)
        ctx.count(1, key=l, nontrivial=(exp is not None and (r[0] != "ibc")))
        ctx.cov["traces_validated_against_impl"] += 1
        if exp is not None and i != exp:
            ctx.violation("leaf:%s:%s" % (r[0], leaf_class(r)), input=l, expected=exp, observed=i, model=m,
                          replay="echo '%s' | LD_LIBRARY_PATH=%s %s" % (l, d, emb))
        elif m != i:
            bad_model += 1
            if bad_model <= 5:
                ctx.broken("correspondence:leaf:" + r[0], "translated function and C function differ outside the domain the "
                           "property speaks about: %s model=%s impl=%s" % (l, m, i))
    ctx.sample(dict(kind="leaf", request=lines[300], model=mo[300], impl=io[300]))


def leaf_class(r):
    k, a = r
    if k == "dec":
        return "lead-%x" % (a[0] >> 4)
    if k == "dect":
        return "lead-%x:size-%d" % (a[0] >> 4, a[4])
    if k == "ibc":
        return "byte-%x" % (a >> 4)
    return "width-%d" % width(a) if is_scalar(a) else "non-scalar"


def run_embed(ctx, emb, d, lines):
    try:
        r = subprocess.run([emb], input="\n".join(lines) + "\n", capture_output=True, text=True, env=B.chibi_env(d),
                           timeout=(1500 if ctx.thorough else 120))
    except subprocess.TimeoutExpired as e:
        so = e.stdout.decode() if isinstance(e.stdout, bytes) else (e.stdout or "")
        k = so.count("\n")
        bad = lines[k] if k < len(lines) else "?"
        ctx.violation("embed-hang:" + bad.split()[0], input=bad, expected="an answer", observed="no answer within the time limit",
                      replay="echo '%s' | LD_LIBRARY_PATH=%s %s" % (bad, d, emb))
        return None
    out = r.stdout.split("\n")
    if out and out[-1] == "":
        out = out[:-1]
    if r.returncode != 0 or len(out) < len(lines):
        bad = lines[len(out)] if len(out) < len(lines) else "?"
        ctx.violation("embed-crash:" + bad.split()[0], input=bad, expected="an answer", observed="harness died rc=%s: %s" % (r.returncode, r.stderr[-300:]),
                      replay="echo '%s' | LD_LIBRARY_PATH=%s %s" % (bad, d, emb))
        return None
    return out


# ------------------------------------------------------------------------------------------ (K-inner)
def inner_cases(ctx, n):
    """well-formed stores: garbage prefix, the encodings of a scalar list, >= 1 trailing byte"""
    rng = ctx.rng
    cases = []

    def store_of(cs, shared=None):
        if shared is None:
            shared = rng.random() < 0.45
        if shared:
            pre = [rng.randrange(256) for _ in range(rng.choice([1, 2, 3, 5]))]
            post = [rng.randrange(1, 256) for _ in range(rng.choice([1, 1, 2, 4]))]
        else:
            pre, post = [], [0]
        b = utf8(cs)
        return pre + b + post, len(pre), len(b)

    # systematic: every old width x new width x position x {own store, shared store with offset}
    for w1 in (1, 2, 3, 4):
        for w2 in (1, 2, 3, 4):
            for pos in ("first", "middle", "last", "only"):
                for shared in (False, True):
                    for cow in (0, 1):
                        old, new = rng.choice(BY_WIDTH[w1]), rng.choice(BY_WIDTH[w2])
                        if pos == "only":
                            cs, i = [old], 0
                        else:
                            a, b = rand_cps(rng, 5), rand_cps(rng, 5)
                            if pos == "first": a = []
                            if pos == "last": b = []
                            if pos == "middle": a, b = a + [rand_cp(rng)], [rand_cp(rng)] + b
                            cs, i = a + [old] + b, len(a)
                        st, off, size = store_of(cs, shared)
                        cases.append(("set", st, off, size, cs, (cow, i, new)))
    cases += truncated_cases(rng)
    # string-concatenate with a separator: every separator width class, empty, #f, mixed x 0/1/2/many strings
    def join_case(seps, strs, shared=None):
        sep = None
        if seps is not None:
            st, off, size = store_of(seps, shared)
            sep = (st, off, size, seps)
        parts = []
        for cs in strs:
            st, off, size = store_of(cs, shared)
            parts.append((st, off, size, cs))
        return ("join", [0], 0, 0, [], (sep, parts))

    for seps in ([None, []] + [[c] for w in (1, 2, 3, 4) for c in BY_WIDTH[w][:2]] +
                 [[0x2192, 0x20], [0x61, 0x1F600], [0x3BB, 0x3BB, 0x3BB], [0x10FFFF, 0x7F, 0x80, 0x800]]):
        for k in (0, 1, 2, 3, 6):
            for shared in (False, True):
                cases.append(join_case(seps, [rand_cps(rng, 5) for _ in range(k)], shared))
                if k >= 2:
                    cases.append(join_case(seps, [[]] * k, shared))       # empty strings: separators only
    for _ in range(n):
        cs = rand_cps(rng)
        st, off, size = store_of(cs)
        op = rng.choice(["len", "i2c", "c2i", "ref", "next", "prev", "set", "set", "sub", "sub", "cat", "mk", "join"])
        L = len(cs)
        idx = rng.choice([0, L, L - 1, L + 1, -1, rng.randrange(0, L + 1), rng.randrange(0, L + 2)])
        if op == "len":
            cases.append(("len", st, off, size, cs, ()))
        elif op in ("i2c", "ref"):
            cases.append((op, st, off, size, cs, (idx,)))
        elif op == "c2i":
            k = rng.randrange(0, L + 1)
            cases.append((op, st, off, size, cs, (len(utf8(cs[:k])),)))
        elif op == "next" and L:
            k = rng.randrange(0, L)
            cases.append((op, st, off, size, cs, (len(utf8(cs[:k])),)))
        elif op == "prev" and L:
            k = rng.randrange(1, L + 1)
            cases.append((op, st, off, size, cs, (len(utf8(cs[:k])),)))
        elif op == "set":
            cases.append((op, st, off, size, cs, (rng.choice([0, 0, 0, 1]), idx, rand_cp(rng))))
        elif op == "sub":
            a = rng.choice([0, idx, rng.randrange(0, L + 1)])
            b = rng.choice([None, L, L + 1, a, a - 1, rng.randrange(0, L + 1), rng.randrange(a, L + 1) if 0 <= a <= L else 0])
            cases.append((op, st, off, size, cs, (a, b)))
        elif op == "cat":
            cs2 = rand_cps(rng)
            st2, off2, size2 = store_of(cs2)
            cases.append((op, st, off, size, cs, (st2, off2, size2, cs2)))
        elif op == "mk":
            cases.append((op, [0], 0, 0, [], (rng.choice([0, 1, 2, 3, 7]), rand_cp(rng))))
        elif op == "join":
            seps = rng.choice([None, [], [rand_cp(rng)], [rand_cp(rng)], rand_cps(rng, 4)])
            cases.append(join_case(seps, [rand_cps(rng, 6) for _ in range(rng.choice([0, 1, 2, 2, 3, 4, 7]))]))
    return cases


def truncated_cases(rng):
    """strings whose last bytes are a lead byte cut off by the end of the string (what utf8->string of bytes ending in
    #xF0 or #xE2 #x82 builds): every width w = 2,3,4 x every cut k = 1..w-1 x own / shared store (the bytes behind the end
    of the string then look like the missing continuation bytes) x 0 / some characters before;
    tref: string-ref at the cut-off position (must raise) and before it; tset: string-set! there with every new width x cow"""
    out = []
    for w in (2, 3, 4):
        for k in range(1, w):
            for shared in (False, True):
                for before in (0, 1, 3):
                    x = rng.choice(BY_WIDTH[w])
                    cs = [rand_cp(rng) for _ in range(before)]
                    cut = utf8([x])[:k]
                    if shared:
                        pre = [rng.randrange(256) for _ in range(rng.choice([1, 2, 5]))]
                        post = rng.choice([utf8([x])[k:] + [rng.randrange(1, 256)], [0x80, 0xBF, 0x80, 0x41], [rng.randrange(1, 256)]])
                    else:
                        pre, post = [], [0]
                    b = utf8(cs) + cut
                    st, off, size = pre + b + post, len(pre), len(b)
                    L = len(cs)
                    out.append(("tref", st, off, size, cs, (L, w, k)))
                    if L:
                        out.append(("tref", st, off, size, cs, (L - 1, w, k)))
                    for w2 in (1, 2, 3, 4):
                        for cow in (0, 1):
                            out.append(("tset", st, off, size, cs, (cow, L, rng.choice(BY_WIDTH[w2]), w, k)))
    return out


def inner_line(c):
    op, st, off, size, cs, a = c
    if op == "tref":
        return "ref %s %x %x %s" % (hx(st), off, size, zhex(a[0]))
    if op == "tset":
        return "set %s %x %x %d %s %x" % (hx(st), off, size, a[0], zhex(a[1]), a[2])
    head = "%s %s %x %x" % (op, hx(st), off, size)
    if op == "len":
        return head
    if op in ("i2c", "c2i", "ref", "next", "prev"):
        return head + " " + zhex(a[0])
    if op == "set":
        return head + " %d %s %x" % (a[0], zhex(a[1]), a[2])
    if op == "sub":
        return head + " %s %s" % (zhex(a[0]), "_" if a[1] is None else zhex(a[1]))
    if op == "cat":
        return head + " %s %x %x" % (hx(a[0]), a[1], a[2])
    if op == "mk":
        return "mk %x %x" % a
    if op == "join":
        sep, parts = a
        return ("join %x %s %s" % (len(parts), "# 0 0" if sep is None else "%s %x %x" % (hx(sep[0]), sep[1], sep[2]),
                                   " ".join("%s %x %x" % (hx(q[0]), q[1], q[2]) for q in parts))).strip()


def intercalate(seps, lists):
    out = []
    for k, l in enumerate(lists):
        if k:
            out += seps
        out += l
    return out


def inner_judge(c, out):
    """is the implementation's answer right w.r.t. the code-point-array SPEC?  -> (ok, expected text)"""
    op, st, off, size, cs, a = c
    L = len(cs)
    try:
        f = out.split(" ")
        if op == "len":
            return out == "OK %x" % L, "OK %x" % L
        if op == "i2c":
            exp = "OK %x" % len(utf8(cs[:a[0]])) if 0 <= a[0] <= L else "ERR range"
            return out == exp, exp
        if op == "c2i":
            k = [len(utf8(cs[:j])) for j in range(L + 1)].index(a[0])
            return out == "OK %x" % k, "OK %x" % k
        if op == "ref":
            exp = "OK %x" % cs[a[0]] if 0 <= a[0] < L else "ERR range"
            return out == exp, exp
        if op == "tref":
            exp = "OK %x" % cs[a[0]] if 0 <= a[0] < L else "ERR utf8"
            return out == exp, exp
        if op == "tset":
            cow, i, ch, w, k = a
            eb = utf8(cs + [ch])
            exp = "string bytes %s, size %x (the %d cut-off bytes replaced), a terminator slot, old store untouched when replaced" % (hx(eb), len(eb), k)
            if f[0] != "OK":
                return False, exp
            fresh, noff, nsize = int(f[1]), int(f[2], 16), int(f[3], 16)
            s0, s1 = unhx(f[4]), unhx(f[5])
            cur = s1 if fresh else s0
            ok = nsize == len(eb) and cur[noff:noff + nsize] == eb and len(cur) > noff + nsize
            if fresh:
                ok = ok and s0 == st
            else:
                p = off + len(utf8(cs))
                ok = ok and not cow and width(ch) == k and s0[:p] == st[:p] and s0[p + k:] == st[p + k:]
            return ok, exp
        if op == "next":
            k = [len(utf8(cs[:j])) for j in range(L + 1)].index(a[0])
            exp = "OK %x" % len(utf8(cs[:k + 1]))
            return out == exp, exp
        if op == "prev":
            k = [len(utf8(cs[:j])) for j in range(L + 1)].index(a[0])
            exp = "OK %x" % len(utf8(cs[:k - 1]))
            return out == exp, exp
        if op == "set":
            cow, i, ch = a
            if not (0 <= i < L):
                return out == "ERR range", "ERR range"
            new = cs[:i] + [ch] + cs[i + 1:]
            eb = utf8(new)
            exp = "string bytes %s, size %x, a terminator slot, old store untouched when replaced" % (hx(eb), len(eb))
            if f[0] != "OK":
                return False, exp
            fresh, noff, nsize = int(f[1]), int(f[2], 16), int(f[3], 16)
            s0, s1 = unhx(f[4]), unhx(f[5])
            cur = s1 if fresh else s0
            ok = nsize == len(eb) and cur[noff:noff + nsize] == eb and len(cur) > noff + nsize
            if fresh:
                ok = ok and s0 == st
            else:
                # in place: nothing outside the replaced character changes
                p = off + len(utf8(cs[:i]))
                ok = ok and s0[:p] == st[:p] and s0[p + width(ch):] == st[p + width(cs[i]):] and width(ch) == width(cs[i])
            return ok, exp
        if op == "sub":
            s, e = a
            e2 = L if e is None else e
            if not (0 <= s <= e2 <= L):
                return out.startswith("ERR"), "ERR range"
            eb = utf8(cs[s:e2])
            exp = "OK %x %s" % (len(eb), hx(eb + [0]))
            return out == exp, exp
        if op == "cat":
            eb = utf8(cs + a[3])
            exp = "OK %x %s" % (len(eb), hx(eb + [0]))
            return out == exp, exp
        if op == "mk":
            eb = utf8([a[1]] * a[0])
            exp = "OK %x %s" % (len(eb), hx(eb + [0]))
            return out == exp, exp
        if op == "join":
            sep, parts = a
            eb = utf8(intercalate(sep[3] if sep else [], [q[3] for q in parts]))
            exp = "OK %x %s" % (len(eb), hx(eb + [0]))
            return out == exp, exp
    except Exception as e:   # unparsable answer
        return False, "parsable answer (%s)" % e
    return None, ""


def inner_sig(c):
    op, st, off, size, cs, a = c
    if op == "join":
        sep, parts = a
        ws = sorted(set(width(c) for c in sep[3])) if sep else []
        return "string-join:sep-%s:%s" % ("none" if sep is None else ("empty" if not ws else "w" + "".join(map(str, ws))),
                                          "n%d" % min(len(parts), 3))
    if op == "tref":
        return "string-ref:%s:w%d-k%d:%s" % ("truncated-lead" if a[0] == len(cs) else "before-truncated-lead", a[1], a[2], "offset" if off else "own")
    if op == "tset":
        return "string-set!:truncated-lead:w%d-k%d->w%d:%s%s" % (a[3], a[4], width(a[2]), "offset" if off else "own", ":cow" if a[0] else "")
    if op == "set" and 0 <= a[1] < len(cs):
        return "string-set!:w%d->w%d:%s%s" % (width(cs[a[1]]), width(a[2]), "offset" if off else "own", ":cow" if a[0] else "")
    return "prim:%s:%s" % (op, "offset" if off else "own")


def check_inner(ctx, exe, emb, d, n):
    cases = inner_cases(ctx, n)
    lines = [inner_line(c) for c in cases]
    mo = ctx.run_model(exe, lines)
    io = run_embed(ctx, emb, d, lines)
    if io is None:
        return
    nb = 0
    for c, l, m, i in zip(cases, lines, mo, io):
        nontriv = any(x >= 0x80 for x in c[4]) or (c[0] in ("set", "mk") and c[5][-1] >= 0x80) or c[0] in ("tref", "tset") or \
            (c[0] == "join" and any(x >= 0x80 for q in ([c[5][0]] if c[5][0] else []) + c[5][1] for x in q[3]))
        ctx.count(1, key=l, nontrivial=nontriv)
        ctx.cov["traces_validated_against_impl"] += 1
        ok, exp = inner_judge(c, i)
        if ok is False:
            ctx.violation(inner_sig(c), input=l, code_points=(hx(c[4]) if c[0] != "join" else
                          "sep=%s strings=%s" % (hx(c[5][0][3]) if c[5][0] else "#f", ";".join(hx(q[3]) for q in c[5][1]))), expected=exp, observed=i, model=m,
                          replay="echo '%s' | LD_LIBRARY_PATH=%s %s" % (l, d, emb))
        elif m != i:
            nb += 1
            if nb <= 5:
                ctx.broken("correspondence:inner:" + c[0], "model and C differ though the C answer satisfies the SPEC: %s model=%s impl=%s" % (l, m, i))
    for k in (0, 300):
        if k < len(lines):
            ctx.sample(dict(kind="inner", request=lines[k], model=mo[k], impl=io[k]))


def check_truncated_impl_only(ctx, emb, d):
    cases = truncated_cases(ctx.rng)
    lines = [inner_line(c) for c in cases]
    io = run_embed(ctx, emb, d, lines)
    if io is None:
        return
    for c, l, i in zip(cases, lines, io):
        ctx.count(1, key=l, nontrivial=True)
        ok, exp = inner_judge(c, i)
        if ok is False:
            ctx.violation(inner_sig(c), input=l, code_points=hx(c[4]), expected=exp, observed=i,
                          replay="echo '%s' | LD_LIBRARY_PATH=%s %s" % (l, d, emb))


def check_truncated_outer(ctx, d):
    """the same strings through the Scheme API: (utf8->string #u8(... lead byte cut off)) ; string-ref at the cut-off position
    must raise, string-set! there gives the characters before the cut followed by the new character (SPEC only, no model)"""
    rng = ctx.rng
    cases, exprs = [], []
    for w in (2, 3, 4):
        for k in range(1, w):
            for before in (0, 2):
                for w2 in (1, 2, 3, 4):
                    cs = [rand_cp(rng) for _ in range(before)]
                    cs = [c if c != 0 else 0x41 for c in cs]
                    x, ch = rng.choice(BY_WIDTH[w]), rng.choice(BY_WIDTH[w2])
                    b = utf8(cs) + utf8([x])[:k]
                    L = len(cs)
                    e = ("(let* ((s (utf8->string (bytevector %s))) (r (guard (e (#t 'E)) (char->integer (string-ref s %d))))) "
                         "(string-set! s %d (integer->char %d)) (list r (string->utf8 s) (map char->integer (string->list s)) (string-length s)))"
                         % (" ".join(map(str, b)), L, L, ch))
                    new = cs + [ch]
                    exp = "(E #u8(%s) (%s) %d)" % (" ".join("#x%02X" % y for y in utf8(new)), " ".join(map(str, new)), len(new))
                    cases.append((w, k, w2, exp)); exprs.append(e)
    res = scm.run_cases(d, exprs, imports=IMPORTS, timeout=120)
    for (w, k, w2, exp), e, o in zip(cases, exprs, res):
        ctx.count(1, key=e, nontrivial=True)
        ctx.cov["traces_validated_against_impl"] += 1
        if o is None or " ".join(o.upper().split()) != " ".join(exp.upper().split()):
            ctx.violation("outer:truncated-lead:w%d-k%d->w%d" % (w, k, w2), input=e, expected=exp, observed=o, replay=e)


# ------------------------------------------------------------------------------------------ (K-outer)
class Spec:
    """the code-point-array SPEC for the wide operation set (python lists; nothing about bytes except
    that the expected utf8 is the standard encoding of the list)"""
    def __init__(self):
        self.vars = []      # [cps, immutable]

    def obs(self, v):
        cs = self.vars[v][0]
        return "%x %s %s %x" % (v, hx(cs), hx(utf8(cs)), len(cs))

    def push(self, cs, imm=False):
        self.vars.append([list(cs), imm])
        return self.obs(len(self.vars) - 1)

    def step(self, op):
        k = op[0]
        V = self.vars
        try:
            if k == "L": return self.push(op[2])
            if k == "Q": return self.push(op[1], True)
            if k == "H": return self.push(op[3])
            if k == "S":
                _, v, i, c = op
                if V[v][1] or not (0 <= i < len(V[v][0])): return "E"
                V[v][0][i] = c
                return self.obs(v)
            if k == "U":
                v, a = op[1], op[2]
                cs = V[v][0]
                b = op[3] if len(op) > 3 else len(cs)
                if not (0 <= a <= b <= len(cs)): return "E"
                return self.push(cs[a:b])
            if k == "A": return self.push([c for v in op[1] for c in V[v][0]])
            if k == "C": return self.push(V[op[1]][0])
            if k == "M": return self.push([op[2]] * op[1])
            if k == "F":
                v, c = op[1], op[2]
                cs = V[v][0]
                a = op[3] if len(op) > 3 else 0
                b = op[4] if len(op) > 4 else len(cs)
                cs[a:b] = [c] * (b - a)
                return self.obs(v)
            if k == "Y":
                tv, at, sv = op[1], op[2], op[3]
                src = V[sv][0]
                a = op[4] if len(op) > 4 else 0
                b = op[5] if len(op) > 5 else len(src)
                chunk = list(src[a:b])
                V[tv][0][at:at + len(chunk)] = chunk
                return self.obs(tv)
            if k in ("R", "W", "B", "V"): return "= " + hx(V[op[1]][0])
            if k == "G":
                cs = V[op[1]][0]
                return "= %x" % cs[op[2]] if 0 <= op[2] < len(cs) else "E"
            if k == "E": return "= " + ("T" if V[op[1]][0] == V[op[2]][0] else "F")
            if k == "T": return "= " + ("T" if V[op[1]][0] < V[op[2]][0] else "F")
            if k == "X": return "= %x" % op[2] if 0 <= op[2] <= len(V[op[1]][0]) else "E"
            if k == "P": return self.push([c + op[2] for c in V[op[1]][0]])
            if k == "J":
                which, sepi, vs = op[1], op[2], op[3]
                if sepi >= len(V) or any(v >= len(V) for v in vs): return "E"
                sep = V[sepi][0] if sepi >= 0 else []
                ls = [V[v][0] for v in vs]
                r = intercalate(sep, ls)
                if which == 3 and ls: r = r + sep
                if which == 4 and ls: r = sep + r
                return self.push(r)
        except IndexError:
            return "E"
        raise ValueError(op)


def scm_op(op):
    k = op[0]
    sl = lambda l: " ".join(str(x) for x in l)
    if k == "L": return "(L %s %s)" % (op[1], sl(op[2]))
    if k == "Q": return "(Q %s)" % scm_string(op[1])
    if k == "H": return "(H (%s) (%s) %s)" % (sl(op[1]), sl(op[2]), sl(op[3]))
    if k == "A": return "(A %s)" % sl(op[1])
    if k == "R": return "(R %d %s)" % (op[1], "#t" if op[2] else "#f")
    if k == "J": return "(J %d %d %s)" % (op[1], op[2], sl(op[3]))
    return "(%s %s)" % (k, sl(op[1:]))


def scm_string(cs):
    out = []
    for c in cs:
        if c in (0x22, 0x5C): out.append("\\" + chr(c))
        elif 0x20 <= c < 0x7F: out.append(chr(c))
        else: out.append("\\x%x;" % c)
    return '"' + "".join(out) + '"'


def coq_op(op):
    """the same op in the extracted driver's syntax (only for the modelled subset)"""
    k = op[0]
    if k == "L": return "L " + hx(op[2])
    if k == "S": return "S %x %s %x" % (op[1], zhex(op[2]), op[3])
    if k == "U": return "U %x %s %s" % (op[1], zhex(op[2]), zhex(op[3]) if len(op) > 3 else "_")
    if k == "A": return "A " + (",".join("%x" % v for v in op[1]) if op[1] else "_")
    if k == "C": return "C %x" % op[1]
    if k == "M": return "M %x %x" % (op[1], op[2])
    return None


def coq_xop(op):
    """the op in the syntax of the extracted driver's hist2 request (C12/HistModel2.v): the base ops plus join with a separator
    variable, string-fill! and string-copy! with optional ranges"""
    k = op[0]
    b = coq_op(op)
    if b is not None:
        return b
    if k == "J" and op[1] in (0, 1, 2):
        return "J %s %s" % (",".join("%x" % v for v in op[3]) if op[3] else "_", "_" if op[2] < 0 else "%x" % op[2])
    if k == "F":
        return "F %x %x %s %s" % (op[1], op[2], zhex(op[3]) if len(op) > 3 else "_", zhex(op[4]) if len(op) > 4 else "_")
    if k == "Y":
        return "Y %x %s %x %s %s" % (op[1], zhex(op[2]), op[3], zhex(op[4]) if len(op) > 4 else "_", zhex(op[5]) if len(op) > 5 else "_")
    return None


KINDS = ["list", "string", "utf8", "port", "vector", "append"]


def gen_history(rng, wide, maxlen=40):
    spec = Spec()
    ops = []

    def emit(op):
        r = spec.step(op)
        ops.append(op)
        return r

    nstart = rng.choice([1, 2, 2, 3])
    for _ in range(nstart):
        cs = rand_cps(rng, 10)
        r = rng.random()
        if wide is True and r < 0.25:
            emit(("H", [rng.randrange(256) for _ in range(rng.choice([1, 2, 4]))], [rng.randrange(256) for _ in range(rng.choice([0, 1, 3]))], cs))
        elif wide is True and r < 0.35:
            emit(("Q", cs))
        else:
            emit(("L", rng.choice(KINDS) if wide else "list", cs))
    n = rng.choice([3, 6, 10, 20, maxlen - nstart])
    while len(ops) < nstart + n:
        nv = len(spec.vars)
        v = rng.randrange(nv)
        cs = spec.vars[v][0]
        L = len(cs)
        idx = rng.choice([0, L - 1, L, rng.randrange(0, L + 1), rng.randrange(0, L + 1), -1, L + 1])
        core = ["S", "S", "S", "S", "U", "A", "C", "M", "L"]
        k = rng.choice(core + (["F", "Y", "Y", "R", "W", "B", "G", "V", "E", "T", "X", "P", "H", "J", "J"] if wide is True else
                               ["F", "F", "Y", "Y", "Y", "J", "J"] if wide == "ext" else []))
        if sum(len(x[0]) for x in spec.vars) > 400 and k in ("A", "M", "L", "H", "C", "U", "P", "J"):
            k = "S"
        if k == "S":
            # aim at the width classes: pick the new width independently of the old one
            emit(("S", v, idx, rng.choice(BY_WIDTH[rng.choice([1, 2, 3, 4])]) if rng.random() < 0.7 else rand_cp(rng)))
        elif k == "U":
            a = rng.choice([0, idx, rng.randrange(0, L + 1)])
            if rng.random() < 0.3:
                emit(("U", v, a))
            else:
                emit(("U", v, a, rng.choice([L, a, rng.randrange(0, L + 1), max(a, rng.randrange(0, L + 1)), L + 1])))
        elif k == "A":
            emit(("A", [rng.randrange(nv) for _ in range(rng.choice([0, 1, 2, 2, 3]))]))
        elif k == "C":
            emit(("C", v))
        elif k == "M":
            emit(("M", rng.choice([0, 1, 2, 5]), rand_cp(rng)))
        elif k == "L":
            emit(("L", rng.choice(KINDS) if wide else "list", rand_cps(rng, 8)))
        elif k == "H":
            emit(("H", [rng.randrange(256) for _ in range(rng.choice([1, 3]))], [rng.randrange(256) for _ in range(rng.choice([0, 2]))], rand_cps(rng, 8)))
        elif k == "F":
            if spec.vars[v][1]:
                continue
            a = rng.randrange(0, L + 1)
            b = rng.randrange(a, L + 1)
            emit(rng.choice([("F", v, rand_cp(rng)), ("F", v, rand_cp(rng), a), ("F", v, rand_cp(rng), a, b)]))
        elif k == "Y":
            tv = rng.choice([v, rng.randrange(nv)])           # aliasing of source and target is frequent
            if spec.vars[tv][1]:
                continue
            a = rng.randrange(0, L + 1)
            b = rng.randrange(a, L + 1)
            tl = len(spec.vars[tv][0])
            if b - a > tl:
                b = a + tl
            at = rng.randrange(0, tl - (b - a) + 1)
            emit(("Y", tv, at, v, a, b))
        elif k == "R":
            emit(("R", v, rng.random() < 0.5))
        elif k in ("W", "B", "V"):
            emit((k, v))
        elif k == "G":
            emit(("G", v, idx))
        elif k in ("E", "T"):
            emit((k, v, rng.randrange(nv)))
        elif k == "X":
            emit(("X", v, rng.randrange(0, L + 1)))
        elif k == "P":
            if all(is_scalar(c + 1) for c in cs):
                emit(("P", v, 1))
        elif k == "J":
            # separator: an existing variable (often one of the joined strings), a fresh short non-ASCII one, or none
            r = rng.random()
            if r < 0.45:
                emit(("L", "list", rng.choice([[rng.choice(BY_WIDTH[rng.choice([2, 3, 4])])], [rand_cp(rng), rand_cp(rng)], []])))
                sepi = len(spec.vars) - 1
            elif r < 0.85:
                sepi = rng.randrange(nv)
            else:
                sepi = -1
            emit(("J", rng.choice([0, 0, 1, 1, 2, 3, 4] if wide is True else [0, 1, 2]), sepi, [rng.randrange(nv) for _ in range(rng.choice([0, 1, 2, 2, 3, 4]))]))
    return ops


def systematic_histories(rng):
    """every old width x new width x position, on a fresh string, a string sharing a bytevector at a non-zero
    offset, a copy of a literal, and a string produced by a string port; observed through every reader"""
    hs = []
    for w1 in (1, 2, 3, 4):
        for w2 in (1, 2, 3, 4):
            for pos in ("first", "middle", "last"):
                for kind in ("list", "shared", "port", "literal-copy"):
                    old, new = rng.choice(BY_WIDTH[w1]), rng.choice(BY_WIDTH[w2])
                    a, b = rand_cps(rng, 4), rand_cps(rng, 4)
                    if pos == "first": a = []
                    if pos == "last": b = []
                    if pos == "middle": a, b = a + [rand_cp(rng)], [rand_cp(rng)] + b
                    cs = a + [old] + b
                    if kind == "shared":
                        first = [("H", [rng.randrange(256), rng.randrange(256)], [rng.randrange(256)], cs)]
                    elif kind == "literal-copy":
                        first = [("Q", cs), ("S", 0, len(a), new), ("C", 0)]
                    else:
                        first = [("L", kind, cs)]
                    v = len(first) - 1
                    hs.append(first + [("S", v, len(a), new), ("W", v), ("B", v), ("R", v, True), ("G", v, len(a)), ("V", v),
                                       ("U", v, len(a)), ("A", [v, v]), ("S", v, len(a), old), ("X", v, len(cs))])
    # string-join / string-concatenate: separator of every width class (fresh, shared with offset, literal), 0..4 strings
    for w in (1, 2, 3, 4):
        for kind in ("list", "shared", "literal"):
            sep = [rng.choice(BY_WIDTH[w])] + ([rng.choice(BY_WIDTH[rng.choice([1, 2, 3, 4])])] if rng.random() < 0.5 else [])
            first = {"list": ("L", "list", sep), "shared": ("H", [rng.randrange(256)], [rng.randrange(256)], sep), "literal": ("Q", sep)}[kind]
            h = [first, ("L", "list", rand_cps(rng, 4)), ("L", "port", rand_cps(rng, 4)), ("L", "list", [])]
            for which in (0, 1, 2, 3, 4):
                for vs in ([], [1], [1, 2], [2, 3, 1], [1, 0, 2, 3]):
                    h.append(("J", which, 0, vs))
            hs.append(h)
    return hs


def run_histories(ctx, d, hists, chunk=None):
    """one result per history; a hang or crash of the interpreter is the result 'TIMEOUT' / 'CRASH ...' of the
    history that caused it; after 3 of those the remaining histories are not run (result None)"""
    prelude = open(os.path.join(HARNESS, "c12_hist.scm")).read()
    res, bad = [], 0
    chunk = chunk or (500 if ctx.thorough else 50)
    for lo in range(0, len(hists), chunk):
        part = hists[lo:lo + chunk]
        if bad >= 3:
            res += [None] * len(part)
            continue
        exprs = ["(c12-run '(%s))" % " ".join(scm_op(o) for o in h) for h in part]
        r = scm.run_cases(d, exprs, prelude_extra=prelude, imports=IMPORTS, chunk=chunk, timeout=(120 if ctx.thorough else 25))
        bad += sum(1 for x in r if x is None or x.startswith(("TIMEOUT", "CRASH")))
        res += r
    return res


def parse_fields(s):
    if s is None:
        return None
    if s.startswith('"') and s.endswith('"'):
        s = s[1:-1]
    return s.split(" | ")


def hist_sig(h, k):
    op = h[k]
    if op[0] == "S":
        sp = Spec()
        for o in h[:k]:
            sp.step(o)
        v, i, c = op[1], op[2], op[3]
        cs = sp.vars[v][0]
        origin = {"H": "shared", "Q": "literal"}.get(h[v][0], "own") if v < len(h) and h[v][0] in "LQH" else "own"
        if 0 <= i < len(cs):
            return "string-set!:w%d->w%d:%s" % (width(cs[i]), width(c), origin)
        return "string-set!:range"
    return "history:" + {"U": "substring", "A": "string-append", "C": "string-copy", "M": "make-string", "L": "construct", "Q": "literal", "H": "utf8->string!",
                         "F": "string-fill!", "Y": "string-copy!", "R": "read-char", "W": "cursor-next", "B": "cursor-prev", "G": "string-ref",
                         "V": "string->vector", "E": "string=?", "T": "string<?", "X": "cursor->index", "P": "string-map", "J": "string-join"}.get(op[0], op[0])


def first_diff(exp, got):
    if got is None:
        return 0
    for k, e in enumerate(exp):
        if k >= len(got) or got[k] != e:
            return k
    return None


def shrink(ctx, d, h, k):
    """greedy: cut after the failing step, then drop observation steps before it"""
    h = h[:k + 1]
    changed = True
    budget = 12
    while changed and budget > 0:
        changed = False
        for j in range(len(h) - 2, -1, -1):
            if h[j][0] in "RWBGVETXFYS" and budget > 0:
                cand = h[:j] + h[j + 1:]
                budget -= 1
                sp = Spec()
                exp = [sp.step(o) for o in cand]
                got = parse_fields(run_histories(ctx, d, [cand])[0])
                if first_diff(exp, got) == len(cand) - 1:
                    h = cand
                    changed = True
                    break
    return h


def check_outer(ctx, exe, d, n_core, n_wide, n_ext=0):
    rng = ctx.rng
    core = [gen_history(rng, False) for _ in range(n_core)]
    # the extended modelled set (join with separator, string-fill! / string-copy! with ranges and aliasing): three-way through hist2
    ext = [gen_history(rng, "ext") for _ in range(n_ext)]
    wide = systematic_histories(rng) + [gen_history(rng, True) for _ in range(n_wide)]
    # extracted spec_run + extracted model for the modelled subset
    mo = ctx.run_model(exe, ["hist " + ";".join(coq_op(o) for o in h) for h in core] + ["hist2 " + ";".join(coq_xop(o) for o in h) for h in ext])
    core = core + ext
    res = run_histories(ctx, d, core + wide)
    reported = 0
    nbroken = [0]
    for n, h in enumerate(core + wide):
        if res[n] is None:
            continue            # not run: the interpreter already hung/crashed 3 times (each reported)
        sp = Spec()
        exp = [sp.step(o) for o in h]
        if res[n].startswith(("TIMEOUT", "CRASH")):
            reported += 1
            txt = "(c12-run '(%s))" % " ".join(scm_op(o) for o in h)
            ctx.violation("crash-or-hang:history", input=txt, expected=" | ".join(exp)[:300], observed=res[n][:300],
                          replay="./check C12 --replay <this file>")
            continue
        got = parse_fields(res[n])
        nontriv = any(o[0] == "S" and o[3] >= 0x80 for o in h) or any(o[0] in "LHQ" and any(c >= 0x80 for c in o[-1]) for o in h)
        ctx.count(1, key=repr(h), nontrivial=nontriv)
        ctx.cov["traces_validated_against_impl"] += 1
        if n < len(core):
            # three-way: python array semantics == extracted spec_run, extracted model bytes == expected utf8
            mf = mo[n].split(" | ")
            for k, e in enumerate(exp):
                m = mf[k] if k < len(mf) else "?"
                if m.startswith("P "):
                    # outside the precondition of the extended history theorem (an invalid fill!/copy! range): the python SPEC and the
                    # generator never produce one; report it as a generator/SPEC inconsistency rather than comparing
                    m = "precondition-violated " + m
                m4 = " ".join(m.split(" ")[:4]) if m != "E" else "E"
                if m4 != e:
                    nbroken[0] += 1
                    if nbroken[0] <= 5:
                        ctx.broken("correspondence:extracted-spec-vs-array", "step %d of %s: extracted model/spec say %r, array semantics say %r" % (k, h[:k + 1], m, e))
                    break
        k = first_diff(exp, got)
        if k is not None:
            reported += 1
            if reported <= 12:
                hm = shrink(ctx, d, h, k) if reported <= 4 else h[:k + 1]
                sp2 = Spec()
                e2 = [sp2.step(o) for o in hm]
                g2 = parse_fields(run_histories(ctx, d, [hm])[0])
                txt = "(c12-run '(%s))" % " ".join(scm_op(o) for o in hm)
                ctx.violation(hist_sig(h, k), input=txt, step=len(hm) - 1, expected=e2[-1],
                              observed=(g2[len(hm) - 1] if g2 and len(g2) >= len(hm) else str(res[n])[:300]),
                              replay="./check C12 --replay <this file>   # or: chibi-scheme with vlib/scm.py PRELUDE + harness/c12_hist.scm, then " + txt)
    if core:
        ctx.sample(dict(kind="outer-core", history=" ".join(scm_op(o) for o in core[0]), impl=res[0], model_and_spec=mo[0]))
    ctx.sample(dict(kind="outer-wide", history=" ".join(scm_op(o) for o in wide[-1]), impl=res[-1]))


def check_sweep(ctx, d):
    """char -> string -> utf8 -> string -> char, bytes against the arithmetic definition of UTF-8"""
    if ctx.thorough:
        ranges = [(lo, min(lo + 0x8000, 0x110000), 1) for lo in range(0, 0x110000, 0x8000)]
    else:
        ranges = [(1, 0x900, 1), (0xD700, 0xE100, 1), (0xFF00, 0x10100, 1), (0x10FF00, 0x110000, 1), (0x900, 0x110000, 257)]
    exprs = ["(c12-sweep %d %d %d)" % r for r in ranges]
    prelude = open(os.path.join(HARNESS, "c12_hist.scm")).read()
    res = scm.run_cases(d, exprs, prelude_extra=prelude, imports=IMPORTS)
    for r, e, o in zip(ranges, exprs, res):
        n = len(range(*r))
        ctx.count(n, key=e, nontrivial=True)
        if o is None or o.strip('"') != "= _":
            bad = unhx(o.strip('"')[2:]) if o and o.strip('"').startswith("= ") else []
            c = bad[0] if bad else r[0]
            ctx.violation("roundtrip:width-%d" % (width(c) if is_scalar(c) else 0), input=e, expected="no failing code point",
                          observed=o, replay="chibi-scheme with harness/c12_hist.scm: (c12-sweep %d %d 1)" % (c, c + 1))



# ------------------------------------------------------------------------------------------ ports (round 2)
PORT_BUF, BUF_START = 4096, 4
PORT_KINDS_BIG = ["fd", "fd", "fd", "file", "bytevector", "string"]


def filler(rng, nbytes, newline_every):
    """characters occupying exactly nbytes bytes: mostly ASCII, some 2/3/4-byte scalars, a line end (LF or CRLF) now and then"""
    cs, left, since = [], nbytes, 0
    while left > 0:
        if since > newline_every and left >= 2:
            if rng.random() < 0.3:
                cs += [0x0D, 0x0A]; left -= 2
            else:
                cs.append(0x0A); left -= 1
            since = 0
            continue
        c = rng.randrange(0x20, 0x7F) if rng.random() < 0.8 else rand_cp(rng)
        if c in (0x0A, 0x0D) or width(c) > left:
            c = rng.randrange(0x20, 0x7F)
        cs.append(c); left -= width(c); since += width(c)
    return cs


def stream_with_targets(rng, targets, tail):
    """targets: sorted (byte offset, code point): the code point's first byte lands on that offset"""
    cs, n = [], 0
    for off, c in targets:
        if off < n:
            continue
        cs += filler(rng, off - n, rng.choice([300, 900, 2500]))
        cs.append(c)
        n = off + width(c)
    return cs + filler(rng, tail, 200)


class PortSpec:
    """the SPEC: the port is the list of scalar values the bytes denote; every operation consumes a prefix"""
    def __init__(self, cs):
        self.cs, self.pos = cs, 0

    def step(self, op):
        cs, pos = self.cs, self.pos
        if op == "r":
            if pos >= len(cs): return "eof"
            self.pos += 1
            return "c%x" % cs[pos]
        if op == "p":
            return "eof" if pos >= len(cs) else "c%x" % cs[pos]
        if op == "c":
            return "T" if pos < len(cs) else None          # at end of file R7RS allows either answer
        if op == "l":
            if pos >= len(cs): return "eof"
            j = pos
            while j < len(cs) and cs[j] != 0x0A:
                j += 1
            line = cs[pos:j]
            if j < len(cs) and line and line[-1] == 0x0D:
                line = line[:-1]
            self.pos = min(j + 1, len(cs))
            return "l:" + hx(line)
        if op == "d":
            self.pos = len(cs)
            return "d:" + hx(cs[pos:])
        if op[0] == "s":
            k = op[1]
            if k == 0: return "s:_"
            if pos >= len(cs): return "eof"
            self.pos = min(len(cs), pos + k)
            return "s:" + hx(cs[pos:pos + k])
        raise ValueError(op)


def gen_port_ops(rng, cs, hot, allow_u):
    """ops over the stream: bulk operations far from the refill boundaries, character-level mixes of peek-char /
    read-char / char-ready? / read-u8 / short read-string near them; returns (ops, expected fields)"""
    offs = [0]
    for c in cs:
        offs.append(offs[-1] + width(c))
    hot = sorted(hot)
    sp, ops, exp = PortSpec(cs), [], []

    def emit(op):
        if op == "u":       # read-u8 for every byte of the next character (stays on a character boundary)
            if sp.pos >= len(cs):
                ops.append("u"); exp.append("eof")
                return
            for b in utf8([cs[sp.pos]]):
                ops.append("u"); exp.append("u%x" % b)
            sp.pos += 1
            return
        ops.append(op); exp.append(sp.step(op))

    while sp.pos < len(cs) and len(ops) < 6000:
        here = offs[sp.pos]
        ahead = [b for b in hot if b + 8 >= here]
        dist = min([abs(b - here) for b in hot] + [10 ** 9])
        if dist > 24:
            goal = (ahead[0] - rng.randrange(4, 20)) if ahead else offs[-1]
            k = 0
            while sp.pos + k < len(cs) and offs[sp.pos + k] < goal:
                k += 1
            k = max(1, k)
            r = rng.random()
            if not ahead and r < 0.4:
                emit("d")
            elif r < 0.55:
                emit(("s", k))
            elif r < 0.8:
                emit("l")
            else:
                for _ in range(min(k, rng.choice([1, 3, 30]))):
                    emit(rng.choice(["r", "r", "p"]))
        else:
            r = rng.random()
            if r < 0.40: emit("p"); emit("r")
            elif r < 0.55: emit("r")
            elif r < 0.65: emit("p"); emit("p"); emit("r")
            elif r < 0.72: emit("c"); emit("p"); emit("r")
            elif r < 0.80: emit(("s", rng.choice([1, 2, 3])))
            elif r < 0.88 and allow_u: emit("u")
            elif r < 0.90: emit("l")
            else: emit("p"); emit(("s", 1))
    for op in ("p", "r", "c", "d", "r"):
        emit(op)
    return ops, exp


def port_op_scm(op):
    return op if isinstance(op, str) else "(s %d)" % op[1]


def port_op_model(op):
    return op if isinstance(op, str) else "s%x" % op[1]


def gen_port_cases(ctx, n_big, n_custom):
    rng = ctx.rng
    cases = []          # (kind, cs, sched, hot, ops, exp)
    MB = [c for w in (2, 3, 4) for c in BY_WIDTH[w]]
    # (1) real buffer boundaries: fd ports refill 4092 bytes at a time (boundaries at multiples of 4092); FILE* /
    #     other layers at multiples of 4096.  A multi-byte character starts k bytes before the boundary, k = 0..width.
    big = []
    for base in (PORT_BUF - BUF_START, PORT_BUF):
        for w in (2, 3, 4):
            for k in range(0, w + 1):
                big.append((base, w, k))
    rng.shuffle(big)
    systematic = [(PORT_BUF - BUF_START, w, k) for w in (2, 3, 4) for k in range(1, w)]     # the straddling ones on the fd arm first
    # ... then on FILE* ports: the character straddles stdio's own 4096-byte buffer, peek-char pushes up to 4 bytes back with ungetc
    systematic_file = [(PORT_BUF, w, k) for w in (2, 3, 4) for k in range(1, w)]
    plan = systematic + systematic_file + big
    for n in range(n_big):
        base, w, k = plan[n % len(plan)]
        kind = "fd" if n < len(systematic) else "file" if n < len(systematic) + len(systematic_file) else rng.choice(PORT_KINDS_BIG)
        c1 = rng.choice(BY_WIDTH[w])
        w2 = rng.choice([2, 3, 4])
        c2 = rng.choice(BY_WIDTH[w2])
        k2 = rng.randrange(0, w2 + 1)
        targets = [(base - k, c1), (2 * base - k2, c2)]
        # neighbours of the straddling character are multi-byte too, now and then
        if rng.random() < 0.5:
            c0 = rng.choice(MB)
            targets.insert(0, (base - k - width(c0), c0))
        cs = stream_with_targets(rng, sorted(targets), rng.choice([3, 40, 700]))
        hot = [base, 2 * base]
        ops, exp = gen_port_ops(rng, cs, hot, kind != "string")
        cases.append((kind, cs, [], hot, ops, exp))
    # (2) custom ports: the reader delivers the bytes in chunks of 1..6, so every character of a short stream is cut
    #     by refill boundaries in every possible way
    for n in range(n_custom):
        cs = [rand_cp(rng) if rng.random() < 0.7 else rng.choice([0x0A, 0x20, 0x41]) for _ in range(rng.choice([1, 2, 4, 8, 16, 40]))]
        cs = [c for c in cs if c != 0x0D]
        nb = len(utf8(cs))
        sched = []
        while sum(sched) < nb and len(sched) < 64:
            sched.append(rng.choice([1, 1, 2, 3, 4, 5, 6]) if rng.random() < 0.9 else rng.randrange(7, 30))
        hot, acc = [], 0
        for x in sched:
            acc += x
            hot.append(acc)
        ops, exp = gen_port_ops(rng, cs, hot, True)
        cases.append(("custom", cs, sched, hot, ops, exp))
    return cases


def port_where(cs, hot, ops, k):
    """does the character the failing op looks at straddle / touch a refill boundary?"""
    sp = PortSpec(cs)
    for op in ops[:k]:
        if op == "u":
            continue
        sp.step(op)
    offs = [0]
    for c in cs:
        offs.append(offs[-1] + width(c))
    if sp.pos < len(cs):
        a, b = offs[sp.pos], offs[sp.pos + 1]
        if any(a < h < b for h in hot):
            return "straddles-refill"
        if any(abs(h - a) <= 4 for h in hot):
            return "near-refill"
    return "plain"


def check_ports(ctx, exe, d, n_big, n_custom, n_write):
    pdir = os.path.join(B.SCRATCH, "c12-ports-%d" % os.getpid())
    os.makedirs(pdir, exist_ok=True)
    cases = gen_port_cases(ctx, n_big, n_custom)
    prelude = open(os.path.join(HARNESS, "c12_hist.scm")).read()
    exprs, mlines = [], []
    for n, (kind, cs, sched, hot, ops, exp) in enumerate(cases):
        path = os.path.join(pdir, "in-%d.bin" % n)
        with open(path, "wb") as fh:
            fh.write(bytes(utf8(cs)))
        exprs.append("(c12-port-run '%s \"%s\" '(%s) '(%s))" % (kind, path, " ".join(map(str, sched)), " ".join(port_op_scm(o) for o in ops)))
        mk = "f" if kind in ("fd", "custom") else "F" if (kind == "file" and "l" not in ops) else "s"     # FILE* read-line is fgets-based: not modelled
        mlines.append("port %s %x %s %s %s" % (mk, PORT_BUF, hx(utf8(cs)), hx(sched),
                                               ",".join(port_op_model(o) for o in ops)))
    # the extracted model walks unary offsets: ~1-3 s per 8 KB stream, so only a subset of the big streams goes through it
    # (all of the small custom-port ones do); the SPEC judges every case
    n_model_big = 6 if not ctx.thorough else 100
    with_model = [n for n, c in enumerate(cases) if c[0] == "custom" or len(c[1]) < 200][:]
    with_model = sorted(set(with_model) | set([n for n, c in enumerate(cases) if c[0] != "custom"][:n_model_big]))
    mo_sub = ctx.run_model(exe, [mlines[n] for n in with_model])
    mo = [None] * len(cases)
    for n, m in zip(with_model, mo_sub):
        mo[n] = m
    res = scm.run_cases(d, exprs, prelude_extra=prelude, imports=IMPORTS, chunk=(24 if not ctx.thorough else 100), timeout=(120 if not ctx.thorough else 400))
    reported, nb = {}, 0
    for n, (kind, cs, sched, hot, ops, exp) in enumerate(cases):
        got = parse_fields(res[n]) if res[n] and not res[n].startswith(("TIMEOUT", "CRASH", "ERR")) else None
        nontriv = any(c >= 0x80 for c in cs)
        ctx.count(1, key=("port", kind, tuple(cs), tuple(sched), tuple(ops)), nontrivial=nontriv)
        ctx.cov["traces_validated_against_impl"] += 1
        mf = mo[n].split(" | ") if mo[n] is not None else None
        bad = None
        if got is None:
            bad = 0
        else:
            for k, e in enumerate(exp):
                if k >= len(got) or (e is not None and got[k] != e) or (e is None and got[k] not in ("T", "F")):
                    bad = k
                    break
        # the extracted model must agree with the SPEC on every field (three-way)
        for k, e in enumerate(exp if mf is not None else []):
            if e is not None and (k >= len(mf) or mf[k] != e):
                nb += 1
                if nb <= 5:
                    ctx.broken("correspondence:port-model-vs-spec", "%s op %d (%s): model %r, SPEC %r" % (mlines[n][:200], k, ops[k], mf[k] if k < len(mf) else None, e))
                break
        if bad is not None:
            reported[kind] = reported.get(kind, 0) + 1
            if reported[kind] > 6:
                continue
            cut = ops[:bad + 1]
            txt = "(c12-port-run/bytes '%s \"%s\" '(%s) '(%s) '(%s))" % (kind, os.path.join(B.SCRATCH, "c12-port-replay.bin"), " ".join(map(str, utf8(cs))),
                                                                         " ".join(map(str, sched)), " ".join(port_op_scm(o) for o in cut))
            opn = ops[bad] if isinstance(ops[bad], str) else "s"
            name = {"r": "read-char", "p": "peek-char", "c": "char-ready?", "u": "read-u8", "l": "read-line", "d": "read-char", "s": "read-string"}[opn]
            if got is None:
                ctx.violation("crash-or-hang:port:%s" % kind, input=txt, expected=" | ".join(str(e) for e in exp[:6]), observed=str(res[n])[:300],
                              replay="./check C12 --replay <this file>")
            else:
                ctx.violation("port:%s:%s:%s" % (kind, name, port_where(cs, hot, ops, bad)), input=txt, step=bad, expected=exp[bad],
                              observed=(got[bad] if bad < len(got) else "missing"), model=(mf[bad] if mf and bad < len(mf) else None),
                              replay="./check C12 --replay <this file>   # or: chibi-scheme with vlib/scm.py PRELUDE + harness/c12_hist.scm, then " + txt[:200] + " ...")
    if cases:
        ctx.sample(dict(kind="port", request=exprs[0][:300], impl=str(res[0])[:300], model=str(mo[0])[:300]))
    # write-char: the bytes that reach get-output-string / the file are the standard encoding; multi-byte characters cut by
    # the 4096-byte output buffer in every way
    wcases = []
    for n in range(n_write):
        w = ctx.rng.choice([2, 3, 4])
        k = ctx.rng.randrange(0, w + 1)
        m = ctx.rng.choice([1, 1, 2])
        pre = filler(ctx.rng, m * PORT_BUF - k - ctx.rng.choice([0, 0, 1]), 10 ** 9)
        cs = pre + [ctx.rng.choice(BY_WIDTH[w])] + [rand_cp(ctx.rng) for _ in range(ctx.rng.choice([0, 1, 5]))]
        wcases.append((ctx.rng.choice(["string", "string", "file", "fd"]), cs))
    wexprs = ["(c12-write-run '%s \"%s\" '(%s))" % (kind, os.path.join(pdir, "out-%d.bin" % n), " ".join(map(str, cs))) for n, (kind, cs) in enumerate(wcases)]
    n_wm = 6 if not ctx.thorough else 60
    wmo = ctx.run_model(exe, ["wport %x %s" % (PORT_BUF, hx(cs)) for kind, cs in wcases[:n_wm]]) + [None] * max(0, len(wcases) - n_wm)
    wres = scm.run_cases(d, wexprs, prelude_extra=prelude, imports=IMPORTS, chunk=20, timeout=60)
    for (kind, cs), e, m, r in zip(wcases, wexprs, wmo, wres):
        exp = hx(utf8(cs))
        ctx.count(1, key=("wport", kind, tuple(cs)), nontrivial=True)
        ctx.cov["traces_validated_against_impl"] += 1
        got = (r or "").strip('"')
        if m is not None and m.split(" ")[:2] != ["OK", exp]:
            ctx.broken("correspondence:wport-model-vs-spec", "write-char model differs from the standard encoding on %s" % e[:200])
        if got != exp:
            gl, el = unhx(got) if got and not got.startswith(("ERR", "CRASH", "TIMEOUT")) else [], unhx(exp)
            k = next((i for i in range(min(len(gl), len(el))) if gl[i] != el[i]), min(len(gl), len(el)))
            ctx.violation("port:%s:write-char" % kind, input=e, expected="bytes %s… (first difference at byte %d: %s)" % (exp[:60], k, hx(el[k:k + 4])),
                          observed="%s" % (hx(gl[k:k + 4]) if gl else str(r)[:200]), replay="chibi-scheme with harness/c12_hist.scm: " + e[:300])
    try:
        import shutil
        shutil.rmtree(pdir)
    except OSError:
        pass


# ------------------------------------------------------------------------------------------ ill-formed input on ports (round 4)
class RawPort:
    """reference semantics of character input on a RAW byte stream (well-formed except at one chosen spot): the two specified
    error outcomes -- a byte 0x80..0xBF / 0xF8..0xFF where a character should start: error, that byte consumed; a sequence cut off by
    end of input: error, the cut bytes consumed -- and the standard decoding everywhere else"""
    def __init__(self, bs):
        self.b, self.pos = bs, 0

    def _next(self, consume):
        b, pos, n = self.b, self.pos, len(self.b)
        if pos >= n:
            return "eof"
        x = b[pos]
        if x < 0x80:
            if consume: self.pos += 1
            return x
        if x < 0xC0 or x > 0xF7:
            self.pos += 1
            return "E"
        need = 1 if x < 0xE0 else 2 if x < 0xF0 else 3
        if pos + need >= n:
            self.pos = n
            return "E"
        c = ord(bytes(b[pos:pos + need + 1]).decode("utf-8"))
        if consume: self.pos += need + 1
        return c

    def step(self, op):
        if op in ("r", "p"):
            x = self._next(op == "r")
            return x if x in ("eof", "E") else "c%x" % x
        if op == "u":
            if self.pos >= len(self.b): return "eof"
            self.pos += 1
            return "u%x" % self.b[self.pos - 1]
        if op == "d":
            acc = []
            while True:
                x = self._next(True)
                if x == "eof": return "d:" + hx(acc)
                if x == "E": return "E"
                acc.append(x)
        if op == "l":
            acc, i = [], 0
            while True:
                x = self._next(False)
                if x == "E": return "E"
                if x == "eof": return ("l:" + hx(acc)) if acc else "eof"
                if x == 0x0A:
                    self._next(True)
                    return "l:" + hx(acc)
                if x == 0x0D:
                    self._next(True)
                    y = self._next(False)
                    if y == "E": return "E"
                    if y == 0x0A: self._next(True)
                    return "l:" + hx(acc)
                if i >= 8192: return "l:" + hx(acc)
                self._next(True)
                acc.append(x); i += 1
        if op[0] == "s":
            k, acc = op[1], []
            if k == 0: return "s:_"
            while len(acc) < k:
                x = self._next(False)
                if x == "E": return "E"
                if x == "eof": break
                self._next(True)
                acc.append(x)
            return ("s:" + hx(acc)) if acc else "eof"
        raise ValueError(op)


def gen_illformed_cases(ctx, n_big):
    """-> (kind, raw bytes, sched, ops, class): streams ending inside a 2/3/4-byte character at EVERY cut point, and invalid lead bytes
    0x80..0xBF / 0xF8..0xFF, for read-char / peek-char / read-string / read-line on fd, bytevector, string, custom and FILE* ports; short
    streams (custom ports refill inside and around the bad spot in every way) and big ones whose bad spot lies on the 4092 / 4096 buffer boundary"""
    rng = ctx.rng
    cases = []
    spots = [("truncated-w%d-k%d" % (w, k), w, k) for w in (2, 3, 4) for k in range(1, w)]
    INV = [0x80, 0xBF, 0xF8, 0xFF]

    def one(kind, prefix_cs, spot, op, sched_mode, tail_cs=None):
        pre = utf8(prefix_cs)
        if spot[0].startswith("truncated"):
            _, w, k = spot
            bad = utf8([rng.choice(BY_WIDTH[w])])[:k]
            raw = pre + bad
        else:
            raw = pre + [spot[1]] + utf8(tail_cs)
        m = rng.choice([0, 0, 1, 2]) if len(prefix_cs) >= 2 else 0        # characters of the prefix left for the operation under test
        ops = []
        if len(prefix_cs) - m > 0:
            ops.append(("s", len(prefix_cs) - m))
        if op == "s":
            ops.append(("s", m + rng.choice([1, 1, 2, 5])))
        elif op in ("r", "p"):
            ops += ["r"] * m + [op]
        else:
            ops.append(op)
        ops += ["p", "r", "p", "d", "r"]
        if sched_mode == "fine":
            sched, left = [], len(raw)
            while left > 0:
                x = rng.choice([1, 1, 1, 2, 3]); sched.append(x); left -= x
        else:
            sched = []
        cases.append((kind, raw, sched, ops, spot[0]))

    for kind in ("fd", "bytevector", "string", "custom", "custom", "file"):
        for spot in spots + [("invalid-lead-%s" % ("80-bf" if b < 0xC0 else "f8-ff"), b) for b in INV]:
            for op in ("r", "p", "s", "l"):
                if kind == "file" and op == "l":
                    continue        # read-line on FILE* ports is fgets-based (%%read-line): the bytes are not decoded there
                prefix = [c for c in [rand_cp(rng) for _ in range(rng.choice([0, 1, 2, 3, 5]))] if c not in (0x0A, 0x0D)]
                tail = [c for c in [rand_cp(rng) for _ in range(rng.choice([1, 2, 3]))] if c not in (0x0A, 0x0D)] or [0x3BB]
                one(kind, prefix, spot, op, "fine" if kind == "custom" else "", tail)
    # big: the bad spot straddles / touches the refill boundary of the real 4096-byte buffers
    for n in range(n_big):
        kind = rng.choice(["fd", "fd", "file", "custom"])
        base = {"fd": PORT_BUF - BUF_START, "file": PORT_BUF, "custom": PORT_BUF - BUF_START}[kind]
        spot = rng.choice(spots) if n % 2 == 0 else ("invalid-lead-%s" % rng.choice(["80-bf", "f8-ff"]), 0)
        if not spot[0].startswith("truncated"):
            spot = (spot[0], rng.choice([0x80, 0xA9, 0xBF]) if spot[0].endswith("80-bf") else rng.choice([0xF8, 0xFB, 0xFF]))
        j = rng.randrange(0, 4)                      # the bad element starts j bytes before the boundary
        prefix = [c for c in filler(rng, base - j, 10 ** 9)]
        tail = [rng.choice(BY_WIDTH[rng.choice([1, 2, 3, 4])]), 0x41]
        op = rng.choice(["r", "p", "s"] + ([] if kind == "file" else ["l"]))
        one(kind, prefix, spot, op, "", tail)
        cases[-1] = cases[-1][:4] + (cases[-1][4] + ":at-refill",)
    return cases


def check_illformed_ports(ctx, exe, d, n_big):
    pdir = os.path.join(B.SCRATCH, "c12-badports-%d" % os.getpid())
    os.makedirs(pdir, exist_ok=True)
    cases = gen_illformed_cases(ctx, n_big)
    prelude = open(os.path.join(HARNESS, "c12_hist.scm")).read()
    exprs, mlines, exps = [], [], []
    for n, (kind, raw, sched, ops, cls) in enumerate(cases):
        path = os.path.join(pdir, "bad-%d.bin" % n)
        with open(path, "wb") as fh:
            fh.write(bytes(raw))
        exprs.append("(c12-port-run '%s \"%s\" '(%s) '(%s))" % (kind, path, " ".join(map(str, sched)), " ".join(port_op_scm(o) for o in ops)))
        mk = {"fd": "f", "custom": "f", "file": "F"}.get(kind, "s")
        mlines.append("port %s %x %s %s %s" % (mk, PORT_BUF, hx(raw), hx(sched), ",".join(port_op_model(o) for o in ops)))
        sp = RawPort(raw)
        exps.append([sp.step(o) for o in ops])
    small = [n for n, c in enumerate(cases) if len(c[1]) < 200]
    bigm = [n for n, c in enumerate(cases) if len(c[1]) >= 200][:(4 if not ctx.thorough else 60)]
    with_model = sorted(small + bigm)
    mo = dict(zip(with_model, ctx.run_model(exe, [mlines[n] for n in with_model])))
    res = scm.run_cases(d, exprs, prelude_extra=prelude, imports=IMPORTS, chunk=60, timeout=150)
    reported, nb = {}, 0
    for n, (kind, raw, sched, ops, cls) in enumerate(cases):
        exp = exps[n]
        got = parse_fields(res[n]) if res[n] and not res[n].startswith(("TIMEOUT", "CRASH", "ERR")) else None
        ctx.count(1, key=("badport", kind, tuple(raw[-12:]), len(raw), tuple(sched), tuple(ops)), nontrivial=True)
        ctx.cov["traces_validated_against_impl"] += 1
        mf = mo[n].split(" | ") if n in mo and mo[n] is not None else None
        if mf is not None and mf != exp:
            nb += 1
            if nb <= 5:
                k = next((i for i in range(len(exp)) if i >= len(mf) or mf[i] != exp[i]), 0)
                ctx.broken("correspondence:port-model-vs-spec:ill-formed", "%s op %d (%s): model %r, SPEC %r" % (mlines[n][-200:], k, ops[k], mf[k] if k < len(mf) else None, exp[k]))
        bad = None
        if got is None:
            bad = 0
        else:
            bad = next((k for k, e in enumerate(exp) if k >= len(got) or got[k] != e), None)
        if bad is None:
            continue
        opn = ops[bad] if isinstance(ops[bad], str) else "s"
        name = {"r": "read-char", "p": "peek-char", "l": "read-line", "d": "read-char", "s": "read-string"}[opn]
        sig = ("crash-or-hang:port:%s:ill-formed" % kind) if got is None else "port:%s:%s:%s" % (kind, name, cls)
        reported[sig] = reported.get(sig, 0) + 1
        if reported[sig] > 2 or len(reported) > 40:
            continue
        txt = "(c12-port-run/bytes '%s \"%s\" '(%s) '(%s) '(%s))" % (kind, os.path.join(B.SCRATCH, "c12-port-replay.bin"), " ".join(map(str, raw)),
                                                                     " ".join(map(str, sched)), " ".join(port_op_scm(o) for o in ops[:bad + 1]))
        ctx.violation(sig, input=txt if len(txt) < 3000 else "... " + txt[-3000:], step=bad, expected=exp[bad] if got is not None else " | ".join(exp[:6]),
                      observed=(got[bad] if got is not None and bad < len(got) else str(res[n])[:300]), model=(mf[bad] if mf and bad < len(mf) else None),
                      replay="./check C12 --replay <this file>   # or: chibi-scheme with vlib/scm.py PRELUDE + harness/c12_hist.scm, then the input expression")
    if cases:
        ctx.sample(dict(kind="port-ill-formed", request=exprs[0][:300], impl=str(res[0])[:300], model=str(mo.get(0))[:300], spec=" | ".join(exps[0])))
    try:
        import shutil
        shutil.rmtree(pdir)
    except OSError:
        pass


# ------------------------------------------------------------------------------------------ optional range arguments (round 3)
def sobs(cs):
    return "%s %s %x" % (hx(cs), hx(utf8(cs)), len(cs))


def range_strings(rng, n):
    """strings whose characters before, at and after every possible range boundary are multi-byte (all widths), plus mixed,
    ASCII-then-multi-byte, multi-byte-then-ASCII and (control) pure ASCII ones"""
    MB = [c for w in (2, 3, 4) for c in BY_WIDTH[w]]
    out = []
    for k in range(n):
        L = rng.choice([3, 4, 5, 6, 8])
        pat = ["mb", "mb", "mixed", "ascii-mb", "mb-ascii", "mb", "mixed", "ascii"][k % 8]
        if pat == "mb":
            cs = [rng.choice(BY_WIDTH[rng.choice([2, 3, 4])]) if rng.random() < 0.6 else rand_cp(rng) for _ in range(L)]
            cs = [c if c >= 0x80 else rng.choice(MB) for c in cs]
        elif pat == "mixed":
            cs = [rand_cp(rng) for _ in range(L)]
        elif pat == "ascii-mb":
            h = rng.randrange(1, L)
            cs = [rng.randrange(0x21, 0x7F) for _ in range(h)] + [rng.choice(MB) for _ in range(L - h)]
        elif pat == "mb-ascii":
            h = rng.randrange(1, L)
            cs = [rng.choice(MB) for _ in range(h)] + [rng.randrange(0x21, 0x7F) for _ in range(L - h)]
        else:
            cs = [rng.randrange(0x21, 0x7F) for _ in range(L)]
        out.append([c for c in cs if c not in (0x22, 0x5C)] or [0x3BB, 0x41, 0x20AC])
    return out


def ranges_of(rng, L):
    """{start omitted, 0, 1, middle, len} x {end omitted, start, middle, len}"""
    mid = rng.randrange(2, L) if L >= 3 else min(1, L)
    out = [()]
    for a in (0, 1, mid, L):
        if a > L:
            continue
        for e in (None, a, rng.randrange(a, L + 1), L):
            out.append((a,) if e is None else (a, e))
    seen, res = set(), []
    for r in out:
        if r not in seen:
            seen.add(r)
            res.append(r)
    return res


def range_class(L, r):
    def cl(x, first):
        if x == 0: return "0"
        if x == L: return "len"
        if x == 1: return "1"
        return "mid"
    if not r:
        return "start-omitted"
    return "start-%s:end-%s" % (cl(r[0], True), "omitted" if len(r) < 2 else ("start" if r[1] == r[0] else cl(r[1], False)))


def str_spec(rng, cs, mutable=False):
    """scheme text of a string argument for the range harness"""
    kinds = ["list", "shared", "copy"] + ([] if mutable else ["lit"])
    k = rng.choice(kinds)
    if k == "lit":
        return scm_string(cs)
    return "(%s %s)" % (k, " ".join(map(str, cs)))


def sl(l):
    return "(" + " ".join(str(x) for x in l) + ")"


RANGE_NAMES = {"ws": "write-string", "wo": "%write-string", "di": "display", "sc": "string-copy", "ss": "substring", "sl": "string->list",
               "sv": "string->vector", "vs": "vector->string", "su": "string->utf8", "us": "utf8->string", "sf": "string-fill!",
               "sy": "string-copy!", "sm": "string-map", "se": "string-for-each", "rs": "read-string", "rb": "read-string!",
               "cu": "substring-cursor", "cc": "string-copy/cursors", "cl": "string->list/cursors",
               "ix": "string-index", "rx": "string-index-right", "ct": "string-count", "fo": "string-fold", "fc": "string-for-each-cursor",
               "tk": "string-take/drop", "cm": "string-comparison", "ci": "string-ci", "cf": "char-foldcase"}
EURO = [0xE2, 0x82, 0xAC]
RANGE_MODEL = True
SIMPLE_NEWER = {0x1FD3: 0x390, 0x1FE3: 0x3B0, 0xFB05: 0xFB06}      # simple case foldings newer than python's Unicode data: either answer


def gen_range_cases(ctx, n_strings, n_big):
    """-> list of (op, scheme case text, expected field, signature suffix, nontrivial, model request or None)"""
    rng = ctx.rng
    cases = []

    def add(op, text, exp, cls, cs, model=None):
        cases.append((op, text, exp, cls, any(c >= 0x80 for c in cs), model))

    for cs in range_strings(rng, n_strings):
        L = len(cs)
        b = utf8(cs)
        for r in ranges_of(rng, L):
            a = r[0] if len(r) > 0 else 0
            e = r[1] if len(r) > 1 else L
            cl = range_class(L, r)
            sub = cs[a:e]
            # write-string on a string port, a file-descriptor port and a FILE* port: the bytes that arrive
            for pk in ("string", "fd", "file"):
                pre = [rng.choice([0x3BB, 0x41, 0x1F600])] * rng.choice([0, 1, 2])
                sp = str_spec(rng, cs)
                add("ws", "(ws %s %s %s %s)" % (pk, sp, sl(r), sl(pre)), "b:" + hx(utf8(pre) + utf8(sub) + EURO), cl + ":" + pk, cs,
                    model=("wrange %x %s %s %s %s" % (PORT_BUF, hx(utf8(pre)), hx(cs), zhex(a) if r else "_", zhex(e) if len(r) > 1 else "_")) if pk == "string" else None)
            for op in ("sc", "ss", "cu", "cc"):
                if op in ("ss", "cu") and not r:
                    continue
                add(op, "(%s %s %s)" % (op, str_spec(rng, cs), sl(r)), sobs(sub), cl, cs)
            for op in ("sl", "sv", "cl"):
                add(op, "(%s %s %s)" % (op, str_spec(rng, cs), sl(r)), hx(sub), cl, cs)
            add("vs", "(vs (list %s) %s)" % (" ".join(map(str, cs)), sl(r)), sobs(sub), cl, cs)
            add("su", "(su %s %s)" % (str_spec(rng, cs), sl(r)), hx(utf8(sub)), cl, cs)
            # utf8->string takes BYTE offsets: the offsets of the characters a and e inside a bytevector with garbage around
            pre = [rng.randrange(256) for _ in range(rng.choice([1, 2, 3]))] if r else []
            post = [rng.randrange(256) for _ in range(rng.choice([1, 2]))] if len(r) > 1 else []
            br = tuple([len(pre) + len(utf8(cs[:a]))] + ([len(pre) + len(utf8(cs[:e]))] if len(r) > 1 else [])) if r else ()
            add("us", "(us %s %s %s %s)" % (sl(pre), sl(cs), sl(post), sl(br)), sobs(sub), cl, cs)
            c = rand_cp(rng)
            add("sf", "(sf %s %d %s)" % (str_spec(rng, cs, True), c, sl(r)), sobs(cs[:a] + [c] * (e - a) + cs[e:]), cl, cs + [c],
                model="rfill %s %x %s %s" % (hx(cs), c, zhex(a) if r else "_", zhex(e) if len(r) > 1 else "_"))
            # string-copy!: another target, and the string itself (overlapping, both directions)
            n = e - a
            T = [rand_cp(rng) for _ in range(n + rng.choice([0, 1, 3]))]
            at = rng.randrange(0, len(T) - n + 1)
            add("sy", "(sy %s %d %s %s)" % (str_spec(rng, T, True), at, str_spec(rng, cs), sl(r)), sobs(T[:at] + sub + T[at + n:]), cl + ":other", cs + T,
                model="rcopy %s %x %s %s %s" % (hx(T), at, hx(cs), zhex(a) if r else "_", zhex(e) if len(r) > 1 else "_"))
            at = rng.randrange(0, L - n + 1)
            add("sy", "(sy %s %d #t %s)" % (str_spec(rng, cs, True), at, sl(r)), sobs(cs[:at] + sub + cs[at + n:]),
                cl + (":overlap-left" if at <= a else ":overlap-right"), cs,
                model="rcopy = %x %s %s %s" % (at, hx(cs), zhex(a) if r else "_", zhex(e) if len(r) > 1 else "_"))
            for curs in (0, 1):
                for pred in ("hi", "lo", rng.choice(cs)):
                    hit = (lambda c: c > 127) if pred == "hi" else (lambda c: c < 128) if pred == "lo" else (lambda c, p=pred: c == p)
                    idx = [i for i in range(a, e) if hit(cs[i])]
                    tail = "%s %s %s %s" % (str_spec(rng, cs), pred, sl(r), "#t" if curs else "#f")
                    cc = cl + (":cursors" if curs else ":indices")
                    add("ix", "(ix %s)" % tail, "%x" % (idx[0] if idx else e), cc, cs)
                    add("rx", "(rx %s)" % tail, "%x" % (idx[-1] + 1 if idx else a), cc, cs)
                    if pred == "hi":
                        add("ct", "(ct %s)" % tail, "%x" % len(idx), cc, cs)
                        add("fo", "(fo %s)" % tail, hx(sub), cc, cs)
                        add("fc", "(fc %s)" % tail, hx(sub), cc, cs)
        # the opcode itself: every BYTE count 0..size (most of them not on a character boundary), #t, and the two just outside
        for pk in ("string", "fd"):
            for cnt in list(range(0, len(b) + 1)) + ["#t", -1, len(b) + 1]:
                if cnt == "#t":
                    exp = "b:" + hx([0xCE, 0xBB] + b + EURO)
                elif cnt < 0 or cnt > len(b):
                    exp = "E"
                else:
                    exp = "b:" + hx([0xCE, 0xBB] + b[:cnt] + EURO)
                add("wo", "(wo %s %s %s)" % (pk, str_spec(rng, cs), cnt), exp, "count-" + ("all" if cnt == "#t" else "outside" if exp == "E" else
                    "char-boundary" if cnt in [len(utf8(cs[:k])) for k in range(L + 1)] else "inside-char") + ":" + pk, cs,
                    model=("wstr %x ce,bb %s %s" % (PORT_BUF, hx(cs), "_" if cnt == "#t" else zhex(cnt))) if pk == "string" else None)
        for pk in ("string", "fd", "file"):
            add("di", "(di %s %s)" % (pk, str_spec(rng, cs)), "b:" + hx([0xCE, 0xBB] + b + b + EURO), pk, cs)
        add("ws", "(ws cur %s () ())" % str_spec(rng, cs), "b:" + hx(b + EURO), "port-omitted", cs)
        # several strings of different lengths: the shortest decides
        for k in (2, 3):
            ls = [cs] + [[rand_cp(rng) for _ in range(rng.choice([L, L - 1, L + 2, 1, 0]))] for _ in range(k - 1)]
            rng.shuffle(ls)
            cols = list(zip(*ls))
            args = " ".join(str_spec(rng, x) for x in ls)
            if all(is_scalar(max(col)) for col in cols):
                add("sm", "(sm %s)" % args, sobs([max(col) for col in cols]), "n%d" % k, cs,
                    model="smapn %x %s" % (rng.choice([1, 3, 7, PORT_BUF]), ";".join(hx(x) for x in ls)))
            add("se", "(se %s)" % args, hx([sum(col) for col in cols]), "n%d" % k, cs)
        # read-string / read-string! on every kind of input port: k = 0, 1, middle, len, len + 1
        for k in sorted(set([0, 1, rng.randrange(1, L + 1), L, L + 1])):
            for pk in ("string", "fd", "file", "bytevector", "custom"):
                sched = [rng.choice([1, 1, 2, 3, 5]) for _ in range(len(b))] if pk == "custom" else []
                if k == 0:
                    exp = sobs([])
                else:
                    exp = sobs(cs[:k])
                add("rs", "(rs %s %s %s %d)" % (pk, sl(cs), sl(sched), k), exp + " / " + hx(cs[k:]), "k-%s:%s" % ("0" if k == 0 else "len+1" if k > L else "len" if k == L else "inside", pk), cs)
                T = [rand_cp(rng) for _ in range(k + rng.choice([0, 2]))]
                cnt = min(k, L)
                add("rb", "(rb %s %s %s %s %d)" % (pk, sl(cs), sl(sched), str_spec(rng, T, True), k), "%x %s / %s" % (cnt, sobs(cs[:cnt] + T[cnt:]), hx(cs[cnt:])),
                    "k-%s:%s" % ("0" if k == 0 else "len+1" if k > L else "len" if k == L else "inside", pk), cs + T)
        for which in range(4):
            for n in sorted(set([0, 1, rng.randrange(0, L + 1), L])):
                exp = [cs[:n], cs[n:], cs[L - n:], cs[:L - n]][which]
                add("tk", "(tk %d %s %d)" % (which, str_spec(rng, cs), n), sobs(exp), "%s-%s" % (["take", "drop", "take-right", "drop-right"][which], "0" if n == 0 else "len" if n == L else "inside"), cs)
    # comparison predicates: strings that first differ at a character pair straddling a width boundary (byte order must equal
    # code point order: U+E000..U+FFFF sort before U+10000.. although UTF-16 would say otherwise), one a prefix of the
    # other, equal, and with U+0000 inside the common prefix (a C string function would stop there)
    UNCASED = [0x20AC, 0x2192, 0x4E2D, 0x9EEC, 0x1F600, 0xFFFD, 0x0, 0x7F, 0x80, 0x31, 0x20]
    PAIRS = [(0x7F, 0x80), (0x7FF, 0x800), (0xFFFF, 0x10000), (0xE000, 0x10000), (0xFFFD, 0x1F600), (0x0, 0x1), (0x41, 0x61), (0x61, 0x42),
             (0xD7FF, 0xE000), (0x80, 0x7FF), (0x10FFFF, 0xFFFF), (0x5A, 0x61)]
    fold = lambda l: [c + 32 if 0x41 <= c <= 0x5A else c for c in l]
    tf = lambda x: "T" if x else "F"
    for k in range(6 * n_strings):
        pre = [rng.choice(UNCASED + [0x41, 0x62, 0x5A]) for _ in range(rng.choice([0, 1, 2, 4]))]
        if rng.random() < 0.4:
            pre = pre + [0]
        x, y = rng.choice(PAIRS)
        if rng.random() < 0.5:
            x, y = y, x
        t1 = [rng.choice(UNCASED) for _ in range(rng.choice([0, 1, 3]))]
        t2 = [rng.choice(UNCASED) for _ in range(rng.choice([0, 1, 3]))]
        form = rng.choice(["diff", "diff", "diff", "prefix", "equal", "case"])
        if form == "diff": a, b = pre + [x] + t1, pre + [y] + t2
        elif form == "prefix": a, b = pre, pre + [y] + t2
        elif form == "equal": a, b = pre + [x], pre + [x]
        else: a, b = pre + [0x41, 0x7A] + t1, pre + [0x61, 0x5A] + t1
        ls = [a, b] if rng.random() < 0.7 else [a, b, rng.choice([a, b, b + [0x3BB], pre])]
        if rng.random() < 0.5:
            ls[0], ls[1] = ls[1], ls[0]
        chain = lambda f, L: all(f(L[i], L[i + 1]) for i in range(len(L) - 1))
        fl = [fold(l) for l in ls]
        exp = (tf(chain(lambda p, q: p == q, ls)) + tf(chain(lambda p, q: p < q, ls)) + tf(chain(lambda p, q: p > q, ls)) +
               tf(chain(lambda p, q: p <= q, ls)) + tf(chain(lambda p, q: p >= q, ls)) +
               tf(chain(lambda p, q: p == q, fl)) + tf(chain(lambda p, q: p < q, fl)) + tf(chain(lambda p, q: p > q, fl)) + tf(ls[0] == ls[1]))
        allc = [c for l in ls for c in l]
        add("cm", "(cm %s)" % " ".join(str_spec(rng, l) if l else "(list)" for l in ls), exp,
            "%s%s:n%d" % (form, ":nul" if 0 in pre else "", len(ls)), allc)
        if len(ls) == 2:
            sgn = (ls[0] > ls[1]) - (ls[0] < ls[1])
            cases.append(("cmx", None, str(sgn), "", True, "cmp %s %s" % (hx(ls[0]), hx(ls[1]))))
    # case-insensitive comparison with MULTI-BYTE cased characters.  Oracle: python's str.casefold() (full case folding, independent of
    # chibi's tables; it agrees with the regenerated tables on every scalar value for Unicode 14) for the (scheme char) predicates and
    # string-foldcase; ASCII-only folding for the core (string-cmp a b #t); the extracted model (regenerated tables) three-way
    CASED = [0x391, 0x3B1, 0x3A3, 0x3C3, 0x3C2, 0x410, 0x430, 0x401, 0x451, 0xC0, 0xE0, 0xDE, 0xFE, 0xDF, 0x1E9E, 0x130, 0x131, 0x149, 0x17F, 0x53,
             0x212A, 0x6B, 0x4B, 0x212B, 0xE5, 0xC5, 0x10400, 0x10428, 0x104B0, 0x104D8, 0x1E900, 0x1E922, 0x531, 0x561, 0x587, 0xFB01, 0xFB00, 0x66,
             0x13A0, 0xAB70, 0x10A0, 0x2D00, 0x1C90, 0x10D0, 0x24B6, 0x24D0, 0xFF21, 0xFF41, 0x1F88, 0x1F80, 0x3B9, 0x390, 0x1FD3, 0x41, 0x61, 0x5A, 0x7A,
             0x20AC, 0x4E2D, 0x1F600, 0x0, 0x7F, 0x80]
    cfold = lambda l: [ord(x) for x in "".join(chr(c) for c in l).casefold()]
    afold = lambda l: [c + 32 if 0x41 <= c <= 0x5A else c for c in l]

    def partner(c):
        ch = chr(c)
        opts = [c]
        for t in (ch.upper(), ch.lower(), ch.casefold()):
            if len(t) == 1 and is_scalar(ord(t)):
                opts.append(ord(t))
        return rng.choice(opts)
    for k in range(8 * n_strings):
        a = [rng.choice(CASED) for _ in range(rng.choice([1, 2, 3, 5]))]
        form = rng.choice(["partner", "partner", "diff", "prefix", "expand"])
        if form == "partner": b = [partner(c) for c in a]
        elif form == "diff": b = [partner(c) for c in a[:-1]] + [rng.choice(CASED)]
        elif form == "prefix": b = [partner(c) for c in a] + [rng.choice(CASED)]
        else: b = cfold(a) if rng.random() < 0.7 else [partner(c) for c in cfold(a)]         # e.g. "Straße" vs "strasse" / "STRASSE"
        if rng.random() < 0.5:
            a, b = b, a
        fa, fb = cfold(a), cfold(b)
        ca, cb = afold(a), afold(b)
        exp = "%s%s%s %d %s" % (tf(fa == fb), tf(fa < fb), tf(fa > fb), (ca > cb) - (ca < cb), hx(fa))
        q = [c for c in a + b if c in (0x22, 0x5C)]
        add("ci", "(ci %s %s)" % ("(list %s)" % " ".join(map(str, a)) if rng.random() < 0.5 or q else str_spec(rng, a),
                                 "(list %s)" % " ".join(map(str, b)) if rng.random() < 0.5 or q else str_spec(rng, b)),
            exp, "%s:%s" % (form, "folded-equal" if fa == fb else "folded-different"), a + b, model="ci %s %s" % (hx(a), hx(b)))
    # char-foldcase / string-foldcase of every character of the cased blocks (quick) or of every scalar value (thorough)
    blocks = ([(0x0, 0x600), (0x10A0, 0x1100), (0x13A0, 0x1400), (0x1C80, 0x1CC0), (0x1E00, 0x2000), (0x2100, 0x2190), (0x24B0, 0x24F0), (0x2C00, 0x2D30),
               (0xA640, 0xA7FF), (0xAB70, 0xABC0), (0xFB00, 0xFB20), (0xFF20, 0xFF60), (0x10400, 0x10450), (0x104B0, 0x10500), (0x10C80, 0x10CC0),
               (0x118A0, 0x118E0), (0x16E40, 0x16E80), (0x1E900, 0x1E950)] if not ctx.thorough else
              [(lo, min(lo + 0x2000, 0x110000)) for lo in range(0, 0x110000, 0x2000)])
    for lo, hi in blocks:
        items = []
        for c in range(lo, hi):
            if not is_scalar(c):
                continue
            f = chr(c).casefold()
            l = chr(c).lower()
            simple = ord(f) if len(f) == 1 else (ord(l) if len(l) == 1 else c)
            items.append((c, simple, [ord(x) for x in f]))
        cases.append(("cf", "(cf %d %d)" % (lo, hi), items, "%x-%x" % (lo, hi), True, None))
    # long strings: the written slice crosses the 4096-byte output buffer, a multi-byte character cut by it
    for k in range(n_big):
        cs = [c for c in filler(rng, rng.choice([5000, 8200, 9000]), 10 ** 9) if c not in (0x22, 0x5C)]
        # make the neighbourhood of the buffer end multi-byte
        L = len(cs)
        pre = filler(rng, rng.randrange(0, 9), 10 ** 9)
        r = rng.choice([(0,), (0, L), (0, L - 1), (1, L), (0, L // 2 + 600), (3, L - 2)])
        acc = len(utf8(pre))
        for j in range(r[0], L):
            if PORT_BUF - 8 <= acc <= PORT_BUF + 2 or 2 * PORT_BUF - 8 <= acc <= 2 * PORT_BUF + 2:
                cs[j] = rng.choice(BY_WIDTH[rng.choice([2, 3, 4])])
            acc += width(cs[j])
        a, e = r[0], (r[1] if len(r) > 1 else L)
        pk = rng.choice(["string", "fd", "file"])
        add("ws", "(ws %s %s %s %s)" % (pk, "(list %s)" % " ".join(map(str, cs)), sl(r), sl(pre)), "b:" + hx(utf8(pre) + utf8(cs[a:e]) + EURO),
            "%s:%s:crosses-buffer" % (range_class(L, r), pk), cs)
    return cases


def check_ranges(ctx, exe, d, n_strings, n_big):
    cases = gen_range_cases(ctx, n_strings, n_big)
    model_only = [c for c in cases if c[1] is None]
    cases = [c for c in cases if c[1] is not None]
    if model_only and RANGE_MODEL:
        for c, m in zip(model_only, ctx.run_model(exe, [c[5] for c in model_only])):
            ctx.count(1, key=("range-model", c[5]), nontrivial=True)
            if m != c[2]:
                ctx.broken("correspondence:range-model-vs-spec", "%s: extracted model %r, SPEC %r" % (c[5][:200], m, c[2]))
    pdir = os.path.join(B.SCRATCH, "c12-ranges-%d" % os.getpid())      # per process: two C12 checks running at once must not share (or remove) the file
    os.makedirs(pdir, exist_ok=True)
    path = os.path.join(pdir, "io.bin")
    prelude = open(os.path.join(HARNESS, "c12_hist.scm")).read()
    per = 40
    # the char-foldcase sweeps (thorough: 8192 scalars per block) get small groups of their own: 40 blocks in one expression took > 400 s at a
    # load average above 200 and were reported as a hang (round 5)
    cf_cases = [c for c in cases if c[0] == "cf"]
    cases = [c for c in cases if c[0] != "cf"]
    groups = [cases[i:i + per] for i in range(0, len(cases), per)] + [cf_cases[i:i + 4] for i in range(0, len(cf_cases), 4)]
    cases = cases + cf_cases
    exprs = ["(c12-range-run \"%s\" '(%s))" % (path, " ".join(c[1] for c in g)) for g in groups]
    res = scm.run_cases(d, exprs, prelude_extra=prelude, imports=IMPORTS, chunk=25, timeout=(90 if not ctx.thorough else 400))
    with_model = [c for c in cases if c[5] is not None and RANGE_MODEL]
    mo = ctx.run_model(exe, [c[5] for c in with_model]) if with_model else []
    mo = dict(zip([id(c) for c in with_model], mo))
    reported, nb = {}, 0
    for g, e, r in zip(groups, exprs, res):
        got = parse_fields(r) if r and not r.startswith(("TIMEOUT", "CRASH", "ERR")) else None
        if got is not None and (len(got) != len(g) or (r.startswith('"') and not (len(r) > 1 and r.endswith('"')))):
            got = None      # also: an answer cut in the middle (the process was killed while writing) is a dead group, re-run below
        for k, c in enumerate(g):
            op, text, exp, cls, nontriv, mreq = c
            ctx.count(1, key=("range", text), nontrivial=nontriv)
            ctx.cov["traces_validated_against_impl"] += 1
            m = mo.get(id(c))
            if m is not None and m != exp:
                nb += 1
                if nb <= 5:
                    ctx.broken("correspondence:range-model-vs-spec", "%s: extracted model %r, SPEC %r" % (mreq[:200], m[:200], exp[:200]))
            if got is None:
                continue
            if op == "cf":
                # got: "c>simple>f+f,..." for every scalar of the block
                gd = {}
                for it in (got[k].split(",") if got[k] not in ("_", "") else []):
                    try:
                        c_, s_, f_ = it.split(">")
                        gd[int(c_, 16)] = (int(s_, 16), [int(x, 16) for x in f_.split("+")])
                    except ValueError:
                        gd = None
                        break
                badc = None
                if gd is None or len(gd) != len(exp):
                    badc = (exp[0][0], "one entry per scalar value", got[k][:200])
                else:
                    for c_, simple, full in exp:
                        gs, gf = gd.get(c_, (None, None))
                        if gf != full or (gs != simple and SIMPLE_NEWER.get(c_) != gs):
                            badc = (c_, "char-foldcase %x, string-foldcase %s" % (simple, hx(full)), "char-foldcase %s, string-foldcase %s" % (zhex(gs) if gs is not None else "?", hx(gf or [])))
                            break
                if badc is not None:
                    sig = "char-foldcase:%s" % ("ascii" if badc[0] < 0x80 else "w%d" % width(badc[0]))
                    reported[sig] = reported.get(sig, 0) + 1
                    if reported[sig] <= 2:
                        ctx.violation(sig, input="(c12-range-run \"%s\" '((cf %d %d)))" % (os.path.join(B.SCRATCH, "c12-range-replay.bin"), badc[0], badc[0] + 1), step=0,
                                      expected=badc[1], observed=badc[2], replay="chibi-scheme: (char-foldcase (integer->char #x%x)) (string-foldcase (string (integer->char #x%x)))" % (badc[0], badc[0]))
                continue
            if got[k] != exp:
                sig = "range:%s:%s" % (RANGE_NAMES[op], cls)
                reported[sig] = reported.get(sig, 0) + 1
                if reported[sig] > 2 or len(reported) > 40:
                    continue
                txt = "(c12-range-run \"%s\" '(%s))" % (os.path.join(B.SCRATCH, "c12-range-replay.bin"), text)
                wf = ""
                if exp.startswith("b:") and got[k].startswith("b:"):
                    try:
                        bytes(unhx(got[k][2:])).decode("utf-8")
                    except UnicodeDecodeError as ex:
                        wf = "  (the bytes written are not well-formed UTF-8: %s)" % ex.reason
                ctx.violation(sig, input=txt if len(txt) < 3000 else txt[:3000] + " ...", step=0, expected=exp if len(exp) < 600 else exp[:600] + "…",
                              observed=(got[k] if len(got[k]) < 600 else got[k][:600] + "…") + wf, model=m,
                              replay="./check C12 --replay <this file>   # or: chibi-scheme with vlib/scm.py PRELUDE + harness/c12_hist.scm, then " + txt[:300])
        if got is None:
            # the whole group died: find the case by running them one by one
            single = scm.run_cases(d, ["(c12-range-run \"%s\" '(%s))" % (path, c[1]) for c in g], prelude_extra=prelude, imports=IMPORTS, chunk=1, timeout=(30 if not ctx.thorough else 150))
            found = False
            for c, r1 in zip(g, single):
                if c[0] == "cf" and r1 and not r1.startswith(("TIMEOUT", "CRASH", "ERR")):
                    continue
                f1 = parse_fields(r1) if r1 and not r1.startswith(("TIMEOUT", "CRASH", "ERR")) else None
                if f1 is None or f1[0] != c[2]:
                    found = True
                    sig = ("crash-or-hang:range:%s" % RANGE_NAMES[c[0]]) if f1 is None else "range:%s:%s" % (RANGE_NAMES[c[0]], c[3])
                    reported[sig] = reported.get(sig, 0) + 1
                    if reported[sig] <= 2:
                        ctx.violation(sig, input="(c12-range-run \"%s\" '(%s))" % (os.path.join(B.SCRATCH, "c12-range-replay.bin"), c[1][:3000]), step=0,
                                      expected=c[2][:600], observed=str(r1)[:300] if f1 is None else f1[0][:600], replay="./check C12 --replay <this file>")
            if not found:
                # every case passes alone: a time-out of the whole chunk on a loaded machine, or a hang that needs the sequence.  Decide by
                # running the group once more, alone, with a long time limit
                # (time limit: what the cases were allowed one by one, summed -- on a loaded machine a group of big sweeps needs more than any fixed limit)
                again = scm.run_cases(d, [e], prelude_extra=prelude, imports=IMPORTS, chunk=1,
                                      timeout=min(3600, max(300, len(g) * (30 if not ctx.thorough else 150))))[0]
                fa = parse_fields(again) if again and not again.startswith(("TIMEOUT", "CRASH", "ERR")) else None
                if fa is not None and len(fa) == len(g) and all(c[0] == "cf" or fa[k] == c[2] for k, c in enumerate(g)):
                    ctx.note("range stream: a chunk timed out (loaded machine); the group passed when re-run alone")
                else:
                    ctx.violation("crash-or-hang:range:group", input=e[:3000], expected="one field per case", observed=str(again)[:300], replay="./check C12 --replay <this file>")
    if cases:
        ctx.sample(dict(kind="range", request=exprs[0][:400], impl=str(res[0])[:400]))
    try:
        import shutil
        shutil.rmtree(pdir)
    except OSError:
        pass


# ------------------------------------------------------------------------------------------ driver
def run(ctx):
    ctx.cov["rule"] = (
        "leaves: every byte 0..255, every boundary scalar (+ all 1 112 064 scalars in thorough) through the translated and the real C "
        "function, judged by the standard UTF-8 definition; inner: (store, offset, size) triples holding scalar lists at offset 0 or inside a "
        "shared store with garbage around, every old width x new width x position x own/shared x copy-on-write for string-set!, index "
        "boundaries -1/0/len-1/len/len+1 for index->cursor, ref, substring, plus strings whose last bytes are a lead byte cut off by the end "
        "of the string (every width x cut x own/shared store: string-ref there must raise, string-set! there replaces exactly the bytes left); outer: operation histories (<= 40 steps) over strings mixing "
        "1/2/3/4-byte scalars created by list->string, string, utf8->string, utf8->string! (shared, offset != 0), string ports, literals, with "
        "string-set!/substring/append/copy/make-string/fill!/copy! (aliased)/ports/cursors/comparisons, observed after every step as "
        "(string->list, string->utf8, string-length); optional range arguments: every combination {start omitted, 0, 1, middle, len} x {end "
        "omitted, start, middle, len} for write-string (string / fd / FILE* ports, bytes that reach the port), string-copy, substring(-cursor), "
        "string->list/vector, vector->string, string->utf8, utf8->string, string-fill!, string-copy! (aliased, both overlap directions), srfi 130 "
        "index/count/fold with index and cursor ranges, read-string / read-string! counts on five port kinds, every byte count of the "
        "%write-string opcode, comparison predicates on strings differing at a width boundary / by a prefix / after U+0000; "
        "a case is distinct by its full request/history and non-trivial when a non-ASCII scalar is involved")
    from gen import c12_leaf
    d = ctx.build("default")
    sigs = c12_leaf.regen(ctx, d)
    from gen import c12_casefold
    c12_casefold.regen(ctx, d)          # coq/Gen/C12_CaseFold.v: char-foldcase-map and special-cases of lib/scheme/char/*.scm
    ctx.coq_obligations("Properties_C12")
    exe = ctx.extract("C12")
    emb = B.cc_embed(d, os.path.join(HARNESS, "embed_c12.c"), os.path.join(d, "embed_c12"))
    if exe is None:
        # no model to compare with (e.g. the translator failed closed on a changed leaf function): still look for a concrete
        # failing input of the implementation, judged by the SPEC alone, on the strings ending in a cut-off lead byte
        check_truncated_impl_only(ctx, emb, d)
        check_truncated_outer(ctx, d)
        return
    import time as _t
    _t0 = [_t.time()]

    def lap(name):
        if os.environ.get("C12_TIMING"):
            print("C12-TIMING %-10s %.1fs" % (name, _t.time() - _t0[0]), flush=True)
        _t0[0] = _t.time()
    lap("coq+build")
    corpus_first(ctx, exe, emb, d)
    check_leaves(ctx, exe, emb, d)
    lap("leaves")
    check_inner(ctx, exe, emb, d, 2500 if not ctx.thorough else 120000)
    check_truncated_outer(ctx, d)
    lap("inner")
    check_outer(ctx, exe, d, 400 if not ctx.thorough else 25000, 800 if not ctx.thorough else 65000, 200 if not ctx.thorough else 10000)
    lap("outer")
    check_sweep(ctx, d)
    lap("sweep")
    check_ports(ctx, exe, d, *( (48, 450, 20) if not ctx.thorough else (1000, 20000, 300) ))
    lap("ports")
    check_illformed_ports(ctx, exe, d, 24 if not ctx.thorough else 1200)
    lap("badports")
    check_ranges(ctx, exe, d, *( (10, 8) if not ctx.thorough else (250, 100) ))
    lap("ranges")
    ctx.assume("configuration: SEXP_USE_UTF8_STRINGS=1, mutable strings, no string index table, no string-ref cache (the defaults)")
    ctx.assume("strings sharing one byte store with another live string or bytevector (only utf8->string! creates them) are outside the "
               "history theorem; the aliasing theorem says exactly when a store is written in place")
    ctx.assume("char-upcase/-downcase tables, normalisation, (chibi string)/(srfi 130) searching are outside the model (not exercised)")
    ctx.trust("python's str.encode('utf-8') as the reference definition of UTF-8 in the correspondence oracle")


def corpus_first(ctx, exe, emb, d):
    """minimised past disagreements, run before anything else"""
    p = os.path.join(HERE, "..", "corpus", "C12")
    if not os.path.isdir(p):
        return
    hists = []
    for f in sorted(os.listdir(p)):
        if f.endswith(".json"):
            hists.append(json.load(open(os.path.join(p, f)))["history"])
    hists = [[tuple(o) for o in h] for h in hists]
    if not hists:
        return
    res = run_histories(ctx, d, hists)
    for h, r in zip(hists, res):
        sp = Spec()
        exp = [sp.step(o) for o in h]
        k = first_diff(exp, parse_fields(r))
        ctx.count(1, key=("corpus", repr(h)), nontrivial=True)
        if k is not None:
            txt = "(c12-run '(%s))" % " ".join(scm_op(o) for o in h)
            ctx.violation(hist_sig(h, k), input=txt, step=k, expected=exp[k], observed=str(r)[:300], replay=txt)


def replay(ctx, rec):
    """re-run the failing cases of a replay file against the current tree"""
    d = ctx.build("default")
    emb = B.cc_embed(d, os.path.join(HARNESS, "embed_c12.c"), os.path.join(d, "embed_c12"))
    prelude = open(os.path.join(HARNESS, "c12_hist.scm")).read()
    rc = 0
    for c in rec.get("failing_cases", []):
        inp = c.get("input", "")
        if inp.startswith("(c12-"):
            out = scm.run_cases(d, [inp], prelude_extra=prelude, imports=IMPORTS)[0]
            fields = parse_fields(out) or []
            k = c.get("step", len(fields) - 1)
            got = fields[k] if isinstance(k, int) and k < len(fields) else out
        else:
            got = (run_embed(ctx, emb, d, [inp]) or ["<died>"])[0]
        same = got == c.get("expected")
        print("replay %s\n  expected %s\n  observed %s\n  => %s" % (inp[:400], c.get("expected"), got, "ok now" if same else "STILL DIFFERENT"))
        if not same and not str(c.get("expected", "")).startswith(("string bytes", "no failing")):
            rc = 1
    return rc
