"""C10 — unreachable memory is recycled; the heap stays well-formed.
   (T) coq/Properties_C10.v
   (G) gen/c10_consts.py: alignment, header size, split threshold, growth ratio/factor from the headers + source shapes
   (K-inner) trace refinement: the allocator trace of the real chibi-scheme (CHIBI_VERIF_TRACE + CHIBI_VERIF_SWEEPLOG)
             is replayed through the extracted model (ocaml/C10_driver.ml): same offset for every allocation, same
             object list at every sweep entry, same free list / max_freed / sum_freed after every sweep, same
             growth decisions and sizes, same out-of-memory points
   (K-outer) spec oracles evaluated on the implementation's own trace (exact tiling after every sweep, allocations
             inside free memory, objects = allocation history, sum_freed = unmarked bytes), the H3 audit verdict at
             every collection, and the heap bound of steady-state workloads."""
import bisect, os, re, subprocess, sys, time
from vlib import build as B

HERE = os.path.dirname(os.path.abspath(__file__))
WORKLOADS = os.path.join(HERE, "..", "harness", "c10_workloads.scm")


class Div(Exception):
    pass


# ----------------------------------------------------------------------------------------------- trace -> requests
class Replayer:
    """Streams one trace: writes the model requests and the expected answers, and evaluates the spec oracles on
    the implementation's data alone (self.spec = list of (sig, line_no, text))."""

    def __init__(self, trace, reqpath, exppath, unit=32, hdr=32, start_gc=None, max_allocs=None, ratio=(3, 4)):
        """start_gc=None: the model starts at the heap's creation; start_gc=k: the model is loaded with the
        implementation's heap as left by its k-th sweep (counted from 0) and replays from there.  max_allocs:
        stop feeding the model after that many allocations (the spec oracles always see the whole trace)."""
        self.trace, self.reqpath, self.exppath = trace, reqpath, exppath
        # start_gc may be a list of sweep numbers: several windows, each loaded from the implementation's heap
        self.from_init = start_gc is None or (isinstance(start_gc, (list, tuple)) and None in start_gc)
        self.starts = list(start_gc) if isinstance(start_gc, (list, tuple)) else [start_gc]
        self.starts = sorted(g for g in self.starts if g is not None)
        self.start_gc = None if self.from_init else (self.starts.pop(0) if self.starts else None)
        self.max_allocs = max_allocs
        self.emitting = self.from_init
        self.windows = 0
        self.emitted_allocs = 0
        self.first_max = 0
        self.loadreq = None
        self.unit, self.hdr = unit, hdr
        self.spec = []
        self.stats = dict(allocs=0, gcs=0, slow=0, forced=0, grows=0, ooms=0, peak_live=0, max_req=0, final_total=0,
                          init_total=0, objs_checked=0, sizes=set(), audit_fail=0, merges=dict(q=0, r=0, qr=0, none=0))
        self.heaps = []            # sizes
        self.free = []             # per heap: (starts, ends) of free intervals, impl-side oracle
        self.live = []             # per heap: dict off -> size, impl-side allocation history
        self.totals = []           # total heap size after each gc
        self.maxfree_before = 0
        self.ratio = ratio
        self.last_gc = None        # (largest free chunk after the sweep, unmarked bytes, total) of the last collection

    def bad(self, sig, ln, text):
        if len(self.spec) < 50:
            self.spec.append((sig, ln, text))

    def add_heap(self, size):
        self.heaps.append(size)
        self.free.append(([self.hdr], [size]))
        self.live.append({})

    def carve(self, hi, off, size, ln):
        if hi < 0 or hi >= len(self.heaps):
            self.bad("alloc:outside-every-heap", ln, "A %d %d %d" % (size, hi, off))
            return
        st, en = self.free[hi]
        i = bisect.bisect_right(st, off) - 1
        if i < 0 or off < st[i] or off + size > en[i] or off % self.unit:
            self.bad("alloc:not-inside-free-memory", ln, "allocation of %d bytes at heap %d offset %d is not inside a free chunk "
                     "(nearest free interval %s)" % (size, hi, off, (st[i], en[i]) if 0 <= i < len(st) else None))
            return
        if off == st[i]:
            if off + size == en[i]:
                del st[i]; del en[i]
            else:
                st[i] = off + size
        elif off + size == en[i]:
            en[i] = off
        else:
            st.insert(i + 1, off + size); en.insert(i + 1, en[i]); en[i] = off
        self.live[hi][off] = size

    def run(self):
        rp = self

        class Gate:
            def __init__(self, fh):
                self.fh = fh

            def write(self, s):
                if rp.emitting:
                    self.fh.write(s)

            def close(self):
                self.fh.close()
        req = Gate(open(self.reqpath, "w"))
        exp = Gate(open(self.exppath, "w"))
        pend = None          # pending gc block: dict(marks=..., expR=..., ln=...)
        cur_objs = None      # objects of the S block being read: list per heap of [(off,size,m)]
        cur_fl = None
        seenP = False
        growth = None
        oom = False
        started = False
        ln = 0
        S = self.stats
        with open(self.trace) as fh:
            for line in fh:
                ln += 1
                if not line.endswith("\n") or len(line) < 2:
                    break                      # truncated last line of a killed process
                c = line[0]
                if c == "A" and line[1] == " ":
                    f = line.split()
                    size, hi, off = int(f[1]), int(f[2]), int(f[3])
                    S["allocs"] += 1
                    if size > S["max_req"]:
                        S["max_req"] = size
                    if len(S["sizes"]) < 4096:
                        S["sizes"].add(size)
                    if self.loadreq is not None:
                        # the model starts from the implementation's heap as this sweep left it, unless the heap
                        # then grew before the allocation (start at the next sweep instead)
                        if growth is None and not oom:
                            self.emitting = True
                            self.windows += 1
                            self.emitted_allocs = 0
                            req.write(self.loadreq)
                            exp.write("%d ok\n" % ln)
                            pend, seenP = None, False
                        else:
                            self.start_gc += 1
                        self.loadreq = None
                    if self.emitting and self.max_allocs is not None:
                        self.emitted_allocs += 1
                        if self.emitted_allocs > self.max_allocs:
                            self.emitting = False
                            while self.starts and self.starts[0] < S["gcs"]:
                                self.starts.pop(0)
                            self.start_gc = self.starts.pop(0) if self.starts else None
                    if pend is not None:
                        if seenP and self.maxfree_before >= size:
                            self.bad("alloc:collects-although-a-free-chunk-fits", ln,
                                     "request of %d bytes went to the slow path (collection) while a free chunk of %d bytes existed" % (size, self.maxfree_before))
                        if seenP:
                            S["slow"] += 1
                            req.write("slow %d %s\n" % (size, pend["marks"]))
                            g = "-"
                            if growth is not None:
                                g = str(growth[1]) if growth[2] else "fail"
                            a = "oom" if oom else "%d %d" % (hi, off)
                            exp.write("%d %s G %s A %s\n" % (ln, pend["expR"], g, a))
                        else:
                            S["forced"] += 1
                            req.write("gc %s\n" % pend["marks"])
                            exp.write("%d %s\n" % (pend["ln"], pend["expR"]))
                            req.write("A %d\n" % size)
                            exp.write("%d %d %d\n" % (ln, hi, off))
                        pend, seenP, growth = None, False, None
                    else:
                        req.write("A %d\n" % size)
                        exp.write("%d %d %d\n" % (ln, hi, off))
                    if oom:
                        S["ooms"] += 1
                        oom = False
                    else:
                        self.carve(hi, off, size, ln)
                elif c == "o":
                    f = line.split()
                    cur_objs[-1].append((int(f[1]), int(f[2]), f[3] == "1"))
                elif c == "f":
                    f = line.split()
                    cur_fl[-1][2].append((int(f[1]), int(f[2])))
                elif c == "S":
                    f = line.split()
                    if int(f[1]) == 0:
                        cur_objs = []
                        S["gcs"] += 1
                        self.gc_ln = ln
                        # largest chunk that is free, by the implementation's own account, when this collection starts
                        self.maxfree_before = max([0] + [max([0] + [e - b for b, e in zip(st, en)]) for (st, en) in self.free])
                    cur_objs.append([])
                    if int(f[1]) >= len(self.heaps) or self.heaps[int(f[1])] != int(f[2]):
                        self.bad("heap-chain:size-changed", ln, line.strip())
                elif c == "T":
                    f = line.split()
                    if int(f[1]) == 0:
                        cur_fl = []
                    cur_fl.append((int(f[2]), int(f[3]), []))
                elif c == "R":
                    f = line.split()
                    mf, sf = int(f[1]), int(f[2])
                    if pend is not None:      # two collections with no allocation in between ((gc) called explicitly)
                        S["forced"] += 1
                        req.write("gc %s\n" % pend["marks"])
                        exp.write("%d %s\n" % (pend["ln"], pend["expR"]))
                        seenP, growth = False, None
                    pend = self.gc_block(cur_objs, cur_fl, mf, sf, req, exp, self.gc_ln)
                    cur_objs = cur_fl = None
                elif c == "P":
                    seenP = True
                elif c == "G":
                    f = line.split()
                    growth = (int(f[1]), int(f[2]), f[3] == "1")
                    if growth[2]:
                        # spec oracle for the growth policy, on the implementation's own data: a segment is added only when
                        # no free chunk fits the request after the collection, or the bytes the collection did not free
                        # exceed RATIO of the total (no_growth_when_fits / gc_then_fits at the implementation level)
                        if self.last_gc is not None:
                            mfa, unm, tot = self.last_gc
                            if mfa >= growth[0] and self.ratio[1] * (tot - unm) <= self.ratio[0] * tot:
                                self.bad("growth:not-required-by-policy", ln,
                                         "heap grown by %d bytes for a request of %d although a free chunk of %d bytes was available after the "
                                         "collection and only %d of %d bytes were retained" % (growth[1], growth[0], mfa, tot - unm, tot))
                        self.add_heap(growth[1])
                        S["grows"] += 1
                elif c == "X":
                    oom = True
                elif c == "N":
                    f = line.split()
                    if not started:
                        started = True
                        self.add_heap(int(f[1]))
                        S["init_total"] = int(f[1])
                        self.first_max = int(f[2])
                        req.write("init %d %d\n" % (int(f[1]), int(f[2])))
                        exp.write("%d ok\n" % ln)
                elif line.startswith("AUDIT FAIL"):
                    S["audit_fail"] += 1
                    self.bad("audit:" + re.sub(r"[^a-z]+", "-", line[11:].strip().lower()), ln, line.strip())
                # "C", "AUDIT OK", "D"... lines carry nothing the replay needs
        if cur_objs is not None:
            # the trace stops inside a collection (crash or endless loop in the sweep): the objects the sweep was
            # about to walk over are still compared with the allocation history
            for h in range(min(len(cur_objs), len(self.heaps))):
                hist = self.live[h]
                diff = [(o, hist.get(o), s) for (o, s, m) in cur_objs[h] if hist.get(o) != s][:3]
                if diff:
                    self.bad("heap-walk:objects-differ-from-allocation-history", self.gc_ln,
                             "last (unfinished) collection, heap %d: (offset, allocated size, size the sweep sees): %s" % (h, diff))
        if pend is not None and self.loadreq is None:      # a collection at the very end (no allocation followed): still check it
            req.write("gc %s\n" % pend["marks"])
            exp.write("%d %s\n" % (pend["ln"], pend["expR"]))
        req.close(); exp.close()
        S["final_total"] = sum(self.heaps)
        S["sizes"] = len(S["sizes"])
        return S

    def gc_block(self, objs, fls, mf, sf, req, exp, ln):
        """spec oracles on the implementation's sweep input/output; returns the pending model request"""
        S = self.stats
        if objs is None or fls is None or len(objs) != len(self.heaps) or len(fls) != len(self.heaps):
            self.bad("trace:incomplete-sweep-log", ln, "sweep log does not list every heap")
            objs = (objs or []) + [[] for _ in self.heaps]
            fls = (fls or []) + [(0, 0, []) for _ in self.heaps]
        # (d) objects the sweep walks over = allocation history (survivors of the last sweep + allocations since)
        req.write("objs\n")
        exp.write("%d %s\n" % (ln, "|".join((",".join("%d:%d:0" % (o, s) for (o, s, m) in objs[h]) or "-") for h in range(len(self.heaps)))))
        live_bytes = 0
        unmarked = 0
        for h in range(len(self.heaps)):
            S["objs_checked"] += len(objs[h])
            hist = self.live[h]
            if len(hist) != len(objs[h]) or any(hist.get(o) != s for (o, s, m) in objs[h]):
                seen = {o: s for (o, s, m) in objs[h]}
                d1 = sorted((o, s, seen.get(o)) for o, s in hist.items() if seen.get(o) != s)[:3]
                d2 = sorted((o, hist.get(o), s) for o, s in seen.items() if hist.get(o) != s)[:3]
                self.bad("heap-walk:objects-differ-from-allocation-history", ln,
                         "heap %d: (offset, allocated size, size the sweep sees): %s %s" % (h, d1, d2))
            surv = [(o, s) for (o, s, m) in objs[h] if m]
            live_bytes += sum(s for o, s in surv)
            unmarked += sum(s for (o, s, m) in objs[h] if not m)
            # (b) after the sweep: sentinel, sorted, coalesced, aligned, exact tiling with the survivors
            so, ss, fl = fls[h]
            if so != 0 or ss != 0:
                self.bad("sweep:sentinel-damaged", ln, "heap %d free list starts with (%d,%d)" % (h, so, ss))
            prev_end = None
            for (o, s) in fl:
                if s <= 0 or s % self.unit or o % self.unit:
                    self.bad("sweep:free-chunk-bad-size", ln, "heap %d chunk (%d,%d)" % (h, o, s))
                if prev_end is not None and o < prev_end:
                    self.bad("sweep:free-list-unsorted-or-overlapping", ln, "heap %d chunk (%d,%d) after end %d" % (h, o, s, prev_end))
                if prev_end is not None and o == prev_end:
                    self.bad("sweep:adjacent-free-chunks-not-coalesced", ln, "heap %d chunk (%d,%d)" % (h, o, s))
                prev_end = o + s
            chunks = sorted([(o, s, 0) for o, s in fl] + [(o, s, 1) for o, s in surv])
            p = self.hdr
            for (o, s, k) in chunks:
                if o != p:
                    self.bad("sweep:heap-not-tiled" + (":gap-leaked" if o > p else ":overlap"), ln,
                             "heap %d: after the sweep free chunks + marked objects leave %s [%d,%d)" % (h, "a hole" if o > p else "an overlap", min(o, p), max(o, p)))
                    break
                p = o + s
            else:
                if p != self.heaps[h]:
                    self.bad("sweep:heap-not-tiled:end", ln, "heap %d: chunks end at %d, heap at %d" % (h, p, self.heaps[h]))
            # merge statistics (which coalescing cases this sweep exercised)
            fset = {o: s for o, s in fl}
            # reset the impl-side oracles from the implementation's own post-sweep state
            self.free[h] = ([o for o, s in fl], [o + s for o, s in fl])
            self.live[h] = dict(surv)
        self.last_gc = (max([0] + [s for h in range(len(self.heaps)) for (o, s) in fls[h][2]]), unmarked, sum(self.heaps))
        if sf >= 0 and sf != unmarked:
            self.bad("sweep:sum-freed-differs-from-unmarked-bytes", ln, "sum_freed %d, unmarked bytes %d" % (sf, unmarked))
        if live_bytes > S["peak_live"]:
            S["peak_live"] = live_bytes
        self.totals.append((sum(self.heaps), live_bytes))
        if self.from_init and not self.emitting and self.start_gc is None and self.starts:
            self.start_gc = self.starts.pop(0)
        if self.start_gc is not None and not self.emitting and S["gcs"] - 1 >= self.start_gc:
            self.loadreq = "load %d %s\n" % (self.first_max, "|".join(
                "%d;%s;%s" % (self.heaps[h], ",".join("%d:%d" % (o, s) for o, s in fls[h][2]) or "-",
                              ",".join("%d:%d" % (o, s) for (o, s, m) in objs[h] if m) or "-") for h in range(len(self.heaps))))
        marks = "|".join((",".join(str(o) for (o, s, m) in objs[h] if m) or "-") for h in range(len(self.heaps)))
        flx = "|".join((",".join("%d:%d" % (o, s) for o, s in fls[h][2]) or "-") for h in range(len(self.heaps)))
        return dict(marks=marks, expR="R %d %s F %s" % (mf, sf if sf >= 0 else "*", flx), ln=ln)


def compare(exppath, anspath, partial=False):
    """first divergence between expected (from the implementation's trace) and the model's answers"""
    n = 0
    with open(exppath) as e, open(anspath) as a:
        for le in e:
            la = a.readline()
            if partial and not la.endswith("\n"):
                return None
            n += 1
            ln, _, want = le.rstrip("\n").partition(" ")
            got = la.rstrip("\n")
            if want == got:
                continue
            if want.startswith("R ") and " * " in want:       # sum_freed not requested by the caller: not printed
                w = want.split(" ")
                g = got.split(" ")
                if len(w) == len(g):
                    g[2] = "*"
                    if w == g:
                        continue
            return dict(event=n, trace_line=int(ln), impl=want[:300], model=got[:300] if la else "<model stopped>")
    return None


def kind_of(div):
    w = div["impl"]
    if w.startswith("R "):
        g = div["model"]
        if " G " in w:
            wr, _, wg = w.partition(" G ")
            gr, _, gg = g.partition(" G ")
            if wr != gr:
                return "sweep-result"
            if wg.split(" A ")[0] != gg.split(" A ")[0]:
                return "growth-decision"
            return "slow-path-offset"
        return "sweep-result"
    if ":" in w or w == "-":
        return "objects-at-sweep"
    return "alloc-offset"


# ----------------------------------------------------------------------------------------------- workloads
EMBED = os.path.join(HERE, "..", "harness", "embed_c10.c")


def workloads(thorough, rng=None):
    """(name, kind, chibi args / embed args, scheme args, steady?, window)
    kind "scm": harness/c10_workloads.scm under the scratch chibi-scheme (about 1.6 M allocations of start-up first);
    kind "emb": harness/embed_c10.c, a bare context with a small heap, replayed from the heap's creation."""
    ws = []
    if not thorough:
        ws.append(("scheme-all-phases", "scm", [], ["all", "150", "1"], False, ("windows", 7, 12000, 1600000)))
        emb = [("emb-steady", [65536, 0, 60000, 11, 150, 0], True), ("emb-cycles", [65536, 0, 60000, 12, 400, 1], False),
               ("emb-oom", [65536, 1500000, 50000, 13, 300, 2], False), ("emb-steady-big", [262144, 0, 60000, 14, 1500, 0], True)]
    else:
        for (nm, a, steady) in [("churn-small", ["churn", "600000", "1"], True), ("mixed-sizes", ["mixed", "150000", "2"], True),
                                ("bursty", ["bursty", "80", "3"], False), ("records-tables", ["records", "150000", "4"], True),
                                ("continuations", ["conts", "10000", "5"], True), ("ports-strings", ["ports", "8000", "6"], True),
                                ("growing", ["growing", "150000", "7"], False), ("big-objects", ["big", "40", "9"], False),
                                ("scheme-all-phases", ["all", "500", "10"], False)]:
            ws.append((nm, "scm", [], a, steady, ("windows", 8, 15000, 1600000)))
        ws.append(("small-initial-heap", "scm", ["-h", "256k"], ["mixed", "30000", "21"], False, ("windows", 4, 15000, 0)))
        emb = []
        for sd in range(10):
            emb.append(("emb-steady-%d" % sd, [65536 << (sd % 3), 0, 150000, 100 + sd, 100 + 150 * sd, 0], True))
            emb.append(("emb-cycles-%d" % sd, [65536 << (sd % 3), 0, 150000, 200 + sd, 200 + 100 * sd, 1], False))
            emb.append(("emb-oom-%d" % sd, [65536, 800000 + 300000 * sd, 100000, 300 + sd, 300, 2], False))
    for (nm, a, steady) in emb:
        ws.append((nm, "emb", [str(x) for x in a], [], steady, ("all",)))
    ws.sort(key=lambda w: w[1] != "emb")          # the small complete replays first
    if rng is not None:
        # the histories depend on VERIF_SEED: every workload's own generator is seeded from ctx.rng
        out = []
        for (nm, kind, cargs, sargs, steady, window) in ws:
            sd = str(rng.randrange(1, 1000000))
            if kind == "emb":
                cargs = cargs[:3] + [sd] + cargs[4:]
            else:
                sargs = sargs[:2] + [sd]
            out.append((nm, kind, cargs, sargs, steady, window))
        ws = out
    return ws


def run_workload(d, name, kind, cargs, sargs, outdir, timeout=900):
    trace = os.path.join(outdir, "c10-%s.trace" % name)
    env = B.chibi_env(d, {"CHIBI_VERIF_TRACE": trace, "CHIBI_VERIF_SWEEPLOG": "1", "CHIBI_VERIF_AUDIT": "1"})
    if kind == "emb":
        exe = os.path.join(d, "embed_c10")
        if not os.path.exists(exe) or os.path.getmtime(exe) < os.path.getmtime(EMBED):
            B.cc_embed(d, EMBED, exe)
        cmd = [exe] + cargs
    else:
        cmd = [os.path.join(d, "chibi-scheme")] + cargs + [os.path.abspath(WORKLOADS)] + sargs
    t0 = time.time()
    try:
        r = subprocess.run(cmd, capture_output=True, text=True, timeout=timeout, env=env)
        rc, out, err = r.returncode, r.stdout, r.stderr
    except subprocess.TimeoutExpired as e:
        rc, out, err = "TIMEOUT", "", ""
    replay = ("CHIBI_VERIF_TRACE=/var/tmp/c10.trace CHIBI_VERIF_SWEEPLOG=1 CHIBI_VERIF_AUDIT=1 LD_LIBRARY_PATH=%s CHIBI_MODULE_PATH=%s/lib "
              "CHIBI_IGNORE_SYSTEM_PATH=1 %s" % (d, d, " ".join(cmd)))
    return dict(name=name, trace=trace, rc=rc, out=out, err=err, replay=replay, secs=time.time() - t0)


def prescan(trace):
    """number of allocations before each sweep (cumulative), and the total"""
    cum, n = [], 0
    with open(trace) as fh:
        for line in fh:
            c = line[0]
            if not line.endswith("\n"):
                break
            if c == "A":
                n += 1
            elif c == "R":
                cum.append(n)
    return cum, n


def check_trace(ctx, exe, w, consts, steady, window=("suffix", 40000), model_timeout=600):
    """replay one workload's trace; window = ("prefix", n): from the heap's creation, n allocations;
    ("suffix", n): from the latest sweep that leaves at least n allocations to replay; ("all",)"""
    base = w["trace"][:-6]
    start_gc, max_allocs = None, None
    if window[0] == "prefix":
        max_allocs = window[1]
    elif window[0] == "suffix":
        cum, n = prescan(w["trace"])
        cands = [i for i, c in enumerate(cum) if n - c >= window[1]]
        if cands:
            start_gc = cands[-1]
        max_allocs = None
    elif window[0] == "windows":
        # ("windows", k, m, skip): the prefix from the heap's creation plus k windows of m allocations each, loaded from
        # the implementation's heap at sweeps spread evenly over the allocations after the first `skip`
        cum, n = prescan(w["trace"])
        k, m, skip = window[1], window[2], window[3]
        start_gc = [None]
        for j in range(k):
            target = skip + (n - skip) * j // max(k, 1)
            cands = [i for i, c in enumerate(cum) if c >= target]
            if cands and cands[0] not in start_gc:
                start_gc.append(cands[0])
        max_allocs = m
    rp = Replayer(w["trace"], base + ".req", base + ".exp", unit=consts["unit"], hdr=consts["hdr"], start_gc=start_gc, max_allocs=max_allocs,
                  ratio=consts.get("ratio", (3, 4)))
    S = rp.run()
    t0 = time.time()
    truncated = False
    with open(base + ".req") as fi, open(base + ".ans", "w") as fo:
        try:
            r = subprocess.run([exe], stdin=fi, stdout=fo, stderr=subprocess.PIPE, timeout=model_timeout)
        except subprocess.TimeoutExpired:
            truncated = True
            r = subprocess.CompletedProcess([exe], 0, b"", b"")
    S["model_secs"] = round(time.time() - t0, 1)
    S["model_truncated"] = truncated
    S["windows"] = rp.windows + (1 if rp.from_init else 0)
    div = compare(base + ".exp", base + ".ans", partial=truncated) if r.returncode == 0 else dict(event=0, trace_line=0, impl="", model="driver died: %s" % r.stderr[-300:])
    name = w["name"]
    for (sig, ln, text) in rp.spec[:5]:
        ctx.violation(sig, input="workload %s, trace line %d" % (name, ln), expected="the heap invariant of C10 (spec oracle on the implementation's own trace)",
                      observed=text, replay=w["replay"] + "   # then inspect /var/tmp/c10.trace around line %d" % ln)
    audit = [l for l in w["err"].split("\n") if "VERIF-AUDIT FAIL" in l]
    if audit and not any(s.startswith("audit:") for s, _, _ in rp.spec):
        ctx.violation("audit:" + re.sub(r"[^a-z]+", "-", audit[0].split(":", 1)[-1].strip().lower()), input="workload %s" % name,
                      expected="VERIF audit passes after every sweep", observed=audit[0], replay=w["replay"])
    # heap bound of steady-state workloads (K-outer): see notes/C10.md for the derivation of the constant
    if steady and S["gcs"] > 0:
        bound = max(S["init_total"], 32 * (S["peak_live"] + S["max_req"]))
        S["bound"] = bound
        if S["final_total"] > bound:
            ctx.violation("steady-state:heap-exceeds-bound", input="workload %s" % name,
                          expected="total heap <= max(initial, 32*(peak live + largest request)) = %d" % bound,
                          observed="total heap %d with peak live %d after %d allocations, %d growths" % (S["final_total"], S["peak_live"], S["allocs"], S["grows"]),
                          replay=w["replay"] + "   # heap sizes: N and G lines of the trace")
    if div is not None:
        k = kind_of(div)
        if rp.spec or audit:
            ctx.note("trace refinement also diverges (%s) at trace line %d of %s" % (k, div["trace_line"], name))
        else:
            ctx.broken("trace-refinement:%s:%s" % (k, name),
                       "model and allocator diverge at trace line %d (event %d) but every spec oracle holds on the implementation's trace: impl=%s model=%s"
                       % (div["trace_line"], div["event"], div["impl"], div["model"]), replay=w["replay"])
    S["diverged"] = div
    return S


def guarded_build(ctx, limit=300):
    """The repository's make runs the freshly built chibi-scheme (chibi-ffi on the .stub files): with a damaged
    allocator that can hang for ever.  So the shared scratch build runs in a child session under a time limit;
    when it does not finish (or fails because that chibi-scheme crashes), the core (chibi-scheme,
    libchibi-scheme.so) that make builds first is still there and the embedding workloads run against it.
    Returns (dir, complete?, why not)."""
    import signal
    code = ("import sys; sys.path.insert(0, %r); from vlib import build as B; print(B.build('default'))" % os.path.dirname(HERE))
    p = subprocess.Popen([sys.executable, "-c", code], stdout=subprocess.PIPE, stderr=subprocess.PIPE, text=True, start_new_session=True)
    why = ""
    try:
        out, err = p.communicate(timeout=limit)
        if p.returncode == 0 and out.strip():
            return out.strip().split("\n")[-1], True, ""
        why = "make failed: " + err[-1200:]
    except subprocess.TimeoutExpired:
        try:
            os.killpg(p.pid, signal.SIGKILL)
        except OSError:
            pass
        p.wait()
        why = "make did not finish in %d s" % limit
    d = os.path.join(B.SCRATCH, "default-%s" % B.source_hash())
    if os.path.exists(os.path.join(d, "chibi-scheme")) and os.path.exists(os.path.join(d, "libchibi-scheme.so")):
        return d, False, why
    raise B.BuildError("the scratch build failed and left no chibi-scheme binary: " + why)


CORPUS = os.path.join(HERE, "..", "corpus", "C10")


def selftest(ctx, exe, consts, outdir):
    """corpus first: a small recorded trace of the unchanged allocator must replay without any disagreement, and
    four planted faults in copies of it must each be flagged by the spec oracle meant for them (so a check that
    has gone blind does not pass silently)."""
    good = os.path.join(CORPUS, "good-small.trace")
    if not os.path.exists(good):
        ctx.broken("corpus:missing", "corpus/C10/good-small.trace not found")
        return
    lines = open(good).read().split("\n")

    def variant(name, edit):
        ls = list(lines)
        edit(ls)
        pth = os.path.join(outdir, "c10-selftest-%s.trace" % name)
        open(pth, "w").write("\n".join(ls))
        rp = Replayer(pth, pth[:-6] + ".req", pth[:-6] + ".exp", unit=consts["unit"], hdr=consts["hdr"])
        rp.run()
        return pth, rp

    def nth(ls, pred, k):
        idx = [i for i, l in enumerate(ls) if pred(l)]
        return idx[min(k, len(idx) - 1)]

    # the recorded trace itself
    pth, rp = variant("good", lambda ls: None)
    with open(pth[:-6] + ".req") as fi, open(pth[:-6] + ".ans", "w") as fo:
        subprocess.run([exe], stdin=fi, stdout=fo, timeout=300)
    div = compare(pth[:-6] + ".exp", pth[:-6] + ".ans")
    ctx.count(rp.stats["allocs"] + rp.stats["gcs"], key=("corpus", "good-small"))
    if rp.spec or div:
        ctx.broken("corpus:good-small", "the recorded trace of the unchanged allocator no longer checks: oracles=%s divergence=%s" % (rp.spec[:2], div))

    def drop_f(ls):
        del ls[nth(ls, lambda l: l.startswith("f "), 5)]

    def grow_f(ls):
        i = nth(ls, lambda l: l.startswith("f "), 3)
        f = ls[i].split()
        ls[i] = "f %s %d" % (f[1], int(f[2]) + 64)

    def dup_a(ls):
        i = nth(ls, lambda l: l.startswith("A "), 40)
        ls.insert(i + 1, ls[i])

    def size_o(ls):
        i = nth(ls, lambda l: l.startswith("o "), 30)
        f = ls[i].split()
        ls[i] = "o %s %d %s" % (f[1], int(f[2]) + 32, f[3])

    for name, edit, want in [("lost-chunk", drop_f, "sweep:heap-not-tiled"), ("chunk-too-big", grow_f, "sweep:"),
                             ("double-allocation", dup_a, "alloc:not-inside-free-memory"),
                             ("object-size-changed", size_o, "heap-walk:objects-differ-from-allocation-history")]:
        pth, rp = variant(name, edit)
        ctx.count(1, key=("corpus", name))
        if not any(sig.startswith(want) for sig, _, _ in rp.spec):
            ctx.broken("selftest:" + name, "a planted fault (%s) in the recorded trace was not flagged by the spec oracles: %s" % (name, rp.spec[:3]))
    for f in os.listdir(outdir):
        if f.startswith("c10-selftest-"):
            os.unlink(os.path.join(outdir, f))


def model_consts(ctx, exe):
    u, h, m = ctx.run_model(exe, ["consts"])[0].split()
    return dict(unit=int(u), hdr=int(h), min_obj=int(m))


def run(ctx):
    ctx.cov["rule"] = ("a case is one allocator event of a real chibi-scheme run (allocation, sweep, growth decision, out-of-memory) replayed through "
                       "the extracted model; distinct by (workload, event kind, request size or sweep number); non-trivial: every sweep, growth and "
                       "slow-path event, and allocations whose size class is new for the workload")
    from gen import c10_consts
    d, complete, why = guarded_build(ctx)
    if not complete:
        ctx.broken("build:incomplete", "the repository's make (which runs the fresh chibi-scheme on the .stub files) did not complete (%s); "
                                       "only the embedding workloads were run, against the core library that was built" % why)
    if "CHIBI_VERIF_SWEEPLOG" not in open(os.path.join(d, "gc.c")).read():
        ctx.broken("hook-missing", "gc.c of %s has no CHIBI_VERIF_SWEEPLOG hook: apply fixes/hook-C10-sweeplog.patch (guarded, add-only); "
                                   "without it the traces carry no sweep logs and nothing can be replayed" % B.REPO)
        return
    try:
        vals = c10_consts.regen(ctx, d)
        ctx.note("(G) constants from the headers: %s" % {k: vals[k] for k in ("unit_sz", "hdr_sz", "min_obj", "ratio", "factor")})
        for what in vals["shape_problems"]:
            ctx.broken("source-shape:" + what, "gc.c no longer has the text the model mirrors for: %s (see gen/c10_consts.py SHAPES)" % what)
    except Exception as e:
        ctx.broken("regen:C10_Consts", str(e))
        return
    ctx.coq_obligations("Properties_C10")
    exe = ctx.extract("C10")
    if exe is None:
        return
    consts = model_consts(ctx, exe)
    from fractions import Fraction
    fr = Fraction(float.fromhex(vals["ratio"]))
    consts["ratio"] = (fr.numerator, fr.denominator)
    outdir = os.path.join(B.SCRATCH, "c10-traces")
    os.makedirs(outdir, exist_ok=True)
    for f in os.listdir(outdir):
        os.unlink(os.path.join(outdir, f))
    selftest(ctx, exe, consts, outdir)
    total = dict(allocs=0, gcs=0, slow=0, grows=0, ooms=0)
    for (name, kind, cargs, sargs, steady, window) in workloads(ctx.thorough, ctx.rng):
        if kind == "scm" and not complete:
            continue
        if kind == "scm" and ctx.violations and not ctx.thorough:
            ctx.note("Scheme workload %s skipped: the embedding workloads already produced violations" % name)
            continue
        w = run_workload(d, name, kind, cargs, sargs, outdir, timeout=(30 if kind == "emb" else 900))
        if not os.path.exists(w["trace"]):
            ctx.broken("workload:" + name, "workload left no trace: rc=%s %s" % (w["rc"], w["err"][-300:]))
            continue
        if w["rc"] == "TIMEOUT":
            ctx.violation("workload-hang:" + name, input=name, expected="the workload finishes (seconds on the unchanged tree)",
                          observed="still running after the time limit; the trace written so far is analysed below", replay=w["replay"])
        if w["rc"] != 0 and "oom" not in name:
            ctx.violation("workload-crash:" + name, input=name, expected="exit 0", observed="rc=%s %s" % (w["rc"], w["err"][-400:]), replay=w["replay"])
        try:
            S = check_trace(ctx, exe, w, consts, steady, window=window, model_timeout=(90 if not ctx.thorough else 600))
        except Exception as e:
            import traceback
            ctx.broken("trace-analysis:" + name, "the trace of %s could not be analysed: %s %s" % (name, e, traceback.format_exc()[-600:]), replay=w["replay"])
            continue
        if S["model_truncated"]:
            ctx.note("model replay of %s stopped by the time limit; the part replayed agrees" % name)
        for k in total:
            total[k] += S[k]
        ctx.count(S["allocs"] + S["gcs"] + S["grows"], key=None)
        for i in range(S["gcs"]):
            ctx.count(0, key=(name, "gc", i))
        for i in range(S["sizes"]):
            ctx.count(0, key=(name, "size-class", i))
        for i in range(S["grows"] + S["ooms"]):
            ctx.count(0, key=(name, "grow/oom", i))
        ctx.cov["traces_validated_against_impl"] += 1
        if os.environ.get("VERIF_C10_PROFILE"):
            sys.stderr.write("C10 profile: %s run %.1fs model %.1fs total-so-far %.0fs allocs %d\n" % (name, w["secs"], S["model_secs"], time.time() - ctx.t0, S["allocs"]))
        ctx.sample(dict(workload=name, allocations=S["allocs"], collections=S["gcs"], slow_path=S["slow"], growths=S["grows"], oom=S["ooms"],
                        size_classes=S["sizes"], objects_compared=S["objs_checked"], peak_live=S["peak_live"], final_heap=S["final_total"],
                        bound=S.get("bound"), diverged=S["diverged"], windows=S["windows"], model_truncated=S["model_truncated"], run_s=round(w["secs"], 1), model_s=S["model_secs"]), maxn=20)
        if not os.environ.get("VERIF_KEEP_TRACES"):
            for ext in (".trace", ".req", ".exp", ".ans"):
                try:
                    os.unlink(w["trace"][:-6] + ext)
                except OSError:
                    pass
    ctx.cov["generator_distribution"] = total
    ctx.assume("the mark phase is an input of this model (the marked set at sweep entry is taken from the implementation's sweep log); that it equals reachability is C02's property")
    ctx.assume("malloc never fails inside sexp_make_heap; SEXP_USE_FIXED_CHUNK_SIZE_HEAPS, the mmap variant and image loading (gc_heap.c) are outside the model")
    ctx.assume("heap sizes stay below 2^53 (the C evaluates the growth ratio test in double arithmetic; the model uses the exact rational comparison)")
    ctx.trust("the sweep-log hook (fixes/hook-C10-sweeplog.patch): prints what sexp_sweep is about to read and what it left")
