"""C10 — unreachable memory is recycled; the heap stays well-formed.
   (T) coq/Properties_C10.v
   (G) gen/c10_consts.py: alignment, header size, split threshold, growth ratio/factor from the headers + source shapes
   (K-inner) trace refinement: the allocator trace of the real chibi-scheme (CHIBI_VERIF_TRACE + CHIBI_VERIF_SWEEPLOG)
             is replayed through the extracted model (ocaml/C10_driver.ml): same offset for every allocation, same
             object list at every sweep entry, same free list / max_freed / sum_freed after every sweep, same
             growth decisions and sizes, same out-of-memory points
   (K-outer) spec oracles evaluated on the implementation's own trace (exact tiling after every sweep, allocations
             inside free memory, objects = allocation history, sum_freed = unmarked bytes), the H3 audit verdict at
             every collection, and the heap bound of steady-state workloads.
   round 2:  (G) the growth formula of sexp_grow_heap is translated from gc.c (Gen/C10_Consts.v grow_formula);
             closedness with weak objects: harness/embed_c10_weak.c (ephemeron chains in chosen address orders, heap audit
             after every collection), the Scheme workload `weak`, and the DumpChecker (premise / conclusion of
             coq/C10/Closed.v sweep_inv_closed on the H3 heap dumps); growth stream and policy stream (embed_c10 modes 3, 4).
   round 3:  the embedder's roots (harness/embed_c10_roots.c bare: sexp_preserve_object / sexp_release_object / gc_preserve frames;
             the preservatives list = the extracted model's after every operation, the survivors of every collection = the
             model's closure of the current roots: run_roots / judge_roots); image-loaded heaps (run_image: chibi-scheme -d /
             -h free -i; the hand-built segment satisfies Inv and equals the model's packed_heap_make, whose arithmetic is
             translated from gc_heap.c; the whole run is replayed from the image state); closedness through the STRUCT-MEMBER
             view of sexp.h (gen/c10_layout.py, clang AST) on objects kept alive only from C (run_members_eval)."""
import bisect, os, re, subprocess, sys, time
from vlib import build as B

HERE = os.path.dirname(os.path.abspath(__file__))
WORKLOADS = os.path.join(HERE, "..", "harness", "c10_workloads.scm")


class Div(Exception):
    pass


# ----------------------------------------------------------------------------------------------- heap dumps: closedness
class DumpChecker:
    """The closedness clause of C10 on the H3 heap dumps of one collection (phases pre | marked | weak | post; `O off
    size tag marked broken S <strong slots> W <weak slots> X <extra slots = ephemeron values> C <saves>`).
    PREMISE of coq/C10/Closed.v `sweep_inv_closed` = what the mark phase + weak pass must deliver to the sweep,
    checked on the `marked` and `weak` dumps:
      (m1) the marked set at sweep entry is closed under the strong slots (S, C) of marked objects,
      (m2) it contains the closure of the set marked by sexp_mark under (strong slots U values of ephemerons whose
           key is marked or immediate)  [computed here by a work list, independently of the implementation],
      (m3) every weak slot of a marked object designates a marked object or is immediate (sexp_reset_weak_references
           replaced the others by #f), every extra slot (ephemeron value) of a marked object designates a marked
           object or is immediate.
    CONCLUSION, checked on the `post` dump: the objects are exactly the marked ones and every slot (S, W, X, C) of
    every object designates the start of an object of the post dump (not a free chunk, not the middle of one)."""

    def __init__(self, rp):
        self.rp = rp
        self.active = False
        self.phase = None
        self.cur = None
        self.coll = {}
        self.n_coll = 0
        self.n_weak = 0           # weak objects seen (marked, at sweep entry)
        self.n_live_eph = 0       # ephemerons with a live heap key and a heap value at sweep entry
        self.n_chain = 0          # ... whose key was not marked by sexp_mark alone (needed the fixpoint)
        self.hi = 0
        self.gcno = None

    @staticmethod
    def refs(tok):
        out = []
        for t in tok:
            if t == "i" or t == "x":
                out.append(None)
            else:
                a, _, b = t.partition(":")
                out.append((int(a), int(b)))
        return out

    def feed(self, line, ln):
        c = line[0]
        if c == "D":
            f = line.split()
            self.active = True
            self.phase = f[1]
            self.gcno = f[2]
            self.cur = {}
            self.start_ln = ln
            if self.phase == "pre":
                self.coll = {}
            return
        if c == "O":
            f = line.split()
            off, size, tag, marked, broken = int(f[1]), int(f[2]), int(f[3]), f[4] == "1", f[5] == "1"
            sect = {"S": [], "W": [], "X": [], "C": []}
            k = None
            for t in f[6:]:
                if t in sect:
                    k = t
                else:
                    sect[k].append(t)
            self.cur[(self.hi, off)] = (size, tag, marked, self.refs(sect["S"]) + self.refs(sect["C"]), self.refs(sect["W"]), self.refs(sect["X"]))
        elif c == "H":
            self.hi = int(line.split()[1])
        elif line == "E\n":
            self.active = False
            self.coll[self.phase] = self.cur
            if self.phase == "post":
                self.check(self.start_ln)
                self.coll = {}
        # "R root", "F off size", "K ...": not needed here

    def check(self, ln):
        rp = self.rp
        marked, weak, post = self.coll.get("marked"), self.coll.get("weak"), self.coll.get("post")
        if marked is None or weak is None or post is None:
            return
        self.n_coll += 1
        where = "collection %s" % self.gcno

        def show(a):
            return "%d:%d" % a
        # ---- spec: closure of sexp_mark's set under strong slots and live-key ephemeron values (work list)
        M0 = {a for a, o in marked.items() if o[2]}
        Mstar = set(M0)
        ephs = [a for a, o in marked.items() if o[4] and o[5]]         # objects with weak and extra slots
        changed = True
        rounds = 0
        while changed:
            changed = False
            rounds += 1
            for a in ephs:
                if a not in Mstar:
                    continue
                o = marked[a]
                if any((k is None) or (k in Mstar) for k in o[4]):       # some key alive: not an unmarked heap object
                    stack = [v for v in o[5] if v is not None and v not in Mstar and v in marked]
                    while stack:
                        b = stack.pop()
                        if b in Mstar:
                            continue
                        Mstar.add(b)
                        changed = True
                        stack.extend(x for x in marked[b][3] if x is not None and x not in Mstar and x in marked)
        M = {a for a, o in weak.items() if o[2]}
        # ---- premise
        for a in sorted(M):
            o = weak[a]
            for kind, refs in (("strong", o[3]), ("weak", o[4]), ("extra", o[5])):
                for i, b in enumerate(refs):
                    if b is not None and b not in M:
                        rp.bad("closedness:marked-set-not-closed-at-sweep-entry:" + kind, ln,
                               "%s: %s slot %d of the marked object %s (tag %d) designates %s, which is %s: the sweep will free it under a live reference"
                               % (where, kind, i, show(a), o[1], show(b), "an unmarked object" if b in weak else "not an object"))
            if o[4]:
                self.n_weak += 1
                if o[5] and any(k is not None for k in o[4]) and any(v is not None for v in o[5]):
                    self.n_live_eph += 1
                    if any(k is not None and k not in M0 for k in o[4]):
                        self.n_chain += 1
        miss = sorted(Mstar - M)
        if miss:
            rp.bad("closedness:mark-set-misses-ephemeron-closure", ln,
                   "%s: %d object(s) reachable from the marked set through strong slots and values of live-key ephemerons carry no mark at sweep entry, first %s"
                   % (where, len(miss), show(miss[0])))
        # ---- conclusion
        if set(post) != M:
            d = sorted(set(post) ^ M)
            rp.bad("closedness:survivors-differ-from-marked-set", ln, "%s: objects after the sweep differ from the marked ones at %s" % (where, show(d[0])))
        for a in sorted(post):
            o = post[a]
            for kind, refs in (("strong", o[3]), ("weak", o[4]), ("extra (ephemeron value)", o[5])):
                for i, b in enumerate(refs):
                    if b is not None and b not in post:
                        rp.bad("closedness:slot-designates-freed-storage", ln,
                               "%s: after the sweep %s slot %d of the live object %s (tag %d) designates %s, which is a free chunk / not the start of an object"
                               % (where, kind, i, show(a), o[1], show(b)))


# ----------------------------------------------------------------------------------------------- trace -> requests
class Replayer:
    """Streams one trace: writes the model requests and the expected answers, and evaluates the spec oracles on
    the implementation's data alone (self.spec = list of (sig, line_no, text))."""

    def __init__(self, trace, reqpath, exppath, unit=32, hdr=32, start_gc=None, max_allocs=None, ratio=(3, 4), image=None):
        """start_gc=None: the model starts at the heap's creation; start_gc=k: the model is loaded with the
        implementation's heap as left by its k-th sweep (counted from 0) and replays from there.  max_allocs:
        stop feeding the model after that many allocations (the spec oracles always see the whole trace)."""
        self.trace, self.reqpath, self.exppath = trace, reqpath, exppath
        # start_gc may be a list of sweep numbers: several windows, each loaded from the implementation's heap
        self.from_init = start_gc is None or (isinstance(start_gc, (list, tuple)) and None in start_gc)
        self.starts = list(start_gc) if isinstance(start_gc, (list, tuple)) else [start_gc]
        self.starts = sorted(g for g in self.starts if g is not None)
        self.start_gc = None if self.from_init else (self.starts.pop(0) if self.starts else None)
        self.max_allocs = max_allocs
        self.emitting = self.from_init
        self.windows = 0
        self.emitted_allocs = 0
        self.first_max = 0
        self.loadreq = None
        self.unit, self.hdr = unit, hdr
        self.spec = []
        self.stats = dict(allocs=0, gcs=0, slow=0, forced=0, grows=0, ooms=0, peak_live=0, max_req=0, final_total=0,
                          init_total=0, objs_checked=0, sizes=set(), audit_fail=0, merges=dict(q=0, r=0, qr=0, none=0))
        self.heaps = []            # sizes
        self.free = []             # per heap: (starts, ends) of free intervals, impl-side oracle
        self.live = []             # per heap: dict off -> size, impl-side allocation history
        self.totals = []           # total heap size after each gc
        self.maxfree_before = 0
        self.ratio = ratio
        self.last_gc = None        # (largest free chunk after the sweep, unmarked bytes, total) of the last collection
        self.dumps = DumpChecker(self)     # H3 heap dumps (CHIBI_VERIF_DUMP), when the trace carries them: closedness
        # round 3: a context loaded from an image: dict(free=requested free size, packed=bytes of the image, hsize=size of the
        # segment as the first sweep sees it, objs=[(off, size)] of the packed objects as the first sweep sees them)
        self.image = image

    def bad(self, sig, ln, text):
        if len(self.spec) < 50:
            self.spec.append((sig, ln, text))

    def add_heap(self, size):
        self.heaps.append(size)
        self.free.append(([self.hdr], [size]))
        self.live.append({})

    def carve(self, hi, off, size, ln):
        if hi < 0 or hi >= len(self.heaps):
            self.bad("alloc:outside-every-heap", ln, "A %d %d %d" % (size, hi, off))
            return
        st, en = self.free[hi]
        i = bisect.bisect_right(st, off) - 1
        if i < 0 or off < st[i] or off + size > en[i] or off % self.unit:
            self.bad("alloc:not-inside-free-memory", ln, "allocation of %d bytes at heap %d offset %d is not inside a free chunk "
                     "(nearest free interval %s)" % (size, hi, off, (st[i], en[i]) if 0 <= i < len(st) else None))
            return
        if off == st[i]:
            if off + size == en[i]:
                del st[i]; del en[i]
            else:
                st[i] = off + size
        elif off + size == en[i]:
            en[i] = off
        else:
            st.insert(i + 1, off + size); en.insert(i + 1, en[i]); en[i] = off
        self.live[hi][off] = size

    def run(self):
        rp = self

        class Gate:
            def __init__(self, fh):
                self.fh = fh

            def write(self, s):
                if rp.emitting:
                    self.fh.write(s)

            def close(self):
                self.fh.close()
        req = Gate(open(self.reqpath, "w"))
        exp = Gate(open(self.exppath, "w"))
        pend = None          # pending gc block: dict(marks=..., expR=..., ln=...)
        cur_objs = None      # objects of the S block being read: list per heap of [(off,size,m)]
        cur_fl = None
        seenP = False
        growth = None
        oom = False
        started = False
        ln = 0
        S = self.stats
        with open(self.trace) as fh:
            for line in fh:
                ln += 1
                if not line.endswith("\n") or len(line) < 2:
                    break                      # truncated last line of a killed process
                c = line[0]
                if self.dumps.active or c == "D":
                    self.dumps.feed(line, ln)          # the lines of a heap dump ("D phase" ... "E")
                    continue
                if c == "A" and line[1] == " ":
                    f = line.split()
                    size, hi, off = int(f[1]), int(f[2]), int(f[3])
                    S["allocs"] += 1
                    if size > S["max_req"]:
                        S["max_req"] = size
                    if len(S["sizes"]) < 4096:
                        S["sizes"].add(size)
                    if self.loadreq is not None:
                        # the model starts from the implementation's heap as this sweep left it, unless the heap
                        # then grew before the allocation (start at the next sweep instead)
                        if growth is None and not oom:
                            self.emitting = True
                            self.windows += 1
                            self.emitted_allocs = 0
                            req.write(self.loadreq)
                            exp.write("%d ok\n" % ln)
                            pend, seenP = None, False
                        else:
                            self.start_gc += 1
                        self.loadreq = None
                    if self.emitting and self.max_allocs is not None:
                        self.emitted_allocs += 1
                        if self.emitted_allocs > self.max_allocs:
                            self.emitting = False
                            while self.starts and self.starts[0] < S["gcs"]:
                                self.starts.pop(0)
                            self.start_gc = self.starts.pop(0) if self.starts else None
                    if pend is not None:
                        if seenP and self.maxfree_before >= size:
                            self.bad("alloc:collects-although-a-free-chunk-fits", ln,
                                     "request of %d bytes went to the slow path (collection) while a free chunk of %d bytes existed" % (size, self.maxfree_before))
                        if seenP:
                            S["slow"] += 1
                            req.write("slow %d %s\n" % (size, pend["marks"]))
                            g = "-"
                            if growth is not None:
                                g = str(growth[1]) if growth[2] else "fail"
                            a = "oom" if oom else "%d %d" % (hi, off)
                            exp.write("%d %s G %s A %s\n" % (ln, pend["expR"], g, a))
                        else:
                            S["forced"] += 1
                            req.write("gc %s\n" % pend["marks"])
                            exp.write("%d %s\n" % (pend["ln"], pend["expR"]))
                            req.write("A %d\n" % size)
                            exp.write("%d %d %d\n" % (ln, hi, off))
                        pend, seenP, growth = None, False, None
                    else:
                        req.write("A %d\n" % size)
                        exp.write("%d %d %d\n" % (ln, hi, off))
                    if oom:
                        S["ooms"] += 1
                        oom = False
                    else:
                        self.carve(hi, off, size, ln)
                elif c == "o":
                    f = line.split()
                    cur_objs[-1].append((int(f[1]), int(f[2]), f[3] == "1"))
                elif c == "f":
                    f = line.split()
                    cur_fl[-1][2].append((int(f[1]), int(f[2])))
                elif c == "S":
                    f = line.split()
                    if int(f[1]) == 0:
                        cur_objs = []
                        S["gcs"] += 1
                        self.gc_ln = ln
                        # largest chunk that is free, by the implementation's own account, when this collection starts
                        self.maxfree_before = max([0] + [max([0] + [e - b for b, e in zip(st, en)]) for (st, en) in self.free])
                    cur_objs.append([])
                    if int(f[1]) >= len(self.heaps) or self.heaps[int(f[1])] != int(f[2]):
                        self.bad("heap-chain:size-changed", ln, line.strip())
                elif c == "T":
                    f = line.split()
                    if int(f[1]) == 0:
                        cur_fl = []
                    cur_fl.append((int(f[2]), int(f[3]), []))
                elif c == "R":
                    f = line.split()
                    mf, sf = int(f[1]), int(f[2])
                    if pend is not None:      # two collections with no allocation in between ((gc) called explicitly)
                        S["forced"] += 1
                        req.write("gc %s\n" % pend["marks"])
                        exp.write("%d %s\n" % (pend["ln"], pend["expR"]))
                        seenP, growth = False, None
                    pend = self.gc_block(cur_objs, cur_fl, mf, sf, req, exp, self.gc_ln)
                    cur_objs = cur_fl = None
                elif c == "P":
                    seenP = True
                elif c == "G":
                    f = line.split()
                    growth = (int(f[1]), int(f[2]), f[3] == "1")
                    if growth[2]:
                        # spec oracle for the growth policy, on the implementation's own data: a segment is added only when
                        # no free chunk fits the request after the collection, or the bytes the collection did not free
                        # exceed RATIO of the total (no_growth_when_fits / gc_then_fits at the implementation level)
                        if self.last_gc is not None:
                            mfa, unm, tot = self.last_gc
                            if mfa >= growth[0] and self.ratio[1] * (tot - unm) <= self.ratio[0] * tot:
                                self.bad("growth:not-required-by-policy", ln,
                                         "heap grown by %d bytes for a request of %d although a free chunk of %d bytes was available after the "
                                         "collection and only %d of %d bytes were retained" % (growth[1], growth[0], mfa, tot - unm, tot))
                        if growth[1] % self.unit or growth[1] < growth[0] + self.hdr:
                            # grow_formula_aligned at the implementation level: chunk sizes are multiples of the unit, so a
                            # segment whose size is not one cannot be tiled exactly (its tail belongs to no chunk)
                            self.bad("growth:segment-size-not-aligned-or-too-small", ln,
                                     "new segment of %d bytes for a request of %d: %s" % (growth[1], growth[0],
                                     "%d bytes at its end belong to no chunk (size mod %d)" % (growth[1] % self.unit, self.unit) if growth[1] % self.unit
                                     else "the request does not fit behind the header"))
                        self.add_heap(growth[1])
                        S["grows"] += 1
                        S["big_grows"] = S.get("big_grows", 0) + (1 if 3 * growth[0] > 4 * self.heaps[-2] else 0)
                elif c == "X":
                    oom = True
                elif c == "N":
                    f = line.split()
                    if not started and self.image is not None:
                        started = True
                        self.start_image(int(f[1]), ln, req, exp)
                    elif not started:
                        started = True
                        self.add_heap(int(f[1]))
                        S["init_total"] = int(f[1])
                        self.first_max = int(f[2])
                        req.write("init %d %d\n" % (int(f[1]), int(f[2])))
                        exp.write("%d ok\n" % ln)
                elif line.startswith("AUDIT FAIL"):
                    S["audit_fail"] += 1
                    self.bad("audit:" + re.sub(r"[^a-z]+", "-", line[11:].strip().lower()), ln, line.strip())
                # "C", "AUDIT OK", "D"... lines carry nothing the replay needs
        if cur_objs is not None:
            # the trace stops inside a collection (crash or endless loop in the sweep): the objects the sweep was
            # about to walk over are still compared with the allocation history
            for h in range(min(len(cur_objs), len(self.heaps))):
                hist = self.live[h]
                diff = [(o, hist.get(o), s) for (o, s, m) in cur_objs[h] if hist.get(o) != s][:3]
                if diff:
                    self.bad("heap-walk:objects-differ-from-allocation-history", self.gc_ln,
                             "last (unfinished) collection, heap %d: (offset, allocated size, size the sweep sees): %s" % (h, diff))
        if pend is not None and self.loadreq is None:      # a collection at the very end (no allocation followed): still check it
            req.write("gc %s\n" % pend["marks"])
            exp.write("%d %s\n" % (pend["ln"], pend["expR"]))
        req.close(); exp.close()
        S["final_total"] = sum(self.heaps)
        S["sizes"] = len(S["sizes"])
        return S

    def start_image(self, msize, ln, req, exp):
        """inv_after_image_load as a CHECKED premise on the real heap: the segment sexp_load_image built by hand
        (gc_heap.c sexp_gc_packed_heap_make) = the packed objects, then ONE free chunk that ends exactly at the segment
        end; aligned; inside the malloc'ed block; at least the free size asked for.  The model's packed_heap_make (its
        arithmetic translated from the source) must give the same segment: request `image`."""
        im = self.image
        hdr, unit, packed, hsize = self.hdr, self.unit, im["packed"], im["hsize"]
        p = hdr
        for (o, s) in im["objs"]:
            if o != p or s <= 0 or s % unit:
                self.bad("image:packed-objects-do-not-tile", ln, "the objects read from the image should tile [%d,%d); the first sweep sees (%d,%d) at position %d" % (hdr, hdr + packed, o, s, p))
                break
            p = o + s
        else:
            if p != hdr + packed:
                self.bad("image:packed-objects-do-not-tile", ln, "the objects read from the image end at %d, the image at %d" % (p, hdr + packed))
        if hsize % unit or hsize < hdr + packed:
            self.bad("image:segment-size-not-aligned-or-too-small", ln, "segment of %d bytes for %d packed bytes" % (hsize, packed))
        if hsize > msize:
            self.bad("image:segment-exceeds-the-malloced-block", ln, "heap->size %d, block handed to sexp_make_heap %d" % (hsize, msize))
        if hsize - hdr - packed < im["free"]:
            self.bad("image:free-space-smaller-than-requested", ln, "%d bytes free behind the image, %d asked for" % (hsize - hdr - packed, im["free"]))
        self.heaps.append(hsize)
        rest = hsize - hdr - packed
        self.free.append(([hdr + packed], [hsize]) if rest > 0 else ([], []))
        self.live.append(dict(im["objs"]))
        self.stats["init_total"] = hsize
        self.first_max = 0
        req.write("image %d 0 %s\n" % (im["free"], ",".join(str(s) for (o, s) in im["objs"]) or "-"))
        exp.write("%d %d %d F %s\n" % (ln, msize, hsize, ("%d:%d" % (hdr + packed, rest)) if rest > 0 else "-"))

    def gc_block(self, objs, fls, mf, sf, req, exp, ln):
        """spec oracles on the implementation's sweep input/output; returns the pending model request"""
        S = self.stats
        if objs is None or fls is None or len(objs) != len(self.heaps) or len(fls) != len(self.heaps):
            self.bad("trace:incomplete-sweep-log", ln, "sweep log does not list every heap")
            objs = (objs or []) + [[] for _ in self.heaps]
            fls = (fls or []) + [(0, 0, []) for _ in self.heaps]
        # (d) objects the sweep walks over = allocation history (survivors of the last sweep + allocations since)
        req.write("objs\n")
        exp.write("%d %s\n" % (ln, "|".join((",".join("%d:%d:0" % (o, s) for (o, s, m) in objs[h]) or "-") for h in range(len(self.heaps)))))
        live_bytes = 0
        unmarked = 0
        for h in range(len(self.heaps)):
            S["objs_checked"] += len(objs[h])
            hist = self.live[h]
            if len(hist) != len(objs[h]) or any(hist.get(o) != s for (o, s, m) in objs[h]):
                seen = {o: s for (o, s, m) in objs[h]}
                d1 = sorted((o, s, seen.get(o)) for o, s in hist.items() if seen.get(o) != s)[:3]
                d2 = sorted((o, hist.get(o), s) for o, s in seen.items() if hist.get(o) != s)[:3]
                self.bad("heap-walk:objects-differ-from-allocation-history", ln,
                         "heap %d: (offset, allocated size, size the sweep sees): %s %s" % (h, d1, d2))
            surv = [(o, s) for (o, s, m) in objs[h] if m]
            live_bytes += sum(s for o, s in surv)
            unmarked += sum(s for (o, s, m) in objs[h] if not m)
            # (b) after the sweep: sentinel, sorted, coalesced, aligned, exact tiling with the survivors
            so, ss, fl = fls[h]
            if so != 0 or ss != 0:
                self.bad("sweep:sentinel-damaged", ln, "heap %d free list starts with (%d,%d)" % (h, so, ss))
            prev_end = None
            for (o, s) in fl:
                if s <= 0 or s % self.unit or o % self.unit:
                    self.bad("sweep:free-chunk-bad-size", ln, "heap %d chunk (%d,%d)" % (h, o, s))
                if prev_end is not None and o < prev_end:
                    self.bad("sweep:free-list-unsorted-or-overlapping", ln, "heap %d chunk (%d,%d) after end %d" % (h, o, s, prev_end))
                if prev_end is not None and o == prev_end:
                    self.bad("sweep:adjacent-free-chunks-not-coalesced", ln, "heap %d chunk (%d,%d)" % (h, o, s))
                prev_end = o + s
            chunks = sorted([(o, s, 0) for o, s in fl] + [(o, s, 1) for o, s in surv])
            p = self.hdr
            for (o, s, k) in chunks:
                if o != p:
                    self.bad("sweep:heap-not-tiled" + (":gap-leaked" if o > p else ":overlap"), ln,
                             "heap %d: after the sweep free chunks + marked objects leave %s [%d,%d)" % (h, "a hole" if o > p else "an overlap", min(o, p), max(o, p)))
                    break
                p = o + s
            else:
                if p != self.heaps[h]:
                    self.bad("sweep:heap-not-tiled:end", ln, "heap %d: chunks end at %d, heap at %d" % (h, p, self.heaps[h]))
            # merge statistics (which coalescing cases this sweep exercised)
            fset = {o: s for o, s in fl}
            # reset the impl-side oracles from the implementation's own post-sweep state
            self.free[h] = ([o for o, s in fl], [o + s for o, s in fl])
            self.live[h] = dict(surv)
        self.last_gc = (max([0] + [s for h in range(len(self.heaps)) for (o, s) in fls[h][2]]), unmarked, sum(self.heaps))
        if sf >= 0 and sf != unmarked:
            self.bad("sweep:sum-freed-differs-from-unmarked-bytes", ln, "sum_freed %d, unmarked bytes %d" % (sf, unmarked))
        if live_bytes > S["peak_live"]:
            S["peak_live"] = live_bytes
        self.totals.append((sum(self.heaps), live_bytes))
        if self.from_init and not self.emitting and self.start_gc is None and self.starts:
            self.start_gc = self.starts.pop(0)
        if self.start_gc is not None and not self.emitting and S["gcs"] - 1 >= self.start_gc:
            self.loadreq = "load %d %s\n" % (self.first_max, "|".join(
                "%d;%s;%s" % (self.heaps[h], ",".join("%d:%d" % (o, s) for o, s in fls[h][2]) or "-",
                              ",".join("%d:%d" % (o, s) for (o, s, m) in objs[h] if m) or "-") for h in range(len(self.heaps))))
        marks = "|".join((",".join(str(o) for (o, s, m) in objs[h] if m) or "-") for h in range(len(self.heaps)))
        flx = "|".join((",".join("%d:%d" % (o, s) for o, s in fls[h][2]) or "-") for h in range(len(self.heaps)))
        return dict(marks=marks, expR="R %d %s F %s" % (mf, sf if sf >= 0 else "*", flx), ln=ln)


def compare(exppath, anspath, partial=False):
    """first divergence between expected (from the implementation's trace) and the model's answers"""
    n = 0
    with open(exppath) as e, open(anspath) as a:
        for le in e:
            la = a.readline()
            if partial and not la.endswith("\n"):
                return None
            n += 1
            ln, _, want = le.rstrip("\n").partition(" ")
            got = la.rstrip("\n")
            if want == got:
                continue
            if want.startswith("R ") and " * " in want:       # sum_freed not requested by the caller: not printed
                w = want.split(" ")
                g = got.split(" ")
                if len(w) == len(g):
                    g[2] = "*"
                    if w == g:
                        continue
            return dict(event=n, trace_line=int(ln), impl=want[:300], model=got[:300] if la else "<model stopped>")
    return None


def kind_of(div):
    w = div["impl"]
    if re.match(r"\d+ \d+ F ", w):
        return "image-heap"
    if w.startswith("R "):
        g = div["model"]
        if " G " in w:
            wr, _, wg = w.partition(" G ")
            gr, _, gg = g.partition(" G ")
            if wr != gr:
                return "sweep-result"
            if wg.split(" A ")[0] != gg.split(" A ")[0]:
                return "growth-decision"
            return "slow-path-offset"
        return "sweep-result"
    if ":" in w or w == "-":
        return "objects-at-sweep"
    return "alloc-offset"


# ----------------------------------------------------------------------------------------------- workloads
EMBED = os.path.join(HERE, "..", "harness", "embed_c10.c")


def workloads(thorough, rng=None):
    """(name, kind, chibi args / embed args, scheme args, steady?, window)
    kind "scm": harness/c10_workloads.scm under the scratch chibi-scheme (about 1.6 M allocations of start-up first);
    kind "emb": harness/embed_c10.c, a bare context with a small heap, replayed from the heap's creation."""
    ws = []
    if not thorough:
        ws.append(("scheme-all-phases", "scm", [], ["all", "150", "1"], False, ("windows", 7, 12000, 1600000)))
        emb = [("emb-hole-stream", [131072, 0, 4, 17, 16, 5], False), ("emb-steady", [65536, 0, 60000, 11, 150, 0], True), ("emb-cycles", [65536, 0, 60000, 12, 400, 1], False),
               ("emb-oom", [65536, 1500000, 50000, 13, 300, 2], False), ("emb-steady-big", [262144, 0, 60000, 14, 1500, 0], True),
               ("emb-growth-stream", [65536, 0, 4, 15, 16, 3], False), ("emb-policy-stream", [262144, 0, 0, 16, 16, 4], False)]
    else:
        for (nm, a, steady) in [("churn-small", ["churn", "600000", "1"], True), ("mixed-sizes", ["mixed", "150000", "2"], True),
                                ("bursty", ["bursty", "80", "3"], False), ("records-tables", ["records", "150000", "4"], True),
                                ("continuations", ["conts", "10000", "5"], True), ("ports-strings", ["ports", "8000", "6"], True),
                                ("growing", ["growing", "150000", "7"], False), ("big-objects", ["big", "40", "9"], False),
                                ("scheme-all-phases", ["all", "500", "10"], False)]:
            ws.append((nm, "scm", [], a, steady, ("windows", 8, 15000, 1600000)))
        ws.append(("small-initial-heap", "scm", ["-h", "256k"], ["mixed", "30000", "21"], False, ("windows", 4, 15000, 0)))
        emb = []
        for sd in range(10):
            emb.append(("emb-steady-%d" % sd, [65536 << (sd % 3), 0, 150000, 100 + sd, 100 + 150 * sd, 0], True))
            emb.append(("emb-cycles-%d" % sd, [65536 << (sd % 3), 0, 150000, 200 + sd, 200 + 100 * sd, 1], False))
            emb.append(("emb-oom-%d" % sd, [65536, 800000 + 300000 * sd, 100000, 300 + sd, 300, 2], False))
            if sd < 3:
                emb.append(("emb-policy-stream-%d" % sd, [262144 << sd, 0, 0, 500 + sd, 16, 4], False))
            if sd < 4:
                emb.append(("emb-hole-stream-%d" % sd, [65536 << sd, 0, 4 + 2 * sd, 600 + sd, 16, 5], False))
            if sd < 6:
                emb.append(("emb-growth-stream-%d" % sd, [65536 << (sd % 2), 0, 3 + sd % 3, 400 + sd, 16, 3], False))
    for (nm, a, steady) in emb:
        ws.append((nm, "emb", [str(x) for x in a], [], steady, ("all",)))
    ws.sort(key=lambda w: w[1] != "emb")          # the small complete replays first
    if rng is not None:
        # the histories depend on VERIF_SEED: every workload's own generator is seeded from ctx.rng
        out = []
        for (nm, kind, cargs, sargs, steady, window) in ws:
            sd = str(rng.randrange(1, 1000000))
            if kind == "emb":
                cargs = cargs[:3] + [sd] + cargs[4:]
            else:
                sargs = sargs[:2] + [sd]
            out.append((nm, kind, cargs, sargs, steady, window))
        ws = out
    return ws


def run_workload(d, name, kind, cargs, sargs, outdir, timeout=900, sweeplog=True, extra_env=None):
    trace = os.path.join(outdir, "c10-%s.trace" % name)
    env = B.chibi_env(d, {"CHIBI_VERIF_TRACE": trace, "CHIBI_VERIF_SWEEPLOG": "1" if sweeplog else "0", "CHIBI_VERIF_AUDIT": "1"})
    if extra_env:
        env.update(extra_env)
    if kind == "emb":
        exe = os.path.join(d, "embed_c10")
        if not os.path.exists(exe) or os.path.getmtime(exe) < os.path.getmtime(EMBED):
            B.cc_embed(d, EMBED, exe)
        cmd = [exe] + cargs
    else:
        cmd = [os.path.join(d, "chibi-scheme")] + cargs + ([os.path.abspath(WORKLOADS)] + sargs if sargs is not None else [])
    t0 = time.time()
    try:
        r = subprocess.run(cmd, capture_output=True, text=True, timeout=timeout, env=env)
        rc, out, err = r.returncode, r.stdout, r.stderr
    except subprocess.TimeoutExpired as e:
        rc, out, err = "TIMEOUT", "", ""
    replay = ("CHIBI_VERIF_TRACE=/var/tmp/c10.trace CHIBI_VERIF_SWEEPLOG=1 CHIBI_VERIF_AUDIT=1 LD_LIBRARY_PATH=%s CHIBI_MODULE_PATH=%s/lib "
              "CHIBI_IGNORE_SYSTEM_PATH=1 %s" % (d, d, " ".join(("'%s'" % c if " " in c else c) for c in cmd)))
    return dict(name=name, trace=trace, rc=rc, out=out, err=err, replay=replay, secs=time.time() - t0)


def prescan(trace):
    """number of allocations before each sweep (cumulative), and the total"""
    cum, n = [], 0
    with open(trace) as fh:
        for line in fh:
            c = line[0]
            if not line.endswith("\n"):
                break
            if c == "A":
                n += 1
            elif c == "R":
                cum.append(n)
    return cum, n


def _big_stack():
    """the extracted functions are not tail recursive and a filled segment is one run of up to a million objects"""
    import resource
    try:
        soft, hard = resource.getrlimit(resource.RLIMIT_STACK)
        resource.setrlimit(resource.RLIMIT_STACK, (hard, hard))
    except (ValueError, OSError):
        pass


def check_trace(ctx, exe, w, consts, steady, window=("suffix", 40000), model_timeout=600, dump_stats=None, image=None):
    """replay one workload's trace; window = ("prefix", n): from the heap's creation, n allocations;
    ("suffix", n): from the latest sweep that leaves at least n allocations to replay; ("all",)"""
    base = w["trace"][:-6]
    start_gc, max_allocs = None, None
    if window[0] == "prefix":
        max_allocs = window[1]
    elif window[0] == "suffix":
        cum, n = prescan(w["trace"])
        cands = [i for i, c in enumerate(cum) if n - c >= window[1]]
        if cands:
            start_gc = cands[-1]
        max_allocs = None
    elif window[0] == "windows":
        # ("windows", k, m, skip): the prefix from the heap's creation plus k windows of m allocations each, loaded from
        # the implementation's heap at sweeps spread evenly over the allocations after the first `skip`
        cum, n = prescan(w["trace"])
        k, m, skip = window[1], window[2], window[3]
        start_gc = [None]
        for j in range(k):
            target = skip + (n - skip) * j // max(k, 1)
            cands = [i for i, c in enumerate(cum) if c >= target]
            if cands and cands[0] not in start_gc:
                start_gc.append(cands[0])
        max_allocs = m
    rp = Replayer(w["trace"], base + ".req", base + ".exp", unit=consts["unit"], hdr=consts["hdr"], start_gc=start_gc, max_allocs=max_allocs,
                  ratio=consts.get("ratio", (3, 4)), image=image)
    S = rp.run()
    S["dumped_collections"] = rp.dumps.n_coll
    if dump_stats is not None:
        dump_stats["collections"] += rp.dumps.n_coll
        dump_stats["weak_objects"] += rp.dumps.n_weak
        dump_stats["live_ephemerons"] += rp.dumps.n_live_eph
        dump_stats["needed_fixpoint"] += rp.dumps.n_chain
    t0 = time.time()
    truncated = False
    with open(base + ".req") as fi, open(base + ".ans", "w") as fo:
        try:
            r = subprocess.run([exe], stdin=fi, stdout=fo, stderr=subprocess.PIPE, timeout=model_timeout, preexec_fn=_big_stack,
                               env=dict(os.environ, OCAMLRUNPARAM="l=4G"))
        except subprocess.TimeoutExpired:
            truncated = True
            r = subprocess.CompletedProcess([exe], 0, b"", b"")
    S["model_secs"] = round(time.time() - t0, 1)
    S["model_truncated"] = truncated
    S["windows"] = rp.windows + (1 if rp.from_init else 0)
    div = compare(base + ".exp", base + ".ans", partial=truncated) if r.returncode == 0 else dict(event=0, trace_line=0, impl="", model="driver died: %s" % r.stderr[-300:])
    name = w["name"]
    for (sig, ln, text) in rp.spec[:5]:
        ctx.violation(sig, input="workload %s, trace line %d" % (name, ln), expected="the heap invariant of C10 (spec oracle on the implementation's own trace)",
                      observed=text, replay=w["replay"] + "   # then inspect /var/tmp/c10.trace around line %d" % ln)
    audit = [l for l in w["err"].split("\n") if "VERIF-AUDIT FAIL" in l]
    if audit and not any(s.startswith("audit:") for s, _, _ in rp.spec):
        ctx.violation("audit:" + re.sub(r"[^a-z]+", "-", audit[0].split(":", 1)[-1].strip().lower()), input="workload %s" % name,
                      expected="VERIF audit passes after every sweep", observed=audit[0], replay=w["replay"])
    # heap bound of steady-state workloads (K-outer): see notes/C10.md for the derivation of the constant
    if steady and S["gcs"] > 0:
        bound = max(S["init_total"], 32 * (S["peak_live"] + S["max_req"]))
        S["bound"] = bound
        if S["final_total"] > bound:
            ctx.violation("steady-state:heap-exceeds-bound", input="workload %s" % name,
                          expected="total heap <= max(initial, 32*(peak live + largest request)) = %d" % bound,
                          observed="total heap %d with peak live %d after %d allocations, %d growths" % (S["final_total"], S["peak_live"], S["allocs"], S["grows"]),
                          replay=w["replay"] + "   # heap sizes: N and G lines of the trace")
    if div is not None:
        k = kind_of(div)
        if rp.spec or audit:
            ctx.note("trace refinement also diverges (%s) at trace line %d of %s" % (k, div["trace_line"], name))
        else:
            ctx.broken("trace-refinement:%s:%s" % (k, name),
                       "model and allocator diverge at trace line %d (event %d) but every spec oracle holds on the implementation's trace: impl=%s model=%s"
                       % (div["trace_line"], div["event"], div["impl"], div["model"]), replay=w["replay"])
    S["diverged"] = div
    return S


# ----------------------------------------------------------------------------------------------- weak objects
EMBED_WEAK = os.path.join(HERE, "..", "harness", "embed_c10_weak.c")


def chain_history(rng, m, perm=None, direct=False, live=True, extra_garbage=0):
    """A chain of m ephemerons e_1..e_m on a bare context: key k_1 is rooted (unless not live), the value v_i of e_i is
    the only path to k_(i+1) (v_i = (k_(i+1) . k_(i+1)), or k_(i+1) itself when `direct`), v_m is a leaf; every e_i is
    rooted.  So with k_1 alive EVERYTHING must survive, and the marks needed come only from the ephemeron fixpoint of
    sexp_mark_weak_extras, one link per round at worst.  The 3m objects are placed in the address order `perm` (a
    permutation of range(3m): position of k_1,v_1,e_1,k_2,...): 3m adjacent placeholders are allocated, and before
    each object is created the placeholder at its position is dropped and a collection run, so that first fit puts
    the object into that hole (the achieved addresses are verified by the caller).
    Returns (history text, names in creation order, perm)."""
    n = 3 * m
    if perm is None:
        perm = list(range(n))
        rng.shuffle(perm)
    names = []
    for i in range(1, m + 1):
        names += ["k%d" % i, "v%d" % i, "e%d" % i]
    pos = dict(zip(names, perm))
    slot = {nm: 40 + j for j, nm in enumerate(names)}
    ops = ["Z"] + ["H,%d" % j for j in range(n)]
    order = []

    def place(nm, op):
        ops.append("D,%d" % pos[nm]); ops.append("G"); ops.append(op); order.append(nm)
    for i in range(m, 0, -1):
        if i == m:
            place("v%d" % i, "K,%d" % slot["v%d" % i])
        elif direct:
            order.append("v%d" % i)            # v_i IS k_(i+1): no object of its own (its placeholder stays)
            slot["v%d" % i] = slot["k%d" % (i + 1)]
        else:
            place("v%d" % i, "C,%d,%d,%d" % (slot["v%d" % i], slot["k%d" % (i + 1)], slot["k%d" % (i + 1)]))
        place("k%d" % i, "K,%d" % slot["k%d" % i])
        place("e%d" % i, "E,%d,%d,%d" % (slot["e%d" % i], slot["k%d" % i], slot["v%d" % i]))
    # drop the construction roots: only k_1 and the ephemerons stay rooted
    for i in range(1, m + 1):
        ops.append("D,%d" % slot["v%d" % i])
        if i > 1 or not live:
            ops.append("D,%d" % slot["k%d" % i])
    for j in range(n):
        ops.append("D,%d" % j)                # the remaining placeholders
    ops += ["G", "W,%d" % (300 + extra_garbage), "G"]
    if live:                                    # then let the chain die from its head: the next collection breaks every link
        ops += ["D,%d" % slot["k1"], "G", "W,200", "G"]
    return "%d %s" % (64, ";".join(ops)), [o for o in order if not (direct and o.startswith("v") and o != "v%d" % m)], perm


def random_weak_history(rng, nops):
    """random mix of keys, pairs, ephemerons (also ephemerons as keys / values of ephemerons, cycles through S),
    drops, explicit and natural collections"""
    ns = 14
    ops = []
    for _ in range(nops):
        r = rng.randrange(100)
        i, a, b = rng.randrange(ns), rng.randrange(ns), rng.randrange(ns)
        if r < 18:
            ops.append("K,%d" % i)
        elif r < 34:
            ops.append("C,%d,%d,%d" % (i, a, b))
        elif r < 62:
            ops.append("E,%d,%d,%d" % (i, a, b))
        elif r < 70:
            ops.append("S,%d,%d" % (i, a))
        elif r < 86:
            ops.append("D,%d" % i)
        elif r < 95:
            ops.append("G")
        elif r < 98:
            ops.append("W,%d" % rng.randrange(50, 3000))
        else:
            ops.append("B,%d,%d" % (i, rng.randrange(2, 400)))
    ops.append("G")
    return "%d %s" % (ns, ";".join(ops))


def weak_histories(rng, thorough):
    """(name, text, check-of-achieved-layout or None)"""
    import itertools
    hs = []
    # every address order of the two-link chain's (e_1, v_1, e_2) decides which ephemeron the scan meets first and
    # whether the newly marked value lies before or behind the scan pointer; the other objects matter for reuse
    perms2 = list(itertools.permutations(range(6)))
    rng.shuffle(perms2)
    for j, perm in enumerate(perms2 if thorough else perms2[:40]):
        hs.append(("chain2-%s" % "".join(map(str, perm)),) + chain_history(rng, 2, list(perm), direct=(j % 4 == 3)))
    for j in range(400 if thorough else 40):
        m = 3 + j % 3
        hs.append(("chain%d-r%d" % (m, j),) + chain_history(rng, m, None, direct=(j % 5 == 4), live=(j % 7 != 6), extra_garbage=rng.randrange(0, 2000)))
    # descending / ascending ladders: the worst case for a single scan (one link per round)
    for m in (2, 4, 6) if not thorough else (2, 3, 4, 5, 6, 8):
        up = list(range(3 * m))
        hs.append(("ladder-up-%d" % m,) + chain_history(rng, m, up))
        hs.append(("ladder-down-%d" % m,) + chain_history(rng, m, up[::-1]))
        # ephemerons descending, each value ABOVE its ephemeron, keys on top
        perm = [0] * (3 * m)
        for i in range(m):
            perm[3 * i + 2] = (m - 1 - i) * 2            # e_i
            perm[3 * i + 1] = (m - 1 - i) * 2 + 1        # v_i right above e_i
            perm[3 * i] = 2 * m + i                      # k_i
        hs.append(("ladder-value-above-%d" % m,) + chain_history(rng, m, perm))
    for j in range(300 if thorough else 30):
        hs.append(("random-%d" % j, random_weak_history(rng, rng.randrange(20, 120)), None, None))
    return hs


def run_weak_embed(ctx, d, exe, consts, outdir, total):
    """ephemeron workloads on a bare context (harness/embed_c10_weak.c): audit of closedness after EVERY collection
    (the harness's own heap walk + the CHIBI_VERIF_AUDIT hook), the premise / conclusion of sweep_inv_closed on the
    four heap dumps of every collection, and the allocator trace through the model like every embedding workload"""
    hexe = os.path.join(d, "embed_c10_weak")
    if not os.path.exists(hexe) or os.path.getmtime(hexe) < os.path.getmtime(EMBED_WEAK):
        B.cc_embed(d, EMBED_WEAK, hexe)
    hs = weak_histories(ctx.rng, ctx.thorough)
    heap = 262144
    batch = 60
    agg = dict(histories=0, collections=0, weak_objects=0, live_ephemerons=0, needed_fixpoint=0, layouts_achieved=0, layouts_wanted=0, allocs=0)

    def run_batch(lines, tag, dump=True):
        trace = os.path.join(outdir, "c10-weak-%s.trace" % tag)
        env = B.chibi_env(d, {"CHIBI_VERIF_TRACE": trace, "CHIBI_VERIF_SWEEPLOG": "1", "CHIBI_VERIF_AUDIT": "1"})
        if dump:
            env["CHIBI_VERIF_DUMP"] = "all"
        try:
            r = subprocess.run([hexe, str(heap)], input="\n".join(lines) + "\n", capture_output=True, text=True, timeout=120, env=env)
            return trace, r.returncode, r.stdout, r.stderr
        except subprocess.TimeoutExpired as e:
            return trace, "TIMEOUT", (e.stdout or b"").decode("utf-8", "replace") if isinstance(e.stdout, bytes) else (e.stdout or ""), ""

    def replay_of(text):
        return ("printf '%%s\\n' '%s' | CHIBI_VERIF_AUDIT=1 CHIBI_VERIF_SWEEPLOG=1 CHIBI_VERIF_DUMP=all CHIBI_VERIF_TRACE=/var/tmp/c10.trace LD_LIBRARY_PATH=%s %s %d"
                "   # WAUDIT FAIL / VERIF-AUDIT FAIL lines name the live object and the freed storage its slot designates" % (text, d, hexe, heap))

    def confirm(name, text, sig, observed):
        """a failure inside a batch: re-run the history ALONE in a fresh process; that is the replay when it fails too"""
        _, rc, out, err = run_batch([text], "confirm", dump=False)
        alone = [l for l in out.split("\n") if l.startswith("WAUDIT FAIL")] + [l for l in err.split("\n") if "VERIF-AUDIT FAIL" in l]
        if alone or rc != 0:
            ctx.violation(sig, input="ephemeron history %s (bare context, heap %d): %s" % (name, heap, text),
                          expected="after every collection every slot (strong, weak, ephemeron value) of every live object designates a live object",
                          observed=(alone[0] if alone else "rc=%s" % rc), replay=replay_of(text))
            return True
        return False

    reported = 0
    for b0 in range(0, len(hs), batch):
        part = hs[b0:b0 + batch]
        tag = "b%d" % (b0 // batch)
        trace, rc, out, err = run_batch([h[1] for h in part], tag)
        lines = out.split("\n")
        fails = {}
        addrs = {}
        for l in lines:
            if l.startswith("WAUDIT FAIL"):
                m = re.match(r"WAUDIT FAIL hist=(\d+) ", l)
                fails.setdefault(int(m.group(1)), []).append(l)
            elif l.startswith("A "):
                f = l.split()
                addrs[int(f[1])] = [tuple(int(x) for x in e.split(":")) for e in f[2].split(",")] if len(f) > 2 else []
        done = "DONE" in out
        batchfile = os.path.join(outdir, "c10-weak-%s.hist" % tag)
        open(batchfile, "w").write("\n".join(h[1] for h in part) + "\n")
        batch_replay = ("CHIBI_VERIF_AUDIT=1 CHIBI_VERIF_SWEEPLOG=1 CHIBI_VERIF_DUMP=all CHIBI_VERIF_TRACE=/var/tmp/c10.trace LD_LIBRARY_PATH=%s %s %d < %s"
                        % (d, hexe, heap, batchfile))
        for hi_, ls in sorted(fails.items()):
            if reported >= 4:
                break
            name, text = part[hi_][0], part[hi_][1]
            if not confirm(name, text, "closedness:live-object-references-freed-storage", ls[0]):
                ctx.violation("closedness:live-object-references-freed-storage", input="ephemeron history %s = line %d of %s: %s" % (name, hi_ + 1, batchfile, text),
                              expected="after every collection every slot (strong, weak, ephemeron value) of every live object designates a live object",
                              observed=ls[0], replay=batch_replay)
            reported += 1
        hook = [l for l in err.split("\n") if "VERIF-AUDIT FAIL" in l]
        if hook and not fails and reported < 4:
            ctx.violation("audit:" + re.sub(r"[^a-z]+", "-", hook[0].split(":", 1)[-1].strip().lower()), input="ephemeron histories %s" % batchfile,
                          expected="VERIF audit passes after every sweep", observed=hook[0], replay=batch_replay)
            reported += 1
        if (rc != 0 or not done) and not fails and not hook:
            # find the history the process died in
            k = sum(1 for l in lines if l.startswith("H "))
            name, text = part[min(k, len(part) - 1)][0], part[min(k, len(part) - 1)][1]
            if not confirm(name, text, "workload-crash:weak-history", "rc=%s" % rc):
                ctx.violation("workload-crash:weak-histories", input="ephemeron histories %s (died in line %d)" % (batchfile, k + 1), expected="exit 0",
                              observed="rc=%s %s" % (rc, err[-300:]), replay=batch_replay)
            reported += 1
        # achieved layouts: the objects of a chain history must sit in the address order asked for
        for j, h in enumerate(part):
            if h[2] is None or j not in addrs:
                continue
            names, perm = h[2], h[3]
            nplace = len(perm)
            a = addrs[j]
            # ids: fillers are not recorded; placeholders are ids 1..nplace, then the objects in creation order
            if len(a) < nplace + len(names):
                continue
            agg["layouts_wanted"] += 1
            base = a[0][2]
            unit = consts["unit"]
            want_names = ["k%d" % (i // 3 + 1) if i % 3 == 0 else ("v%d" % (i // 3 + 1) if i % 3 == 1 else "e%d" % (i // 3 + 1)) for i in range(nplace)]
            posn = dict(zip(want_names, perm))
            ok = all(a[i][1] == a[0][1] and a[i][2] == base + unit * i for i in range(nplace))
            for idx, nm in enumerate(names):
                e = a[nplace + idx]
                ok = ok and e[1] == a[0][1] and e[2] == base + unit * posn[nm]
            if ok:
                agg["layouts_achieved"] += 1
        agg["histories"] += len(part)
        if os.path.exists(trace):
            w = dict(name="weak-%s" % tag, trace=trace, rc=rc, out="", err="", secs=0.0,
                     replay=batch_replay)
            try:
                S = check_trace(ctx, exe, w, consts, False, window=("all",), model_timeout=(90 if not ctx.thorough else 600), dump_stats=agg)
                for k in total:
                    total[k] += S[k]
                ctx.count(S["allocs"] + S["gcs"] + S["grows"], key=None)
                for i in range(S["gcs"]):
                    ctx.count(0, key=("weak-" + tag, "gc", i))
                agg["allocs"] += S["allocs"]
                ctx.cov["traces_validated_against_impl"] += 1
            except Exception as e:
                import traceback
                ctx.broken("trace-analysis:weak-" + tag, "the trace of %s could not be analysed: %s %s" % (batchfile, e, traceback.format_exc()[-600:]), replay=batch_replay)
        if not os.environ.get("VERIF_KEEP_TRACES"):
            for ext in (".trace", ".req", ".exp", ".ans"):
                try:
                    os.unlink(trace[:-6] + ext)
                except OSError:
                    pass
        if ctx.violations and not ctx.thorough:
            break
    ctx.sample(dict(workload="weak-embed", **agg), maxn=20)
    ctx.cov["weak"] = agg
    if agg["layouts_wanted"] and agg["layouts_achieved"] * 10 < agg["layouts_wanted"] * 9:
        ctx.broken("weak:layouts-not-achieved", "only %d of %d ephemeron chains were placed in the address order asked for: the placement technique of "
                   "harness/embed_c10_weak.c (placeholders, drop, collect, first fit) no longer works on this allocator" % (agg["layouts_achieved"], agg["layouts_wanted"]))
    if agg["histories"] and (agg["needed_fixpoint"] == 0 or agg["live_ephemerons"] == 0) and not ctx.violations:
        ctx.broken("weak:no-chains-observed", "no collection of the ephemeron workloads had an ephemeron whose key was marked only by the fixpoint pass: %s" % agg)


def run_weak_scheme(ctx, d, exe, consts, outdir, total):
    """(chibi weak) under the real interpreter: harness/c10_workloads.scm `weak` (ephemeron chains allocated in random
    orders between garbage, re-verified all the time: a value swept under a live ephemeron is reported by the
    workload itself as C10-WEAK-CORRUPT), with the audit hook at every collection and the four heap dumps of some of
    the workload's own collections (the premise / conclusion of sweep_inv_closed on the interpreter's real heap:
    contexts, stacks, the file-descriptor table's ephemerons, ...)."""
    seed = str(ctx.rng.randrange(1, 1000000))
    n = "6000" if ctx.thorough else "1500"
    # collections of the start-up (deterministic for a build): the dumps are taken after them
    w0 = run_workload(d, "weak-startup", "scm", [], ["churn", "1", seed], outdir, timeout=300, sweeplog=False)
    c0 = 0
    if os.path.exists(w0["trace"]):
        with open(w0["trace"]) as fh:            # "C gc=<the collecting context's own count> alloc=.."; the dump schedule uses that count
            for l in fh:
                if l.startswith("C gc="):
                    c0 = max(c0, int(l.split()[1][3:]))
        os.unlink(w0["trace"])
    offs = [1, 2, 3, 12, 40, 90, 200, 330] if not ctx.thorough else [1, 2, 3, 4, 5, 6] + list(range(10, 1500, 27))
    dumps = ",".join(str(c0 + j) for j in offs[:64])
    # no sweep log here (a collection after every step: hundreds of collections of a 60 k-object heap): audit hook + dumps + self-check
    w = run_workload(d, "scheme-weak", "scm", [], ["weak", n, seed], outdir, timeout=600, sweeplog=False, extra_env={"CHIBI_VERIF_DUMP": dumps})
    w["replay"] = "CHIBI_VERIF_DUMP=%s %s" % (dumps, w["replay"].replace("CHIBI_VERIF_SWEEPLOG=1", "CHIBI_VERIF_SWEEPLOG=0"))
    if not os.path.exists(w["trace"]):
        ctx.broken("workload:scheme-weak", "workload left no trace: rc=%s %s" % (w["rc"], w["err"][-300:]))
        return
    what = "c10_workloads.scm weak %s %s" % (n, seed)

    class Sink:
        spec = []

        def bad(self, sig, ln, text):
            if len(self.spec) < 20:
                self.spec.append((sig, ln, text))
    sink = Sink()
    dc = DumpChecker(sink)
    ngc = nalloc = 0
    with open(w["trace"]) as fh:
        ln = 0
        for line in fh:
            ln += 1
            if not line.endswith("\n"):
                break
            c = line[0]
            if dc.active or c == "D":
                dc.feed(line, ln)
                if c == "D" and line.startswith("D post"):
                    ngc += 1
            elif c == "C":
                ngc += 1
            elif c == "A":
                nalloc += 1
    for (sig, ln, text) in sink.spec[:4]:
        ctx.violation(sig, input="%s, trace line %d" % (what, ln), expected="closedness clause of C10 on the heap dump (premise / conclusion of sweep_inv_closed)",
                      observed=text, replay=w["replay"] + "   # then inspect /var/tmp/c10.trace around line %d" % ln)
    audit = [l for l in w["err"].split("\n") if "VERIF-AUDIT FAIL" in l]
    if audit:
        ctx.violation("audit:" + re.sub(r"[^a-z]+", "-", audit[0].split(":", 1)[-1].strip().lower()), input=what,
                      expected="VERIF audit passes after every sweep", observed=audit[0], replay=w["replay"])
    if "C10-WEAK-CORRUPT" in w["out"]:
        line = [l for l in w["out"].split("\n") if "C10-WEAK-CORRUPT" in l][0]
        ctx.violation("closedness:ephemeron-value-freed-under-live-key", input=what,
                      expected="the value of an ephemeron whose key is alive is the object it was created with (and after the key's death: that object or #f)",
                      observed=line[:300], replay=w["replay"])
    elif w["rc"] != 0:
        ctx.violation("workload-crash:scheme-weak", input=what, expected="exit 0 (ephemeron chains built, collected and re-verified)",
                      observed="rc=%s %s" % (w["rc"], w["err"][-400:]), replay=w["replay"])
    agg = dict(collections_run=ngc, allocations=nalloc, collections=dc.n_coll, weak_objects=dc.n_weak, live_ephemerons=dc.n_live_eph, needed_fixpoint=dc.n_chain)
    ctx.count(nalloc + ngc, key=None)
    for i in range(ngc):
        ctx.count(0, key=("scheme-weak", "gc", i))
    ctx.cov["weak_scheme"] = agg
    ctx.sample(dict(workload="scheme-weak", **agg), maxn=20)
    if (agg["collections"] == 0 or agg["live_ephemerons"] == 0) and w["rc"] == 0:
        ctx.broken("weak:scheme-dumps-empty", "the dumped collections (%s) of the Scheme weak workload show no live ephemeron: %s" % (dumps, agg))
    if not os.environ.get("VERIF_KEEP_TRACES"):
        try:
            os.unlink(w["trace"])
        except OSError:
            pass


# ----------------------------------------------------------------------------------------------- round 3: image-loaded heaps
def image_prescan(trace, hdr, packed):
    """heap->size and the packed objects as the FIRST sweep of an image-loaded process sees them"""
    hsize, objs, inblock = None, [], False
    with open(trace) as fh:
        for line in fh:
            c = line[0]
            if c == "S":
                f = line.split()
                if int(f[1]) == 0 and hsize is None:
                    hsize, inblock = int(f[2]), True
                else:
                    break
            elif c == "o" and inblock:
                f = line.split()
                if int(f[1]) < hdr + packed:
                    objs.append((int(f[1]), int(f[2])))
                else:
                    break
            elif c in "TR" and inblock:
                break
    return hsize, objs


def run_image(ctx, d, exe, consts, outdir, total):
    """The second way a context comes into being: chibi-scheme -d dumps an image, chibi-scheme [-h free] -i loads it
    (gc_heap.c sexp_load_image builds the segment by hand).  The loaded heap must satisfy Inv from the first moment
    (a collection is forced at the first allocation so that the sweep log and the audit see the heap exactly as it was
    built), the model's packed_heap_make must build the same segment, and the whole run is replayed through the
    model FROM the image state (no start-up allocations: the trace is complete)."""
    img = os.path.join(outdir, "c10.img")
    r = subprocess.run([os.path.join(d, "chibi-scheme"), "-d", img], capture_output=True, text=True, timeout=120, env=B.chibi_env(d))
    if r.returncode != 0 or not os.path.exists(img):
        # sexp_save_image packs the live objects into a segment made by sexp_gc_packed_heap_make(total size, 0): when that
        # segment is not an exact tiling of the packed objects the packer runs out of room / the walk fails
        ctx.violation("image:packed-heap-cannot-be-built", input="chibi-scheme -d %s (dump the freshly started interpreter as an image)" % img,
                      expected="an image is written: the segment made for the packed objects holds exactly them (packed_heap_make_inv with free = 0)",
                      observed="rc=%s %s" % (r.returncode, (r.stdout + r.stderr)[-300:]),
                      replay="LD_LIBRARY_PATH=%s CHIBI_MODULE_PATH=%s/lib CHIBI_IGNORE_SYSTEM_PATH=1 %s/chibi-scheme -d /var/tmp/c10.img" % (d, d, d))
        return
    import struct
    raw = open(img, "rb").read(48)
    fsize = os.path.getsize(img)
    packed = struct.unpack_from("<Q", raw, 24)[0] if len(raw) == 48 else -1
    if packed != fsize - 48 or packed % consts["unit"]:
        ctx.broken("image:header-shape", "image header: size field %d, file %d bytes (expected a 48-byte header followed by the packed heap)" % (packed, fsize))
        return
    rng = ctx.rng
    # requested free sizes: none (the branch free_size == 0: a FULL heap), below the minimum, unaligned, small, large
    frees = [None, 1, 31, 33, rng.randrange(40, 5000), 100000 + rng.randrange(1, 31), 1 << 20, (1 << 21) + 32 * rng.randrange(1, 1000) + rng.randrange(0, 32)]
    if ctx.thorough:
        frees += [32, 64, 96, 8 << 20, 3 << 20] + [rng.randrange(1, 4 << 20) for _ in range(10)]
    else:
        keep = [None, 1] + rng.sample(frees[2:], 3)
        frees = [f for f in frees if f in keep]
    agg = dict(loads=0, first_sweeps=0, allocs=0, full_replays=0)
    for j, free in enumerate(frees):
        name = "image-h%s" % ("none" if free is None else free)
        cargs = ([] if free is None else ["-h", str(free)]) + ["-i", img]
        sargs = [["mixed", "2500"], ["churn", "20000"], ["records", "4000"], ["growing", "6000"]][j % 4] + [str(rng.randrange(1, 1000000))]
        light = (not ctx.thorough and j != 1) or (ctx.thorough and j % 3 == 2)
        if light:
            # core-only workload given with -e (loading harness/c10_workloads.scm costs 500 000 allocations of imports):
            # lists, vectors and strings of seed-dependent sizes, a sliding set of survivors
            m1, m2, n = rng.randrange(3, 97), rng.randrange(3, 97), rng.randrange(3000, 8000)
            expr = ("(let loop ((i 0) (keep '())) (if (< i %d) (loop (+ i 1) (let ((x (cond ((= 0 (modulo i 7)) (make-vector (modulo (* i %d) 200) i)) "
                    "((= 1 (modulo i 7)) (make-string (modulo (* i %d) 300) #\\a)) ((= 2 (modulo i 7)) (number->string (* i i i))) (else (list i i i))))) "
                    "(if (= 0 (modulo i 50)) (cons x (if (> (length keep) 40) '() keep)) keep)))))" % (n, m1, m2))
            w = run_workload(d, name, "scm", cargs + ["-e", expr], None, outdir, timeout=(40 if not ctx.thorough else 300), extra_env={"CHIBI_VERIF_GC_EARLY": "1", "CHIBI_VERIF_GC": "at:1"})
            sargs = ["-e", "<core-only loop n=%d>" % n]
        else:
            w = run_workload(d, name, "scm", cargs, sargs, outdir, timeout=(60 if not ctx.thorough else 300), extra_env={"CHIBI_VERIF_GC_EARLY": "1", "CHIBI_VERIF_GC": "at:1"})
        w["replay"] = "CHIBI_VERIF_GC_EARLY=1 CHIBI_VERIF_GC=at:1 " + w["replay"] + "   # image: %s -d %s" % (os.path.join(d, "chibi-scheme"), img)
        if not os.path.exists(w["trace"]):
            ctx.broken("workload:" + name, "workload left no trace: rc=%s %s" % (w["rc"], w["err"][-300:]))
            continue
        agg["loads"] += 1
        if w["rc"] != 0:
            ctx.violation("workload-crash:" + name, input="%s, image of %d packed bytes" % (" ".join(cargs + sargs), packed), expected="exit 0",
                          observed="rc=%s %s" % (w["rc"], w["err"][-400:]), replay=w["replay"])
        hsize, objs = image_prescan(w["trace"], consts["hdr"], packed)
        if hsize is None:
            ctx.broken("image:no-sweep-seen", "the trace of %s has no sweep log (the forced first collection did not run): %s" % (name, w["err"][-200:]), replay=w["replay"])
            continue
        agg["first_sweeps"] += 1
        try:
            S = check_trace(ctx, exe, w, consts, False, window=("all",), model_timeout=(120 if not ctx.thorough else 600),
                            image=dict(free=free or 0, packed=packed, hsize=hsize, objs=objs))
        except Exception as e:
            import traceback
            ctx.broken("trace-analysis:" + name, "the trace of %s could not be analysed: %s %s" % (name, e, traceback.format_exc()[-600:]), replay=w["replay"])
            continue
        if S["model_truncated"]:
            ctx.note("model replay of %s stopped by the time limit; the part replayed agrees" % name)
        else:
            agg["full_replays"] += 1
        for k in total:
            total[k] += S[k]
        agg["allocs"] += S["allocs"]
        ctx.count(S["allocs"] + S["gcs"] + S["grows"], key=None)
        ctx.count(1, key=("image", "free", free))
        for i in range(S["gcs"]):
            ctx.count(0, key=(name, "gc", i))
        ctx.cov["traces_validated_against_impl"] += 1
        ctx.sample(dict(workload=name, packed=packed, requested_free=free, segment=hsize, allocations=S["allocs"], collections=S["gcs"], growths=S["grows"],
                        diverged=S["diverged"], model_s=S["model_secs"]), maxn=30)
        if not os.environ.get("VERIF_KEEP_TRACES"):
            for ext in (".trace", ".req", ".exp", ".ans"):
                try:
                    os.unlink(w["trace"][:-6] + ext)
                except OSError:
                    pass
        if ctx.violations and not ctx.thorough:
            break
    ctx.cov["image"] = agg


# ----------------------------------------------------------------------------------------------- round 3: the embedder's roots
EMBED_ROOTS = os.path.join(HERE, "..", "harness", "embed_c10_roots.c")


def roots_exe(d):
    from gen import c10_layout
    hdr, nmem, members = c10_layout.regen(d)
    hexe = os.path.join(d, "embed_c10_roots")
    if (not os.path.exists(hexe) or os.path.getmtime(hexe) < os.path.getmtime(EMBED_ROOTS) or os.path.getmtime(hexe) < os.path.getmtime(hdr)):
        B.cc_embed(d, EMBED_ROOTS, hexe, extra=["-I" + d])
    return hexe, nmem


class RootsGen:
    """histories for harness/embed_c10_roots.c in bare mode.  The generator tracks which ids are certainly alive (it only
    uses those as operands) by the SPEC: an id is usable while it is preserved, in an open frame, or the last created."""

    def __init__(self, rng):
        self.rng, self.ops, self.nid = rng, [], 0
        self.pres = []            # spec view of the preservatives (ids, most recent first; duplicates possible)
        self.frames = []
        self.last = None

    def new(self, kind, *args):
        self.nid += 1
        self.ops.append("%s %d %s" % (kind, self.nid, " ".join(str(a) for a in args)))
        self.last = self.nid
        return self.nid

    def usable(self):
        u = set(self.pres) | {x for f in self.frames for x in f if x}
        if self.last:
            u.add(self.last)
        return sorted(u)

    def P(self, i):
        self.ops.append("P %d" % i); self.pres.insert(0, i)

    def R(self, i):
        self.ops.append("R %d" % i)
        if i in self.pres:
            self.pres.remove(i)

    def G(self):
        self.ops.append("G")

    def leaf(self, lo=8, hi=400):
        return self.new("K", self.rng.randrange(lo, hi))


def roots_histories(rng, thorough):
    """[(name, heap, ops, steady?)]"""
    hs = []
    # (1) stack order / queue order / middle-out, several batch sizes; every release followed by a collection at the end of the batch
    g = RootsGen(rng)
    for rnd in range(12 if not thorough else 60):
        k = rng.choice([1, 2, 3, 5, 8, 13])
        ids = []
        for _ in range(k):
            i = g.leaf(); g.P(i); ids.append(i)
        g.ops.append("T"); g.last = None
        g.G()
        order = rnd % 4
        rel = ids[::-1] if order == 0 else (list(ids) if order == 1 else (rng.sample(ids, len(ids)) if order == 2 else ids[::-1]))
        for n, i in enumerate(rel):
            g.R(i)
            if order == 3 or n == len(rel) - 1 or rng.randrange(3) == 0:
                g.G()                      # order 3: stack order with a collection after EVERY release
        g.ops.append("W %d" % rng.randrange(10, 3000))
    hs.append(("roots-orders", 262144, g.ops, False))
    # (2) random: pairs / vectors over preserved objects, double preservation, release of never-preserved and of dead objects,
    #     nested frames, mutation of slots
    g = RootsGen(rng)
    depth = 0
    for step in range(700 if not thorough else 6000):
        r = rng.randrange(100)
        u = g.usable()
        if r < 22:
            i = g.leaf()
            if rng.randrange(4):
                g.P(i)
        elif r < 34 and len(u) >= 1:
            a, b = rng.choice(u), rng.choice(u + [0])
            i = g.new("C", a, b)
            if rng.randrange(3):
                g.P(i)
        elif r < 38 and u:
            nslots = rng.randrange(1, 6)
            i = g.new("V", nslots)
            g.P(i)
            for k in range(rng.randrange(0, nslots + 1)):
                g.ops.append("S %d %d %d" % (i, k, rng.choice(u)))
        elif r < 46 and g.pres:
            g.P(rng.choice(g.pres))                         # the same object preserved twice
        elif r < 70 and g.pres:
            # release: the head (stack order) twice as often as an arbitrary element
            i = g.pres[0] if rng.randrange(3) else rng.choice(g.pres)
            g.R(i)
        elif r < 73:
            # release of an object that is not preserved (alive through a frame / the temp root), or of #f (an id not yet created)
            cand = [x for x in u if x not in g.pres] + [g.nid + 1]
            g.R(rng.choice(cand))
        elif r < 79 and depth < 3 and u:
            a, b = rng.choice(u), rng.choice(u + [0])
            g.ops.append("[ %d %d" % (a, b)); g.frames.append([a, b]); depth += 1
        elif r < 85 and depth > 0:
            g.ops.append("]"); g.frames.pop(); depth -= 1
        elif r < 88:
            g.ops.append("T"); g.last = None
        elif r < 91:
            g.ops.append("W %d" % rng.randrange(10, 4000))
        else:
            g.G()
    while depth > 0:
        g.ops.append("]"); g.frames.pop(); depth -= 1
    g.G()
    for i in list(g.pres):
        g.R(i)
    g.ops.append("T"); g.G()
    hs.append(("roots-random", 262144, g.ops, False))
    # (3) steady state: a constant number of preserved objects, renewed in batches; released in stack order (most recently
    #     preserved first), queue order, or at random; live data stays below `live * size`
    for mode in (("stack", "queue", "random") if thorough else ("stack", rng.choice(["queue", "random"]))):
        g = RootsGen(rng)
        size, live, batch = 16384, 40, 8
        base = []
        for _ in range(live):
            i = g.leaf(size, size + 1); g.P(i); base.append(i)
        for rnd in range(450 if not thorough else 3000):
            ids = []
            for _ in range(batch):
                i = g.leaf(size, size + 1); g.P(i); ids.append(i)
            if mode == "stack":
                rel = ids[::-1]                                # the batch just preserved, newest first: always the head
            elif mode == "queue":
                rel, base = base[:batch], base[batch:] + ids   # the oldest ones
            else:
                pool = base + ids
                rel = rng.sample(pool, batch)
                base = [x for x in pool if x not in rel][:live]
            for i in rel:
                g.R(i)
            if rnd % 50 == 49:
                g.ops.append("T"); g.last = None; g.G()
        g.ops.append("T"); g.G()
        hs.append(("roots-steady-" + mode, 1 << 20, g.ops, True))
    return hs


def run_roots(ctx, d, exe, consts, outdir, total):
    """sexp_preserve_object / sexp_release_object / sexp_gc_preserve frames on a bare context: (K-inner) the list
    SEXP_G_PRESERVATIVES after every operation = the extracted model's list; (spec) its multiset = preservations minus
    releases; (policy justification) after every explicit collection the tracked objects that are still objects of the
    heap are EXACTLY those in the model's closure of the current roots (release_unroots / rooted_survives at the
    implementation level); steady-state bound on the renewing histories; the allocator trace through the model."""
    hexe, nmem = roots_exe(d)
    agg = dict(histories=0, ops=0, pres_compared=0, collections_checked=0, objects_judged=0, freed_as_expected=0, struct_members=nmem)
    for (name, heap, ops, steady) in roots_histories(ctx.rng, ctx.thorough):
        hist = os.path.join(outdir, "c10-%s.hist" % name)
        open(hist, "w").write("\n".join(ops) + "\n")
        trace = os.path.join(outdir, "c10-%s.trace" % name)
        env = B.chibi_env(d, {"CHIBI_VERIF_TRACE": trace, "CHIBI_VERIF_SWEEPLOG": "1", "CHIBI_VERIF_AUDIT": "1"})
        cmd = [hexe, "bare", str(heap), "0", hist]
        replay = "CHIBI_VERIF_TRACE=/var/tmp/c10.trace CHIBI_VERIF_SWEEPLOG=1 CHIBI_VERIF_AUDIT=1 LD_LIBRARY_PATH=%s %s" % (d, " ".join(cmd))
        try:
            r = subprocess.run(cmd, capture_output=True, text=True, timeout=(90 if not ctx.thorough else 300), env=env)
            rc, out, err = r.returncode, r.stdout, r.stderr
        except subprocess.TimeoutExpired as e:
            rc, out, err = "TIMEOUT", (e.stdout or b"").decode("utf-8", "replace") if isinstance(e.stdout, bytes) else (e.stdout or ""), ""
        agg["histories"] += 1
        agg["ops"] += len(ops)
        if rc != 0 or "DONE" not in out:
            ctx.violation("workload-crash:" + name, input="root history %s (%d operations)" % (hist, len(ops)), expected="exit 0",
                          observed="rc=%s %s" % (rc, err[-300:]), replay=replay)
        judge_roots(ctx, exe, name, hist, ops, out, replay, agg)
        w = dict(name=name, trace=trace, rc=rc, out=out[-200:], err=err, secs=0.0, replay=replay)
        if os.path.exists(trace):
            try:
                S = check_trace(ctx, exe, w, consts, steady, window=("all",), model_timeout=(120 if not ctx.thorough else 600))
                for k in total:
                    total[k] += S[k]
                ctx.count(S["allocs"] + S["gcs"] + S["grows"], key=None)
                for i in range(S["gcs"]):
                    ctx.count(0, key=(name, "gc", i))
                ctx.cov["traces_validated_against_impl"] += 1
                ctx.sample(dict(workload=name, operations=len(ops), allocations=S["allocs"], collections=S["gcs"], growths=S["grows"], peak_live=S["peak_live"],
                                final_heap=S["final_total"], bound=S.get("bound"), diverged=S["diverged"]), maxn=30)
            except Exception as e:
                import traceback
                ctx.broken("trace-analysis:" + name, "the trace of %s could not be analysed: %s %s" % (name, e, traceback.format_exc()[-600:]), replay=replay)
        if not os.environ.get("VERIF_KEEP_TRACES"):
            for ext in (".trace", ".req", ".exp", ".ans"):
                try:
                    os.unlink(trace[:-6] + ext)
                except OSError:
                    pass
        if ctx.violations and not ctx.thorough:
            break
    ctx.cov["roots"] = agg
    if agg["collections_checked"] == 0 or agg["freed_as_expected"] == 0:
        ctx.broken("roots:nothing-judged", "the root histories produced no collection in which a released object was expected to be recycled: %s" % agg)


def judge_roots(ctx, exe, name, hist, ops, out, replay, agg):
    """walks the harness output next to the operations; see run_roots"""
    lines = out.split("\n")
    pos = 0

    def nxt(prefix):
        nonlocal pos
        while pos < len(lines):
            l = lines[pos]; pos += 1
            if l.startswith(prefix):
                return l
            if l.startswith("MAUDIT FAIL"):
                maudit.append(l)
        return None
    maudit = []
    tmp = nxt("TMP ")
    pres0 = nxt("PRES ")
    if tmp is None or pres0 is None:
        ctx.broken("roots:no-output:" + name, "the harness printed no TMP / PRES line")
        return
    tmpaddr = tmp.split()[1]
    addr = {}            # id -> address text
    owner = {}           # address -> id
    edges = {}           # id -> list of ids
    slots = {}           # id -> {slot index: id} (for S)
    nslots = {}          # id -> number of slots (pair 2, vector n, bytes 0)
    balance = {}         # address -> preservations minus releases (spec)
    last = None
    reqs = ["roots reset"]
    checks = []          # per request: None | ("pres", op index, impl list) | ("closure", op index, {id: alive})
    frames = []
    init = [] if pres0.split()[1] == "-" else pres0.split()[1].split(",")
    for a in reversed(init):
        reqs.append("roots P " + a); checks.append(None)
        balance[a] = balance.get(a, 0) + 1
    reported = 0
    persig = {}

    def fail(sig, k, expected, observed):
        nonlocal reported
        persig[sig] = persig.get(sig, 0) + 1
        if persig[sig] <= 2:
            ctx.violation(sig, input="root history %s, operation %d (`%s`)" % (hist, k + 1, ops[k]), expected=expected, observed=observed,
                          replay=replay + "   # operation %d of the history file; PRES / L lines of the output" % (k + 1))
        reported += 1

    def graph_text():
        parts = []
        if last is not None and last in addr:
            parts.append("%s>%s" % (tmpaddr, addr[last]))
        for i, ch in edges.items():
            if i in addr and owner.get(addr[i]) == i:
                t = [addr[c] for c in ch if c in addr and owner.get(addr[c]) == c]
                if t:
                    parts.append("%s>%s" % (addr[i], ",".join(t)))
        return ";".join(parts) or "-"
    for k, op in enumerate(ops):
        f = op.split()
        c = f[0]
        if c in "KCV":
            l = nxt("N ")
            if l is None:
                break
            g = l.split()
            i = int(g[1])
            if g[2] == "i":
                continue
            addr[i] = g[2]; owner[g[2]] = i; last = i
            edges[i] = [int(x) for x in f[2:4] if int(x)] if c == "C" else []
            slots[i] = dict(enumerate(int(x) for x in f[2:4])) if c == "C" else {}
            nslots[i] = 2 if c == "C" else (max(int(f[2]), 1) if c == "V" else 0)
        elif c == "S":
            i, kk, a = int(f[1]), int(f[2]), int(f[3])
            if i in edges and 0 <= kk < nslots.get(i, 0):       # the harness ignores a slot index outside the object
                slots.setdefault(i, {})[kk] = a
                edges[i] = [x for x in slots[i].values() if x]
        elif c in "PR":
            l = nxt("PRES ")
            if l is None:
                break
            impl = [] if l.split()[1] == "-" else l.split()[1].split(",")
            i = int(f[1])
            a = addr.get(i)
            if a is None:
                # an id that was never created: the harness passes #f, which is in no list; the model step is the identity
                reqs.append("roots R 9:9" if c == "R" else "roots frames"); checks.append(("pres", k, impl) if c == "R" else None)
            else:
                reqs.append("roots %s %s" % (c, a)); checks.append(("pres", k, impl))
                if c == "P":
                    balance[a] = balance.get(a, 0) + 1
                elif balance.get(a, 0) > 0:
                    balance[a] -= 1
            # spec: the multiset of the list = preservations minus releases
            cnt = {}
            for x in impl:
                cnt[x] = cnt.get(x, 0) + 1
            want = {x: n for x, n in balance.items() if n > 0}
            if cnt != want:
                d1 = sorted(x for x in set(cnt) | set(want) if cnt.get(x, 0) != want.get(x, 0))
                fail("roots:preservatives-list-not-the-multiset-of-preservations", k,
                     "SEXP_G_PRESERVATIVES holds every object as often as it was preserved minus released",
                     "object %s is %d time(s) in the list, expected %d" % (d1[0], cnt.get(d1[0], 0), want.get(d1[0], 0)))
                balance = dict(cnt)                 # resynchronise: one report per fault
            agg["pres_compared"] += 1
        elif c == "[":
            vs = [addr[int(x)] for x in f[1:3] if int(x) and int(x) in addr]
            frames.append(vs)
            reqs.append("roots push " + (",".join(vs) or "-")); checks.append(None)
        elif c == "]":
            if frames:
                frames.pop()
                reqs.append("roots pop"); checks.append(None)
        elif c == "T":
            last = None
        elif c == "G":
            l = nxt("L ")
            if l is None:
                break
            t = l.split()[1]
            alive = {} if t == "-" else {int(x.split(":")[0]): x.split(":")[1] == "1" for x in t.split(",")}
            reqs.append("roots fixed " + tmpaddr); checks.append(None)
            reqs.append("roots closure " + graph_text())
            checks.append(("closure", k, alive, {i: owner.get(addr.get(i)) == i for i in alive}))     # who owns each address NOW
            for i, al in alive.items():
                if not al:
                    if owner.get(addr.get(i)) == i:
                        del owner[addr[i]]
                    edges.pop(i, None)
    nxt("DONE")
    for l in maudit[:2]:
        ctx.violation("closedness:struct-member-designates-freed-storage" if "struct-member" in l else "closedness:slot-designates-freed-storage",
                      input="root history %s" % hist, expected="every reference held by a live object designates the start of a live object",
                      observed=l, replay=replay)
    try:
        outs = ctx.run_model(exe, reqs)
    except Exception as e:
        ctx.broken("roots-model:" + name, "the model driver failed on the root operations: %s" % e)
        return
    answers = outs[1:]
    for (chk, ans) in zip(checks, answers):
        if chk is None:
            continue
        if chk[0] == "pres":
            impl = chk[2]
            model = [] if ans == "-" else ans.split(",")
            if impl != model and reported == 0:
                ctx.broken("roots-refinement:preservatives-order:" + name,
                           "operation %d (`%s`): SEXP_G_PRESERVATIVES = %s, the model's list = %s (same multiset: a behaviour change that keeps the property)"
                           % (chk[1] + 1, ops[chk[1]], impl[:6], model[:6]), replay=replay)
                reported += 1
        else:
            k, alive = chk[1], chk[2]
            reach = set() if ans == "-" else set(ans.split(","))
            agg["collections_checked"] += 1
            for i, al in sorted(alive.items()):
                a = addr.get(i)
                # identity, not address: when a later object of the history lives at i's address, i itself must be gone
                want = a in reach and chk[3].get(i, False)
                agg["objects_judged"] += 1
                if al and not want:
                    fail("roots:released-object-not-recycled", k,
                         "after the collection the storage of object %d (%s) is a free chunk: it is not reachable from the current roots (preservatives %s...)" % (i, a, "model closure"),
                         "object %d at %s is still an object of the heap after the collection although it was released / never rooted and nothing reachable refers to it" % (i, a))
                elif want and not al:
                    fail("roots:rooted-object-freed", k, "object %d (%s) is reachable from the current roots and survives the collection" % (i, a),
                         "its storage is a free chunk after the collection")
                elif not al:
                    agg["freed_as_expected"] += 1


def members_history(rng, thorough):
    """operations for embed_c10_roots in eval mode: objects of many kinds made by Scheme code, kept alive ONLY from the C side
    (preserve_object, frames, environment bindings) across collections and garbage, then released"""
    exprs = [
        # uncaught errors returned to the C program: exceptions whose stack trace is referenced by nothing else
        "(begin (define (c10-f x) (if (< x %d) (+ 1 (c10-f (+ x 1))) (car x))) (c10-f 0))" % rng.randrange(3, 12),
        "(let loop ((i 0) (acc '())) (if (< i %d) (cons i (loop (+ i 1) acc)) (vector-ref (vector 1 2) i)))" % rng.randrange(3, 9),
        "(begin (define (c10-g l) (map (lambda (x) (/ 1 x)) l)) (c10-g (list 1 2 0 3)))",
        "(raise (list 'c10 \"payload\" (vector 1 2 3)))",
        "(error \"c10 message\" (list 1 2) (string-append \"ir\" \"ritant\"))",
        "(with-exception-handler (lambda (e) (car e)) (lambda () (raise-continuable (list 1 2))))",
        "(string->symbol 5)",
        # procedures with source information, closures
        "(lambda (x) (+ x 1))", "(let ((k (make-vector 10 'a)) (s (string-copy \"closed over\"))) (lambda (i) (vector-ref k i) s))",
        "(begin (define (c10-h a b . c) (if a b c)) c10-h)", "car", "(lambda args (apply + args))",
        # ports
        "(open-input-string \"hello world from a string port\")", "(let ((p (open-output-string))) (write '(a b c) p) p)", "(current-output-port)",
        "(open-input-bytevector (bytevector 1 2 3 4))", "(open-input-file \"%s\")" % os.path.abspath(WORKLOADS),
        # ports over file-descriptor objects: the File-Descriptor object is referenced by the port's fd member (and weakly by the fd table)
        "(open-input-file-descriptor (open \"%s\" open/read))" % os.path.abspath(WORKLOADS), "(open-output-file-descriptor (open \"/dev/null\" open/write))",
        # environments, type objects, parameters, promises, macros
        "(current-environment)", "(begin (define-record-type c10-point (make-c10-point x y) c10-point? (x c10-point-x) (y c10-point-y set-c10-point-y!)) c10-point)",
        "(make-c10-point (list 1 2) (vector 3 4))", "(make-parameter (list 5 6))", "(delay (+ 1 2))", "(make-promise (list 'done))",
        "(call-with-current-continuation (lambda (k) k))", "(let-syntax ((m (syntax-rules () ((_ a) (list a a))))) (lambda () (m 1)))",
        # data
        "(/ 1 3)", "(expt 7 80)", "(exact->inexact 1/3)", "(make-rectangular 1 2)", "(string->symbol \"a-long-symbol-name-made-at-run-time\")",
        "(list->string (list #\\a #\\x3bb #\\b))", "(make-bytevector 100 7)", "(vector (list 1 2) (vector 3) \"s\")", "(list (cons 1 2) (cons 3 (cons 4 '())))",
        "(let ((l (list 1 2 3))) (set-cdr! (cddr l) l) l)", "(string-copy \"a string\")", "(make-vector 300 (list 'shared))",
    ]
    ops = ["E 1 (import (scheme base) (scheme write) (scheme lazy) (srfi 9) (only (chibi filesystem) open open/read open/write))", "T"]
    nid = 1
    kept = []
    rounds = 3 if not thorough else 12
    for rnd in range(rounds):
        order = list(exprs)
        rng.shuffle(order)
        depth = 0
        for e in order:
            nid += 1
            ops.append("E %d %s" % (nid, e))
            how = rng.randrange(10)
            if how < 6:
                ops.append("P %d" % nid); kept.append(nid)
            elif how < 8:
                ops.append("B c10-kept-%d %d" % (nid, nid))
            elif depth < 3:
                ops.append("[ %d 0" % nid); depth += 1
            ops.append("T")
            if rng.randrange(6) == 0:
                ops.append("W %d" % rng.randrange(1000, 60000))
            if rng.randrange(5) == 0:
                ops.append("G")
        ops += ["G", "W %d" % rng.randrange(50000, 200000), "G"]
        while depth > 0:
            ops.append("]"); depth -= 1
        # release part of what is kept, stack order first
        rel = kept[::-1][:len(kept) // 2] if rnd % 2 == 0 else rng.sample(kept, len(kept) // 2)
        for i in rel:
            ops.append("R %d" % i); kept.remove(i)
        ops += ["G", "W 30000", "G"]
    return ops, kept


def run_members_eval(ctx, d, outdir):
    """closedness by the STRUCT-MEMBER view (gen/c10_layout.py: every member of C type sexp of struct sexp_struct, from
    clang's AST, not from the type table) on a full evaluation context whose interesting objects — exceptions with stack
    traces, procedures with source information, ports, environments, type objects, promises, continuations — are kept
    alive only by the embedding C program across collections."""
    hexe, nmem = roots_exe(d)
    ops, kept = members_history(ctx.rng, ctx.thorough)
    hist = os.path.join(outdir, "c10-members.hist")
    open(hist, "w").write("\n".join(ops) + "\n")
    cmd = [hexe, "eval", str(2 << 20), "0", hist]
    replay = "CHIBI_VERIF_AUDIT=1 LD_LIBRARY_PATH=%s CHIBI_MODULE_PATH=%s/lib CHIBI_IGNORE_SYSTEM_PATH=1 %s   # MAUDIT FAIL lines" % (d, d, " ".join(cmd))
    try:
        r = subprocess.run(cmd, capture_output=True, text=True, timeout=(150 if not ctx.thorough else 600), env=B.chibi_env(d, {"CHIBI_VERIF_AUDIT": "1"}))
        rc, out, err = r.returncode, r.stdout, r.stderr
    except subprocess.TimeoutExpired as e:
        rc, out, err = "TIMEOUT", (e.stdout or b"").decode("utf-8", "replace") if isinstance(e.stdout, bytes) else (e.stdout or ""), ""
    lines = out.split("\n")
    ma = [l for l in lines if l.startswith("MAUDIT FAIL")]
    seen = set()
    for l in ma:
        m = re.search(r"(struct-member|type-table) ([\w.]+( slot)?)", l)
        key = m.group(0) if m else l[:40]
        if key in seen or len(seen) >= 3:
            continue
        seen.add(key)
        ctx.violation(("closedness:struct-member-designates-freed-storage:" + m.group(2)) if (m and m.group(1) == "struct-member") else "closedness:slot-designates-freed-storage",
                      input="embedding history %s (evaluation context; objects kept alive from C by sexp_preserve_object / gc_preserve frames / environment bindings)" % hist,
                      expected="every member of C type sexp of every live object is an immediate or designates the start of a live object",
                      observed=l, replay=replay)
    hook = [l for l in err.split("\n") if "VERIF-AUDIT FAIL" in l]
    if hook and not ma:
        ctx.violation("audit:" + re.sub(r"[^a-z]+", "-", hook[0].split(":", 1)[-1].strip().lower()), input="embedding history %s" % hist,
                      expected="VERIF audit passes after every sweep", observed=hook[0], replay=replay)
    if (rc != 0 or "DONE" not in out) and not ma and not hook:
        ctx.violation("workload-crash:members-eval", input="embedding history %s" % hist, expected="exit 0", observed="rc=%s %s" % (rc, err[-300:]), replay=replay)
    # rooted => alive
    dead_rooted = []
    released = set()
    keptnow = set()
    li = 0
    gl = [l for l in lines if l.startswith("L ")]
    for op in ops:
        f = op.split()
        if f[0] == "P":
            keptnow.add(int(f[1]))
        elif f[0] == "R":
            keptnow.discard(int(f[1]))
        elif f[0] == "G" and li < len(gl):
            t = gl[li].split()[1]; li += 1
            if t != "-":
                for x in t.split(","):
                    i, al = x.split(":")
                    if al == "0" and int(i) in keptnow:
                        dead_rooted.append((int(i), li))
    if dead_rooted:
        ctx.violation("roots:rooted-object-freed", input="embedding history %s" % hist, expected="an object held by sexp_preserve_object survives every collection",
                      observed="object %d is a free chunk after collection %d" % dead_rooted[0], replay=replay)
    xs = [l.split() for l in lines if l.startswith("X ")]
    traced = [x for x in xs if int(x[2].split("=")[1]) >= 2]
    ngc = len(gl)
    nobj = sum(1 for l in lines if l.startswith("N ") and not l.endswith(" i"))
    agg = dict(operations=len(ops), objects=nobj, exceptions=len(xs), exceptions_with_stack_trace=len(traced), collections=ngc, struct_members=nmem, audit_failures=len(ma))
    ctx.cov["members_eval"] = agg
    ctx.sample(dict(workload="members-eval", **agg), maxn=30)
    ctx.count(ngc * max(nobj, 1), key=None)
    for i in range(ngc):
        ctx.count(0, key=("members-eval", "gc", i))
    if rc == 0 and (len(traced) < 2 or ngc < 4 or nobj < 30):
        ctx.broken("members:workload-not-realised", "the embedding workload kept too little alive to mean anything: %s" % agg, replay=replay)


def judge_holes(ctx, name, w):
    """hole stream (embed_c10 mode 5): the implementation-level reading of fast_path_count / exact_fit_refilled.  After a
    collection that left `exact` holes of exactly one object of the class (capacity `cap` objects in all, counted by the
    harness on the public free lists) the next `cap` allocations of that size must all be served without a collection and
    without a new segment, and then no chunk that can take one may be left."""
    rounds = 0
    for line in w["out"].split("\n"):
        if not line.startswith("HOLES "):
            continue
        f = dict(kv.split("=") for kv in line.split()[1:])
        rounds += 1
        cap, done, exact, gcs = int(f["cap"]), int(f["refilled"]), int(f["exact"]), int(f["collections"])
        h0, h1 = f["heaps"].split("/")
        ctx.count(done, key=(name, "holes", f["round"]), nontrivial=True)
        if done != cap or gcs != 0 or h0 != h1 or f["left"] != "0":
            ctx.violation("recycle:free-holes-not-refilled", input="%s round %s: full heap of %s-byte objects, every other one dropped and collected: %d holes of exactly %s bytes, "
                          "capacity %d objects" % (name, f["round"], f["size"], exact, f["size"], cap),
                          expected="the next %d allocations of %s bytes are served from the free lists: no collection, no new segment, no usable chunk left (fast_path_count)" % (cap, f["size"]),
                          observed="%d served before the first collection/growth; collections=%d, segments %s -> %s, usable chunk left=%s" % (done, gcs, h0, h1, f["left"]),
                          replay=w["replay"] + "   # prints: " + line)
        elif exact < 100:
            ctx.broken("hole-stream:not-realised", "workload %s round %s produced only %d exact-fit holes (%s)" % (name, f["round"], exact, line))
    if rounds == 0 and w["rc"] == 0:
        ctx.broken("hole-stream:not-realised", "workload %s printed no HOLES line" % name)


def guarded_build(ctx, limit=300):
    """The repository's make runs the freshly built chibi-scheme (chibi-ffi on the .stub files): with a damaged
    allocator that can hang for ever.  So the shared scratch build runs in a child session under a time limit;
    when it does not finish (or fails because that chibi-scheme crashes), the core (chibi-scheme,
    libchibi-scheme.so) that make builds first is still there and the embedding workloads run against it.
    Returns (dir, complete?, why not)."""
    import signal
    code = ("import sys; sys.path.insert(0, %r); from vlib import build as B; print(B.build('default'))" % os.path.dirname(HERE))
    p = subprocess.Popen([sys.executable, "-c", code], stdout=subprocess.PIPE, stderr=subprocess.PIPE, text=True, start_new_session=True)
    why = ""
    try:
        out, err = p.communicate(timeout=limit)
        if p.returncode == 0 and out.strip():
            return out.strip().split("\n")[-1], True, ""
        why = "make failed: " + err[-1200:]
    except subprocess.TimeoutExpired:
        try:
            os.killpg(p.pid, signal.SIGKILL)
        except OSError:
            pass
        p.wait()
        why = "make did not finish in %d s" % limit
    d = os.path.join(B.SCRATCH, "default-%s" % B.source_hash())
    if os.path.exists(os.path.join(d, "chibi-scheme")) and os.path.exists(os.path.join(d, "libchibi-scheme.so")):
        return d, False, why
    raise B.BuildError("the scratch build failed and left no chibi-scheme binary: " + why)


CORPUS = os.path.join(HERE, "..", "corpus", "C10")


def selftest(ctx, exe, consts, outdir):
    """corpus first: a small recorded trace of the unchanged allocator must replay without any disagreement, and
    four planted faults in copies of it must each be flagged by the spec oracle meant for them (so a check that
    has gone blind does not pass silently)."""
    good = os.path.join(CORPUS, "good-small.trace")
    if not os.path.exists(good):
        ctx.broken("corpus:missing", "corpus/C10/good-small.trace not found")
        return
    lines = open(good).read().split("\n")

    def variant(name, edit):
        ls = list(lines)
        edit(ls)
        pth = os.path.join(outdir, "c10-selftest-%s.trace" % name)
        open(pth, "w").write("\n".join(ls))
        rp = Replayer(pth, pth[:-6] + ".req", pth[:-6] + ".exp", unit=consts["unit"], hdr=consts["hdr"])
        rp.run()
        return pth, rp

    def nth(ls, pred, k):
        idx = [i for i, l in enumerate(ls) if pred(l)]
        return idx[min(k, len(idx) - 1)]

    # the recorded trace itself
    pth, rp = variant("good", lambda ls: None)
    with open(pth[:-6] + ".req") as fi, open(pth[:-6] + ".ans", "w") as fo:
        subprocess.run([exe], stdin=fi, stdout=fo, timeout=300)
    div = compare(pth[:-6] + ".exp", pth[:-6] + ".ans")
    ctx.count(rp.stats["allocs"] + rp.stats["gcs"], key=("corpus", "good-small"))
    if rp.spec or div:
        ctx.broken("corpus:good-small", "the recorded trace of the unchanged allocator no longer checks: oracles=%s divergence=%s" % (rp.spec[:2], div))

    def drop_f(ls):
        del ls[nth(ls, lambda l: l.startswith("f "), 5)]

    def grow_f(ls):
        i = nth(ls, lambda l: l.startswith("f "), 3)
        f = ls[i].split()
        ls[i] = "f %s %d" % (f[1], int(f[2]) + 64)

    def dup_a(ls):
        i = nth(ls, lambda l: l.startswith("A "), 40)
        ls.insert(i + 1, ls[i])

    def size_o(ls):
        i = nth(ls, lambda l: l.startswith("o "), 30)
        f = ls[i].split()
        ls[i] = "o %s %d %s" % (f[1], int(f[2]) + 32, f[3])

    for name, edit, want in [("lost-chunk", drop_f, "sweep:heap-not-tiled"), ("chunk-too-big", grow_f, "sweep:"),
                             ("double-allocation", dup_a, "alloc:not-inside-free-memory"),
                             ("object-size-changed", size_o, "heap-walk:objects-differ-from-allocation-history")]:
        pth, rp = variant(name, edit)
        ctx.count(1, key=("corpus", name))
        if not any(sig.startswith(want) for sig, _, _ in rp.spec):
            ctx.broken("selftest:" + name, "a planted fault (%s) in the recorded trace was not flagged by the spec oracles: %s" % (name, rp.spec[:3]))
    for f in os.listdir(outdir):
        if f.startswith("c10-selftest-"):
            os.unlink(os.path.join(outdir, f))


def model_consts(ctx, exe):
    u, h, m = ctx.run_model(exe, ["consts"])[0].split()
    return dict(unit=int(u), hdr=int(h), min_obj=int(m))


def run(ctx):
    ctx.cov["rule"] = ("a case is one allocator event of a real chibi-scheme run (allocation, sweep, growth decision, out-of-memory) replayed through "
                       "the extracted model; distinct by (workload, event kind, request size or sweep number); non-trivial: every sweep, growth and "
                       "slow-path event, and allocations whose size class is new for the workload")
    from gen import c10_consts
    d, complete, why = guarded_build(ctx)
    if not complete:
        ctx.broken("build:incomplete", "the repository's make (which runs the fresh chibi-scheme on the .stub files) did not complete (%s); "
                                       "only the embedding workloads were run, against the core library that was built" % why)
    if "CHIBI_VERIF_SWEEPLOG" not in open(os.path.join(d, "gc.c")).read():
        ctx.broken("hook-missing", "gc.c of %s has no CHIBI_VERIF_SWEEPLOG hook: apply fixes/hook-C10-sweeplog.patch (guarded, add-only); "
                                   "without it the traces carry no sweep logs and nothing can be replayed" % B.REPO)
        return
    try:
        vals = c10_consts.regen(ctx, d)
        ctx.note("(G) constants from the headers: %s" % {k: vals[k] for k in ("unit_sz", "hdr_sz", "min_obj", "ratio", "factor")})
        for what in vals["shape_problems"]:
            ctx.broken("source-shape:" + what, "gc.c no longer has the text the model mirrors for: %s (see gen/c10_consts.py SHAPES)" % what)
    except Exception as e:
        ctx.broken("regen:C10_Consts", str(e))
        return
    ctx.coq_obligations("Properties_C10")
    exe = ctx.extract("C10")
    if exe is None:
        return
    consts = model_consts(ctx, exe)
    from fractions import Fraction
    fr = Fraction(float.fromhex(vals["ratio"]))
    consts["ratio"] = (fr.numerator, fr.denominator)
    outdir = os.path.join(B.SCRATCH, "c10-traces")
    os.makedirs(outdir, exist_ok=True)
    for f in os.listdir(outdir):
        os.unlink(os.path.join(outdir, f))
    selftest(ctx, exe, consts, outdir)
    total = dict(allocs=0, gcs=0, slow=0, grows=0, ooms=0)
    skip = os.environ.get("VERIF_C10_SKIP", "").split(",")       # developer switch (validation of single parts); never set by ./check
    def prof(what):
        if os.environ.get("VERIF_C10_PROFILE"):
            sys.stderr.write("C10 profile: %s done at %.0fs\n" % (what, time.time() - ctx.t0))
    prof("setup")
    try:
        if "roots" not in skip:
            run_roots(ctx, d, exe, consts, outdir, total)
        prof("roots")
        if "members" not in skip and not (ctx.violations and not ctx.thorough):
            run_members_eval(ctx, d, outdir)
        prof("members")
    except B.BuildError as e:
        ctx.broken("harness:embed_c10_roots", str(e)[-800:])
    except RuntimeError as e:
        ctx.broken("regen:c10_members", str(e)[-800:])
    if complete and "image" not in skip and not (ctx.violations and not ctx.thorough):
        run_image(ctx, d, exe, consts, outdir, total)
    prof("image")
    try:
        if "weak-embed" not in skip and not (ctx.violations and not ctx.thorough):
            run_weak_embed(ctx, d, exe, consts, outdir, total)
    except B.BuildError as e:
        ctx.broken("harness:embed_c10_weak", str(e)[-800:])
    if complete and "weak-scheme" not in skip and not (ctx.violations and not ctx.thorough):
        run_weak_scheme(ctx, d, exe, consts, outdir, total)
    prof("weak")
    for (name, kind, cargs, sargs, steady, window) in workloads(ctx.thorough, ctx.rng):
        if "workloads" in skip:
            break
        if kind == "scm" and not complete:
            continue
        if kind == "scm" and ctx.violations and not ctx.thorough:
            ctx.note("Scheme workload %s skipped: the embedding workloads already produced violations" % name)
            continue
        if kind == "emb" and ctx.violations and not ctx.thorough and name not in ("emb-hole-stream", "emb-steady"):
            # a damaged allocator can make every remaining workload run into its time limit and leave traces of millions
            # of allocations (seen: 120 s for the policy stream alone); one concrete failing history is enough
            ctx.note("embedding workload %s skipped: earlier workloads already produced violations" % name)
            continue
        w = run_workload(d, name, kind, cargs, sargs, outdir, timeout=(30 if kind == "emb" else 900))
        if not os.path.exists(w["trace"]):
            ctx.broken("workload:" + name, "workload left no trace: rc=%s %s" % (w["rc"], w["err"][-300:]))
            continue
        if w["rc"] == "TIMEOUT":
            ctx.violation("workload-hang:" + name, input=name, expected="the workload finishes (seconds on the unchanged tree)",
                          observed="still running after the time limit; the trace written so far is analysed below", replay=w["replay"])
        if w["rc"] != 0 and "oom" not in name:
            ctx.violation("workload-crash:" + name, input=name, expected="exit 0", observed="rc=%s %s" % (w["rc"], w["err"][-400:]), replay=w["replay"])
        try:
            S = check_trace(ctx, exe, w, consts, steady, window=window, model_timeout=(90 if not ctx.thorough else 600))
        except Exception as e:
            import traceback
            ctx.broken("trace-analysis:" + name, "the trace of %s could not be analysed: %s %s" % (name, e, traceback.format_exc()[-600:]), replay=w["replay"])
            continue
        if S["model_truncated"]:
            ctx.note("model replay of %s stopped by the time limit; the part replayed agrees" % name)
        for k in total:
            total[k] += S[k]
        ctx.count(S["allocs"] + S["gcs"] + S["grows"], key=None)
        for i in range(S["gcs"]):
            ctx.count(0, key=(name, "gc", i))
        for i in range(S["sizes"]):
            ctx.count(0, key=(name, "size-class", i))
        for i in range(S["grows"] + S["ooms"]):
            ctx.count(0, key=(name, "grow/oom", i))
        ctx.cov["traces_validated_against_impl"] += 1
        if "growth-stream" in name and S.get("big_grows", 0) < 2 and w["rc"] == 0:
            ctx.broken("growth-stream:no-request-decided-growth", "workload %s produced %d growths decided by a request larger than 4/3 of the last segment"
                       % (name, S.get("big_grows", 0)))
        if "hole-stream" in name:
            judge_holes(ctx, name, w)
        if "policy-stream" in name and w["rc"] == 0 and ("LAYOUT ok" not in w["out"] or S["slow"] < 4) and not ctx.violations:
            ctx.broken("policy-stream:not-realised", "workload %s did not realise its layout / its four slow paths (%s, %d slow paths): the four "
                       "coalescing cases no longer decide a growth question each" % (name, w["out"].split("\n")[0], S["slow"]))
        if os.environ.get("VERIF_C10_PROFILE"):
            sys.stderr.write("C10 profile: %s run %.1fs model %.1fs total-so-far %.0fs allocs %d\n" % (name, w["secs"], S["model_secs"], time.time() - ctx.t0, S["allocs"]))
        ctx.sample(dict(workload=name, allocations=S["allocs"], collections=S["gcs"], slow_path=S["slow"], growths=S["grows"], oom=S["ooms"],
                        size_classes=S["sizes"], objects_compared=S["objs_checked"], peak_live=S["peak_live"], final_heap=S["final_total"],
                        bound=S.get("bound"), diverged=S["diverged"], windows=S["windows"], model_truncated=S["model_truncated"], run_s=round(w["secs"], 1), model_s=S["model_secs"]), maxn=20)
        if not os.environ.get("VERIF_KEEP_TRACES"):
            for ext in (".trace", ".req", ".exp", ".ans"):
                try:
                    os.unlink(w["trace"][:-6] + ext)
                except OSError:
                    pass
    ctx.cov["generator_distribution"] = total
    ctx.assume("the mark phase is an input of this model (the marked set at sweep entry is taken from the implementation's sweep log); that it equals reachability is C02's / C16's "
               "property; the premise sweep_inv_closed needs from it (marks closed under strong slots and live-key ephemeron values) is CHECKED on every dumped heap, not proved")
    ctx.assume("malloc never fails inside sexp_make_heap; SEXP_USE_FIXED_CHUNK_SIZE_HEAPS and the mmap variant are outside the model; of image loading (gc_heap.c) the model "
               "covers the construction of the segment (packed_heap_make), not the pointer relocation of the loaded objects")
    ctx.assume("heap sizes stay below 2^53 (the C evaluates the growth ratio test in double arithmetic; the model uses the exact rational comparison)")
    ctx.trust("the sweep-log hook (fixes/hook-C10-sweeplog.patch): prints what sexp_sweep is about to read and what it left")
