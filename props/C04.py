"""C04 — exact arithmetic is exact at every magnitude.
   (T) coq/Properties_C04.v   (K-inner) harness/embed_c04.c vs extracted model, word for word
   (K-outer) Scheme API vs extracted Z spec (coq/C04/Spec.v)."""
import os, subprocess
from vlib import build as B, scm

B64 = 1 << 64
FIXMAX = (1 << 62) - 1

OPS2 = [  # (spec index, scheme expression template)
    (0, "(+ {a} {b})"), (1, "(- {a} {b})"), (2, "(* {a} {b})"), (3, "(quotient {a} {b})"),
    (4, "(remainder {a} {b})"), (5, "(modulo {a} {b})"), (6, "(floor-quotient {a} {b})"),
    (7, "(gcd {a} {b})"), (8, "(lcm {a} {b})"), (10, "(floor/ {a} {b})"), (11, "(truncate/ {a} {b})"),
    (12, "(< {a} {b})"), (13, "(= {a} {b})"), (14, "(> {a} {b})"), (15, "(<= {a} {b})"), (16, "(>= {a} {b})"),
    (17, "(max {a} {b})"), (18, "(min {a} {b})"), (3, "(truncate-quotient {a} {b})"), (4, "(truncate-remainder {a} {b})"),
    (5, "(floor-remainder {a} {b})"),
]
OPS2 = OPS2 + [(9, "(expt {a} {b})")][:0]
OPS1 = [(0, "(abs {a})"), (1, "(- {a})"), (2, "(exact-integer-sqrt {a})"), (3, "(square {a})"),
        (4, "(even? {a})"), (5, "(odd? {a})"), (6, "(fixnum? {a})"), (0, "(gcd {a})"), (0, "(lcm {a})"),
        (0, "(gcd {a} 0)"), (0, "(gcd 0 {a})"), (0, "(lcm {a} 1)"), (0, "(lcm {a} {a} -1)"), (0, "(gcd {a} {a} 0)")]


def lattice(rng, n_random, maxbits=400):
    vals = {0, 1, 2}
    for d in range(-2, 3):
        vals.add((1 << 62) + d)
        vals.add((1 << 61) + d)
    for k in list(range(60, 68)) + [31, 32, 33, 126, 127, 128, 129, 191, 192, 193, 255, 256, 257, 320, 384, 400]:
        vals.update([1 << k, (1 << k) - 1, (1 << k) + 1])
    # all-ones / zero interior words
    vals.add((1 << 192) - 1)
    vals.add((1 << 192) + 1)
    vals.add(((1 << 64) - 1) << 64)
    vals.add((1 << 128) | ((1 << 64) - 1))
    for _ in range(n_random):
        bits = rng.choice([8, 40, 62, 63, 64, 65, 100, 128, 130, 200, 256, maxbits, rng.randrange(1, maxbits + 1)])
        v = rng.getrandbits(bits)
        if rng.random() < 0.3:  # force interior zero / all-ones words
            w = rng.randrange(0, max(1, bits // 64 + 1))
            if rng.random() < 0.5:
                v &= ~(((1 << 64) - 1) << (64 * w))
            else:
                v |= (((1 << 64) - 1) << (64 * w))
        vals.add(v)
    out = sorted(vals)
    return out + [-v for v in out if v]


WB = [0, 1, 2, 3, (1 << 32) - 1, 1 << 32, (1 << 62) - 1, 1 << 62, (1 << 62) + 1, (1 << 63) - 1, 1 << 63, B64 - 2, B64 - 1]


def rword(rng):
    return rng.choice(WB) if rng.random() < 0.5 else rng.getrandbits(rng.choice([1, 8, 31, 32, 33, 62, 63, 64]))


def numstr(rng, v, spare_ok=True):
    """a number in the inner protocol: canonical (fixnum iff it fits); bignums sometimes with spare words"""
    if -(1 << 62) <= v <= FIXMAX:
        return "f:" + zhex(v)
    return "b:%d:%s" % (-1 if v < 0 else 1, wstr(words_of(abs(v), rng.choice([0, 0, 1]) if spare_ok else 0)))


INNER_FNS = ["add_digits", "sub_digits", "compare_abs", "bignum_add", "bignum_sub", "fxadd", "fxsub", "fxmul", "fxdiv",
             "fxrem", "normalize", "bignum_mul", "bignum_mul", "quot_rem", "quot_rem", "quot_rem", "num_add", "num_sub", "num_mul",
             "vm_add", "vm_sub", "num_quotient", "num_remainder", "vm_quotient", "vm_remainder", "num_quotient", "num_remainder",
             "bignum_expt", "write_bignum", "read_number", "num_compare", "num_compare", "bignum_sqrt",
             "ratio_normalize", "ratio_normalize", "ratio_add", "ratio_mul", "ratio_div", "ratio_compare", "ratio_compare",
             "ratio_sub", "ratio_round", "ratio_round", "ratio_trunc", "ratio_floor", "ratio_ceiling", "vm_mul"]


def fixed_inner():
    """boundary pairs that every run must see (each was the witness of a defect or of a hand-made breaking change)"""
    MINF, out = -(1 << 62), []
    crit = [MINF, -MINF, FIXMAX, -FIXMAX, -1, 1, 2, -2, 0, (1 << 62) + 1, -(1 << 62) - 1]
    for x in crit:
        for y in crit:
            nx, ny = numstr(None, x, False), numstr(None, y, False)
            for f in ("vm_quotient", "vm_remainder", "num_compare", "vm_add", "vm_sub", "num_mul", "vm_mul"):
                out.append("%s %s %s" % (f, nx, ny))
            if not (y == 0 and nx.startswith("f:")):
                out.append("num_quotient %s %s" % (nx, ny))
                out.append("num_remainder %s %s" % (nx, ny))
    return out


def gen_inner(rng, pos, n):
    reqs = fixed_inner()
    sg = lambda: rng.choice(["1", "-1"])
    small = [v for v in pos if v < (1 << 200)]
    for i in range(n):
        f = rng.choice(INNER_FNS)
        a, b = rng.choice(pos), rng.choice(pos)
        if rng.random() < 0.25 and a > 0:
            b = a + rng.choice([-1, 0, 1])
        wa, wb = words_of(a, rng.choice([0, 0, 1, 2])), words_of(b, rng.choice([0, 0, 1, 3]))
        if f in ("add_digits", "sub_digits", "compare_abs"):
            reqs.append("%s %s %s" % (f, wstr(wa), wstr(wb)))
        elif f in ("bignum_add", "bignum_sub"):
            reqs.append("%s %s %s %s %s" % (f, sg(), wstr(wa), sg(), wstr(wb)))
        elif f == "fxadd":
            reqs.append("fxadd %s %x" % (wstr(wa), rword(rng)))
        elif f == "fxsub":
            w = rword(rng)
            reqs.append("fxsub %s %s %x" % (sg(), wstr(wa), w))
        elif f == "fxmul":
            reqs.append("fxmul %s %x %d" % (wstr(wa), rword(rng), rng.choice([0, 0, 0, 1, 2])))
        elif f == "fxdiv":
            w = rword(rng) or 1
            off = 1 if (a >= B64 and rng.random() < 0.2) else 0
            reqs.append("fxdiv %s %x %d" % (wstr(wa), w, off))
        elif f == "fxrem":
            bv = rng.choice([0, 1, 2, 3, 4, 7, 8, 10, 1 << 31, 1 << 32, (1 << 32) + 1, 1 << 61, (1 << 61) + 1, FIXMAX, 1 << 62, rng.getrandbits(rng.choice([3, 20, 40, 62]))])
            if bv > (1 << 62) or (bv == (1 << 62) and rng.random() < 0.5):
                bv = FIXMAX
            if rng.random() < 0.4:
                bv = -bv
            if bv == (1 << 62):
                bv = -bv
            reqs.append("fxrem %s %s %s" % (sg(), wstr(wa), zhex(bv)))
        elif f == "normalize":
            if rng.random() < 0.7:
                v = rng.choice([0, 1, FIXMAX - 1, FIXMAX, FIXMAX + 1, FIXMAX + 2, B64 - 1, rng.getrandbits(64)])
                wa = words_of(v, rng.choice([0, 0, 1, 2]))
            reqs.append("normalize %s %s" % (sg(), wstr(wa)))
        elif f == "bignum_mul":
            if rng.random() < 0.5:
                a, b = rng.choice(small), rng.choice(small)
                wa, wb = words_of(a, rng.choice([0, 0, 1])), words_of(b, rng.choice([0, 0, 1]))
            reqs.append("bignum_mul %s %s %s %s" % (sg(), wstr(wa), sg(), wstr(wb)))
        elif f == "quot_rem":
            r = rng.random()
            if r < 0.3:      # near-multiples: quotient estimate over/undershoots
                q = rng.choice(pos)
                a = b * q + rng.choice([0, 1, -1, b - 1 if b else 0])
                a = abs(a)
                wa = words_of(a, rng.choice([0, 0, 1]))
            elif r < 0.4:
                b = rword(rng)
                wb = words_of(b, rng.choice([0, 1]))
            reqs.append("quot_rem %s %s %s %s" % (sg(), wstr(wa), sg(), wstr(wb)))
        elif f == "bignum_expt":
            e = rng.choice([0, 1, 2, 3, 5, 8, 13, 31, 40])
            if len(wa) * max(e, 1) > 160:
                e = rng.choice([0, 1, 2, 3])
            reqs.append("bignum_expt %s %s %d" % (sg(), wstr(wa), e))
        elif f == "num_compare":
            x = rng.choice(pos + BX) * rng.choice([1, -1])
            y = rng.choice(pos + BX) * rng.choice([1, -1])
            r0 = rng.random()
            if r0 < 0.4:       # fixnum pairs far apart (difference beyond the fixnum range) and close together
                x = rng.choice([FIXMAX, -FIXMAX - 1, FIXMAX - 1, -FIXMAX, 1 << 61, -(1 << 61), 0, 1, -1, rng.getrandbits(62) - (1 << 61)])
                y = rng.choice([FIXMAX, -FIXMAX - 1, FIXMAX - 1, -FIXMAX, 1 << 61, -(1 << 61), 0, 1, -1, rng.getrandbits(62) - (1 << 61)])
            elif r0 < 0.6:
                y = x + rng.choice([0, 1, -1])
            reqs.append("num_compare %s %s" % (numstr(rng, x, True), numstr(rng, y, True)))
        elif f == "bignum_sqrt":
            v = rng.choice([p_ for p_ in pos if (1 << 62) <= p_ < (1 << 520)] or [1 << 100])
            if rng.random() < 0.5:
                t = rng.getrandbits(rng.choice([31, 32, 40, 64, 100, 200])) + (1 << 31)
                v = t * t + rng.choice([0, 0, 1, -1, 2 * t, 2 * t + 1])
            reqs.append("bignum_sqrt %s" % wstr(words_of(v, rng.choice([0, 0, 1]))))
        elif f.startswith("ratio_"):
            def rn(nonzero=False, positive=False):
                v = rng.choice(BX + [3, -3, 6, 7, 10, -10, 1 << 32, (1 << 62) * 3, (1 << 64) * 5, rng.getrandbits(rng.choice([4, 30, 62, 64, 130, 200])) * rng.choice([1, -1])]
                               + [p_ for p_ in pos if p_ < (1 << 260)][:50])
                if (nonzero or positive) and v == 0:
                    v = 7
                return abs(v) if positive else v
            if f in ("ratio_round", "ratio_trunc", "ratio_floor", "ratio_ceiling", "ratio_sub"):
                from fractions import Fraction

                def red():       # a reduced fraction that is not an integer, as the C functions receive it
                    while True:
                        n_, d_ = rn(), rn(positive=True)
                        r0 = rng.random()
                        if r0 < 0.25:      # halves and near-halves: ties and 2r next to d
                            d_ = rng.choice([2, 2, 4, (1 << 62) - 1, (1 << 61) + 1, (1 << 62) + 1, (1 << 64) + 1])
                            n_ = rng.choice([1, -1, 3, -3, 5, -5, 7, -7, d_ // 2, -(d_ // 2), d_ // 2 + 1, -(d_ // 2) - 1, 3 * d_ + d_ // 2, -(1 << 61), (1 << 61), -(1 << 62)])
                        elif r0 < 0.35:
                            n_ = rng.choice([-(1 << 62), (1 << 62), -(1 << 61)])
                            d_ = rng.choice([3, 5, 7, (1 << 61) + 1, (1 << 62) - 1, (1 << 62) + 1])
                        fr = Fraction(n_, d_)
                        if fr.denominator != 1:
                            return fr.numerator, fr.denominator
                n, dd = red()
                if f == "ratio_sub":
                    n2, d2 = red()
                    reqs.append("ratio_sub %s %s %s %s" % (numstr(rng, n, False), numstr(rng, dd, False), numstr(rng, n2, False), numstr(rng, d2, False)))
                else:
                    reqs.append("%s %s %s" % (f, numstr(rng, n, False), numstr(rng, dd, False)))
            elif f == "ratio_normalize":
                n, dd = rn(), rn(nonzero=True)
                if rng.random() < 0.4:
                    g = rn(nonzero=True)
                    n, dd = n * g, dd * g
                reqs.append("ratio_normalize %s %s" % (numstr(rng, n, False), numstr(rng, dd, False)))
            else:
                na, da, nb, db = rn(), rn(positive=True), rn(nonzero=(f == "ratio_div")), rn(positive=True)
                if f == "ratio_compare" and rng.random() < 0.4:      # cross products that are fixnums far apart
                    na, da = rng.choice([FIXMAX // 7, -(FIXMAX // 7), FIXMAX // 3, -(FIXMAX // 2), 1, -1]), rng.choice([1, 2, 3])
                    nb, db = rng.choice([FIXMAX // 2, -(FIXMAX // 2), FIXMAX // 3, -(FIXMAX // 3), 1, -1]), rng.choice([7, 3, 2, 1])
                reqs.append("%s %s %s %s %s" % (f, numstr(rng, na, False), numstr(rng, da, False), numstr(rng, nb, False), numstr(rng, db, False)))
        elif f == "write_bignum":
            reqs.append("write_bignum %s %d" % (wstr(wa), rng.choice([2, 3, 8, 10, 10, 16, 36, rng.randrange(2, 37)])))
        elif f == "read_number":
            base = rng.choice([2, 8, 10, 10, 16, 16, 3, 7, 12])
            v = rng.choice(pos + [FIXMAX, FIXMAX + 1, FIXMAX - 1, (FIXMAX + 1) // base, (FIXMAX + 1) // base + 1, FIXMAX // base])
            txt, t = "", v
            while True:
                txt = DIG[t % base] + txt
                t //= base
                if not t:
                    break
            if rng.random() < 0.2:
                txt = "0" * rng.randrange(1, 4) + txt
            if rng.random() < 0.3:
                txt = "".join(c.upper() if rng.random() < 0.5 else c for c in txt)
            reqs.append("read_number %d %s" % (base, txt))
        else:
            x = rng.choice(pos) * rng.choice([1, -1])
            y = rng.choice(pos) * rng.choice([1, -1])
            if f in ("num_quotient", "num_remainder", "vm_quotient", "vm_remainder"):
                r0 = rng.random()
                if r0 < 0.35:
                    x = rng.choice(BX + [rng.getrandbits(62) - (1 << 61)])
                    y = rng.choice(BX + [3, -3, 7, 1 << 31, rng.getrandbits(62) - (1 << 61)])
                elif r0 < 0.5:
                    y = rng.choice([1, -1, 2, -2, 4, 1 << 32, -(1 << 32), 10, FIXMAX, -FIXMAX - 1, rng.getrandbits(40) + 1])
                elif r0 < 0.65 and y:
                    x = y * rng.choice(pos[:40]) + rng.choice([0, 1, -1])
                if y == 0 and (f.startswith("num_") and -(1 << 62) <= x <= FIXMAX):
                    y = 1          # sexp_quotient(fixnum, 0) traps in C (the VM tests for 0 before calling)
                reqs.append("%s %s %s" % (f, numstr(rng, x, False), numstr(rng, y, False)))
                continue
            r = rng.random()
            if r < 0.35:     # fixnum pairs around the overflow boundary
                x = rng.choice([0, 1, -1, FIXMAX, -FIXMAX - 1, FIXMAX - 1, -FIXMAX, 1 << 61, -(1 << 61), (1 << 31), -(1 << 31), 3037000500, rng.getrandbits(62) - (1 << 61)])
                y = rng.choice([0, 1, -1, 2, -2, FIXMAX, -FIXMAX - 1, 1 << 61, -(1 << 61), (1 << 31), -(1 << 31), 3037000500, rng.getrandbits(62) - (1 << 61)])
            elif r < 0.5:    # bignum +- fixnum crossing back into fixnum range / across a word boundary
                x = rng.choice([FIXMAX + 1, -FIXMAX - 2, B64, -B64, B64 - 1, 1 << 128, (1 << 128) - 1, -(1 << 128)])
                y = rng.choice([1, -1, 2, -2, FIXMAX, -FIXMAX - 1, rng.getrandbits(62) - (1 << 61)])
                if rng.random() < 0.5:
                    x, y = y, x
            elif r < 0.6:
                y = -x + rng.choice([0, 1, -1, FIXMAX, -FIXMAX - 1])
            if f in ("num_mul", "vm_mul") and rng.random() < 0.25:
                x, y = rng.choice(MULB)
                x, y = x * rng.choice([1, -1]), y * rng.choice([1, -1])
            if f in ("num_mul", "vm_mul") and max(abs(x), abs(y)).bit_length() > 1200:
                y = rng.choice([3, -7, FIXMAX, 1 << 64, -(1 << 70) + 1])
            reqs.append("%s %s %s" % (f, numstr(rng, x), numstr(rng, y)))
    return reqs


def run_harness(ctx, emb, reqs, env, timeout=40, max_hangs=3):
    """feed reqs to the embedding harness; a request that hangs or kills the process is answered
    'TIMEOUT' / 'CRASH rc' and the harness is restarted on the following request"""
    out = [None] * len(reqs)
    pos, hangs = 0, 0
    while pos < len(reqs):
        try:
            r = subprocess.run([emb], input="\n".join(reqs[pos:]) + "\n", capture_output=True, text=True, env=env, timeout=timeout)
            lines, rc, hung = r.stdout.split("\n"), r.returncode, False
        except subprocess.TimeoutExpired as e:
            so = e.stdout.decode() if isinstance(e.stdout, bytes) else (e.stdout or "")
            lines, rc, hung = so.split("\n"), None, True
        done = lines[:-1]           # complete lines only
        for k, l in enumerate(done):
            if pos + k < len(reqs):
                out[pos + k] = l
        pos += len(done)
        if pos >= len(reqs):
            break
        if hung or rc != 0:
            out[pos] = "TIMEOUT" if hung else "CRASH rc=%s" % rc
            pos += 1
            hangs += 1
            if hangs >= max_hangs:
                ctx.note("inner stream cut after %d hangs/crashes of the harness" % hangs)
                break
        elif not done:
            ctx.broken("inner-correspondence:C04", "embedding harness stopped answering at request %d" % pos)
            break
    return out


def run_outer(ctx, d, exprs, timeout=30, chunk=1000, max_hangs=3):
    """like scm.run_cases (same prelude and result format) but gives up on the stream after
    `max_hangs` cases that hang or kill the process: 'TIMEOUT' / 'CRASH ..' for those, 'SKIPPED' after."""
    import tempfile
    res = ["SKIPPED"] * len(exprs)
    state = dict(hangs=0)

    def run_range(lo, hi):
        while lo < hi and state["hangs"] < max_hangs:
            body = [scm.PRELUDE] + ["(verif-case %d %s)(flush-output-port)" % (i, exprs[i]) for i in range(lo, hi)] + ['(write-string "DONE")(newline)']
            with tempfile.NamedTemporaryFile("w", suffix=".scm", dir=B.SCRATCH, delete=False) as fh:
                fh.write("\n".join(body))
                path = fh.name
            try:
                try:
                    r = B.run_chibi(d, [path], timeout=timeout)
                    out, rc, err = r.stdout, r.returncode, r.stderr
                except subprocess.TimeoutExpired as e:
                    out = e.stdout.decode() if isinstance(e.stdout, bytes) else (e.stdout or "")
                    rc, err = "TIMEOUT", ""
            finally:
                os.unlink(path)
            done, last = False, lo - 1
            for line in out.split("\n"):
                if line == "DONE":
                    done = True
                    continue
                sp = line.find(" ")
                if sp > 0 and line[:sp].isdigit() and lo <= int(line[:sp]) < hi:
                    res[int(line[:sp])] = line[sp + 1:]
                    last = max(last, int(line[:sp]))
                elif line and last >= lo and not done:
                    res[last] += "\n" + line
            if done:
                return
            bad = last + 1
            if bad < hi:
                res[bad] = "TIMEOUT" if rc == "TIMEOUT" else "CRASH rc=%s %s" % (rc, (err or "")[-300:].replace("\n", " | "))
                state["hangs"] += 1
            lo = bad + 1

    for lo in range(0, len(exprs), chunk):
        run_range(lo, min(len(exprs), lo + chunk))
    if state["hangs"] >= max_hangs:
        ctx.note("outer stream cut after %d hangs/crashes" % state["hangs"])
    return res


def words_of(v, spare=0):
    ws = []
    while True:
        ws.append(v & (B64 - 1))
        v >>= 64
        if not v:
            break
    return ws + [0] * spare


def wstr(ws):
    return ",".join("%x" % w for w in ws) if ws else "_"


def zhex(z):
    return ("-%x" % -z) if z < 0 else ("%x" % z)


def run(ctx):
    n_in, n_out = (4000, 6000) if not ctx.thorough else (40000, 120000)
    ctx.cov["rule"] = ("inner: operands built word by word (boundary lattice incl. carries across all-ones words, spare high zero words, "
                       "unequal lengths, fixnum limits, factor pairs of the fixnum limits, near-multiples, reduced fractions with halves) fed to "
                       "40 C functions / VM opcodes and to the extracted model, compared word for word; outer: corpus, then operand tuples "
                       "over the boundary lattice x every operation through the Scheme API vs the extracted Z/Q spec; round 2: every pair of exact types "
                       "{fixnum, bignum, ratio, complex} x + - * / = vs the Gaussian-rational spec, rationals in radix 2..36, binary64 bit patterns "
                       "(every sampled power of two and its two neighbours, fixnum/bignum boundary, subnormals) through exact / inexact; round 3: = < > <= >= (2 and 3 arguments, both orders), max, min "
                       "between every exact kind and the double NEAREST to it, that double's two neighbours, +-0, +-inf, NaN, extreme doubles, vs the order of the exact rationals "
                       "(SpecCmp), and the same operands through the real sexp_compare / VM opcodes vs the extracted Model10; a case is "
                       "non-trivial when at least one operand is a bignum (|x| >= 2^62) or a ratio, distinct by (op, operands)")
    d = ctx.build("default")
    # (G) constants of the source tree -> coq/Gen/C04_Consts.v (checked against the models' literals by
    # C04/ConstsCheck.v, theorem constants_match_source)
    from gen import c04_consts
    try:
        ctx.cov["source_constants"] = c04_consts.regen(ctx, d)
    except Exception as ex:
        ctx.broken("gen:C04_Consts", "constants translator failed: %s" % ex)
    # (T) theorems
    ctx.coq_obligations("Properties_C04")
    exe = ctx.extract("C04")
    if exe is None:
        return
    rng = ctx.rng
    lat = lattice(rng, 60 if not ctx.thorough else 400, 400 if not ctx.thorough else 4000)
    pos = [v for v in lat if v >= 0]
    # ------------------------------------------------------------------ inner correspondence
    emb = B.cc_embed(d, os.path.join(os.path.dirname(__file__), "..", "harness", "embed_c04.c"), os.path.join(d, "embed_c04"))
    reqs = gen_inner(rng, pos, n_in)
    mo = ctx.run_model(exe, reqs)
    io = run_harness(ctx, emb, reqs, B.chibi_env(d))
    for q, m, i in zip(reqs, mo, io):
        ctx.count(1, key=q, nontrivial=("," in q))
        ctx.cov.setdefault("inner_by_function", {})
        ctx.cov["inner_by_function"][q.split()[0]] = ctx.cov["inner_by_function"].get(q.split()[0], 0) + 1
        ctx.cov["traces_validated_against_impl"] += 1
        if i is None:
            continue          # stream cut after repeated hangs (already reported)
        if m != i and q.startswith("bignum_sqrt") and " " in m and " " in i and not i.startswith(("TIMEOUT", "CRASH")):
            # the C code starts Newton from a flonum estimate, the model from a power of two: same root and
            # remainder (theorem sqrt_newton_sound) but different spare words; compare values + canonical form
            try:
                if [(_num(t), t[0]) for t in m.split(" ")] == [(_num(t), t[0]) for t in i.split(" ")]:
                    continue
            except Exception:
                pass
        if m != i:
            # the model and the C function differ on this word array: is the C result wrong w.r.t. Z?
            verdict = _judge_inner(q, i)
            if verdict is False:
                ctx.violation("digit-layer:" + q.split()[0], input=q, expected_model=m, observed=i,
                              replay="echo '%s' | LD_LIBRARY_PATH=%s %s" % (q, d, emb))
            else:
                ctx.broken("correspondence:digit-layer:" + q.split()[0], "model and C differ (C result still has the right value): %s model=%s impl=%s" % (q, m, i))
    ctx.sample(dict(kind="inner", request=reqs[0], model=mo[0], impl=io[0]))
    # ------------------------------------------------------------------ outer correspondence
    cases = gen_outer(ctx, rng, lat, n_out)          # (sig, expr, spec request, key, nontrivial)
    # radix printing/parsing needs the spec's digits to build the string->number cases
    rad = gen_radix(rng, lat, 300 if not ctx.thorough else 6000)
    rso = ctx.run_model(exe, ["spec_radix %x %s" % (r, zhex(z)) for r, z in rad])
    for (r, z), sp in zip(rad, rso):
        ds = [int(x, 16) if not x.startswith("-") else -int(x[1:], 16) for x in sp[2:].split(",")]
        txt = ("-" if ds[0] < 0 else "") + "".join(DIG[v] for v in ds[1:])
        cases.append(("radix:number->string", '(number->string %s %d)' % (scm.hexlit(z), r), "spec_radix %x %s" % (r, zhex(z)), ("n2s", r, z), abs(z) > FIXMAX))
        if r > 16:
            continue      # R7RS defines string->number for radix 2, 8, 10, 16 only; chibi reads digits up to f (see notes)
        if rng.random() < 0.5:
            txt = "".join(c.upper() if rng.random() < 0.5 else c for c in txt)
        cases.append(("radix:string->number", '(string->number "%s" %d)' % (txt, r), "spec1 7 %s" % zhex(z), ("s2n", r, txt), abs(z) > FIXMAX))
    # round 2: exact complex numbers, rationals in radix r, exact <-> inexact on binary64 bit patterns
    cases += gen_complex(ctx, rng, 500 if not ctx.thorough else 6000)
    cases += gen_radix_q(ctx, rng, exe, lat, 250 if not ctx.thorough else 3000)
    if os.path.exists(os.path.join(os.path.dirname(__file__), "..", "coq", "C04", "SpecFloat.v")):
        cases += gen_conv(ctx, rng, exe)
    cmpx_inner = []
    if os.path.exists(os.path.join(os.path.dirname(__file__), "..", "coq", "C04", "SpecCmp.v")):
        cx, cmpx_inner = gen_cmpx(ctx, rng)
        cases += cx
    so = ctx.run_model(exe, [c[2] for c in cases])
    io = run_outer(ctx, d, [c[1] for c in cases])
    byop = {}
    for (sig, e, q, key, nt), sp, i in zip(cases, so, io):
        ctx.count(1, key=key, nontrivial=nt)
        byop[sig.split(":")[0]] = byop.get(sig.split(":")[0], 0) + 1
        if i == "SKIPPED":
            continue
        if sp.startswith("ERR"):
            ctx.broken("spec:error", "the extracted spec failed on %s: %s" % (q[:200], sp[:200]))
            continue
        ok, why = (_agree_cpx(sp, i) if sig.startswith("cpx:") else _agree_qradix(sp, i) if sig.startswith("qradix:number->string") else _agree(sp, i))
        if not ok:
            ctx.violation(sig, input=e, expected=sp, observed=i, why=why,
                          replay="echo '(import (scheme base) (scheme write) (scheme inexact)) (call-with-values (lambda () %s) (lambda r (write r)))' > /tmp/c04-replay.scm; LD_LIBRARY_PATH=%s CHIBI_MODULE_PATH=%s/lib CHIBI_IGNORE_SYSTEM_PATH=1 %s/chibi-scheme /tmp/c04-replay.scm" % (e.replace("'", "'\\''"), d, d, d))
    ctx.cov["outer_by_stream"] = byop
    # round 2: the models the new theorems are about (Model7 generic dispatch over exact reals / complex numbers, Model8
    # sexp_inexact_to_exact) run on the same inputs and must give the spec's value in canonical form
    mreq, mexp = [], []
    for (sig, e, q, key, nt), sp in zip(cases, so):
        if q.startswith("specc2 ") and q.split()[1] in "0123":
            x, y = key[2], key[3]
            mreq.append("g_op %s %s" % (q.split()[1], " ".join(numstr(None, v, False) for v in (x[0] + x[1] + y[0] + y[1]))))
            mexp.append(sp)
        elif sig.startswith("convert:exact:"):
            mreq.append("model_exact_bits %x" % key[1])
            mexp.append(sp)
    for rq, m, sp in zip(mreq, ctx.run_model(exe, mreq), mexp):
        ctx.count(1, key=("model", rq), nontrivial=True)
        if not _model_agrees(m, sp):
            ctx.broken("correspondence:model-vs-spec:" + rq.split()[0], "%s: model %s, spec %s" % (rq[:300], m[:300], sp[:300]))
    # round 3: sexp_compare / the VM comparison opcodes on mixed operands: extracted model (Model10.x_compare / vm_cmp, the
    # subject of theorem mixed_compare_Q) vs the REAL C function on the same operands (K-inner), both against the spec
    if cmpx_inner:
        creq = [q for q, _, _ in cmpx_inner]
        cmo = ctx.run_model(exe, creq)
        cso = ctx.run_model(exe, [sq for _, sq, _ in cmpx_inner])
        cio = run_harness(ctx, emb, creq, B.chibi_env(d))
        for (q, sq, sig), m, sp, i in zip(cmpx_inner, cmo, cso, cio):
            ctx.count(1, key=q, nontrivial=True)
            ctx.cov["traces_validated_against_impl"] += 1
            exp = ("NAN" if sp == "UNDEF" else {"V -1": "-1", "V 0": "0", "V 1": "1"}.get(sp, sp)) if q.startswith("x_compare") else sp
            if m != exp:
                ctx.broken("correspondence:model-vs-spec:" + q.split()[0], "%s: model %s, spec %s" % (q[:300], m, sp))
            if i is None:
                continue
            if i != exp:
                ctx.violation(sig, input=q, expected=exp, observed=i, spec_request=sq,
                              replay="echo '%s' | LD_LIBRARY_PATH=%s %s" % (q, d, emb))
            elif i != m:
                ctx.broken("correspondence:digit-layer:" + q.split()[0], "model and C differ: %s model=%s impl=%s" % (q, m, i))
        ctx.cov["cmpx_inner"] = len(cmpx_inner)
    ctx.sample(dict(kind="outer", expr=cases[0][1], spec=so[0], impl=io[0]))
    ctx.sample(dict(kind="outer", expr=cases[-1][1], spec=so[-1], impl=io[-1]))
    ctx.assume("flonum arithmetic, transcendental functions, and expt / exp / make-polar ... of exact complex numbers (computed through flonums) are "
               "outside this check; exact complex numbers are covered for + - * / = only (Gaussian rationals)")
    ctx.assume("exact<->inexact: a Scheme flonum with given binary64 bits is built from a fixnum below 2^53 and two multiplications by powers "
               "of two (each exactly representable, hence exact under IEEE-754); the bit-level decoding is the Coq spec SpecFloat")
    ctx.assume("string->number of complex numbers in a radix other than 10 is not supported by chibi ((string->number \"1/10+11/100i\" 2) => #f) "
               "and is not part of the claim; radix 17-36 for string->number likewise (R7RS requires 2, 8, 10, 16)")
    ctx.assume("expt on two fixnums with a result below 2^62/1000 goes through libm pow() and round() (eval.c:1860-1873): covered by the outer correspondence only")
    ctx.trust("gcd / lcm / modulo / floor/ / truncate/ / exact-integer-sqrt wrappers (Scheme code in init-7.scm, eval.c), number->string for "
              "radix != 10 (Scheme loop over quotient/remainder) and printing of fixnums are tied to the Z/Q spec by "
              "the outer correspondence only (no model); string->number is compared for radix <= 16 only (R7RS: 2, 8, 10, 16); the models of the "
              "generic dispatch over exact reals / complex numbers (Model7) and of sexp_inexact_to_exact (Model8) are tied to the spec on the run's "
              "inputs (model-vs-spec) and the implementation to the same spec (K-outer), not word for word")
    ctx.assume("comparisons with a flonum: a finite double denotes its exact dyadic value (SpecFloat.b64_decode); the C comparisons of two doubles and isinf / isnan "
               "are taken as exact (IEEE-754); sexp_compare with operands out of type order is proved up to 'the inner result is not MIN_FIXNUM' "
               "(mixed_compare_swapped_partial) and tied by the inner correspondence on both operand orders")
    ctx.assume("termination of the ratio add/sub/mul/div/compare/rounding wrappers and any bound on the number of rounds of quot_rem / "
               "Karatsuba / Newton are not proved (existence of a fuel is, for quot_rem, Karatsuba, expt, Euclid, ratio_normalize, sqrt)")
    ctx.note("absence of operand mutation: proved for the store-passing model Store.v of sexp_add/sub/mul/quotient/remainder/div on fixnum|bignum "
             "(operands_unchanged); the model is tied to the value-level models by the store_refines_value theorems; for ratio / complex operations "
             "it is checked (operand snapshots in the inner harness, operands re-compared in every outer case), not proved")

DIG = "0123456789abcdefghijklmnopqrstuvwxyz"
# factor pairs whose product lands exactly on / next to the fixnum limits (the overflow test of the fast paths)
MULB = [(3, (FIXMAX) // 3), ((1 << 31) - 1, (1 << 31) + 1), (1 << 31, 1 << 31), (5, ((1 << 62) + 1) // 5), (1 << 30, 1 << 32), (2, 1 << 61),
        (2, (1 << 61) - 1), (7, FIXMAX // 7), (7, FIXMAX // 7 + 1)]
BX = [0, 1, -1, 2, -2, FIXMAX, -FIXMAX, FIXMAX + 1, -FIXMAX - 1, FIXMAX + 2, -FIXMAX - 2, FIXMAX - 1, 1 - FIXMAX,
      1 << 63, -(1 << 63), B64 - 1, 1 - B64, B64, -B64, B64 + 1, (1 << 124), -(1 << 124), (1 << 128) - 1, 1 - (1 << 128)]
GUARD2 = "(let ((a %s) (b %s)) (let ((r (call-with-values (lambda () %s) list))) (if (and (equal? a %s) (equal? b %s)) (apply values r) (error \"operand-mutated\"))))"
GUARD1 = "(let ((a %s)) (let ((r (call-with-values (lambda () %s) list))) (if (equal? a %s) (apply values r) (error \"operand-mutated\"))))"
QOPS2 = [(0, "(+ a b)"), (1, "(- a b)"), (2, "(* a b)"), (3, "(/ a b)"), (4, "(< a b)"), (5, "(= a b)"), (6, "(> a b)"), (7, "(max a b)"), (8, "(min a b)")]
QOPS1 = [(0, "(numerator a)"), (1, "(denominator a)"), (2, "(floor a)"), (3, "(ceiling a)"), (4, "(round a)"), (5, "(truncate a)"),
         (6, "(abs a)"), (7, "(- a)"), (8, "(/ a)"), (9, "(square a)")]


def tcls(v):
    return "f" if -(1 << 62) <= v <= FIXMAX else "b"


def load_corpus():
    out = []
    p = os.path.join(os.path.dirname(__file__), "..", "corpus", "C04", "outer.case")
    if os.path.exists(p):
        for ln in open(p):
            ln = ln.rstrip("\n")
            if ln and not ln.startswith("#"):
                sig, e, q = ln.split("\t")
                out.append((sig, e, q, ("corpus", e), True))
    return out


def gen_outer(ctx, rng, lat, n_out):
    cases = load_corpus()
    ctx.cov["corpus_cases"] = len(cases)

    def bin_case(idx, tmpl, a, b):
        op = tmpl.split()[0].strip("(")
        e = GUARD2 % (scm.hexlit(a), scm.hexlit(b), tmpl.format(a="a", b="b"), scm.hexlit(a), scm.hexlit(b))
        cases.append(("arith:%s:%s%s" % (op, tcls(a), tcls(b)), e, "spec2 %d %s %s" % (idx, zhex(a), zhex(b)), (tmpl, a, b),
                      abs(a) > FIXMAX or abs(b) > FIXMAX))

    # (1) every pair of the fixnum/bignum boundary values x the division family and + - * (quick),
    #     x every binary operation (thorough)
    divfam = [o for o in OPS2 if o[0] in (0, 1, 2, 3, 4, 5, 6, 10, 11)]
    core = BX[:15] if not ctx.thorough else BX
    for a in core:
        for b in core:
            for idx, tmpl in (OPS2 if ctx.thorough else divfam):
                if ctx.thorough or rng.random() < 0.5:
                    bin_case(idx, tmpl, a, b)
    for x, y in MULB:
        for sx in (1, -1):
            for sy in (1, -1):
                bin_case(2, "(* {a} {b})", sx * x, sy * y)
                bin_case(2, "(* {a} {b})", sy * y, sx * x)
    # (2) seeded lattice tuples
    for i in range(n_out):
        r = rng.random()
        if r < 0.62:
            idx, tmpl = rng.choice(OPS2)
            a, b = rng.choice(lat), rng.choice(lat)
            if rng.random() < 0.2 and b:
                a = b * rng.choice(lat[:40] + [1, -1, 3]) + rng.choice([0, 0, 1, -1])   # exact multiples / near-multiples
            if idx in (7, 8) and max(abs(a), abs(b)).bit_length() > 2000:
                continue
            bin_case(idx, tmpl, a, b)
        elif r < 0.67:                # expt: bignum and fixnum bases, exponent 0..40 (result bounded)
            a = rng.choice(lat + BX)
            e = rng.choice([0, 1, 2, 3, 5, 10, 17, 31, 40, rng.randrange(0, 41)])
            if abs(a).bit_length() * max(e, 1) > 12000:
                e = rng.choice([0, 1, 2, 3])
            bin_case(9, "(expt {a} {b})", a, e)
        elif r < 0.80:
            idx, tmpl = rng.choice(OPS1)
            a = rng.choice(lat)
            if rng.random() < 0.3:
                a = a * a + rng.choice([-1, 0, 1])
            e = GUARD1 % (scm.hexlit(a), tmpl.format(a="a"), scm.hexlit(a))
            cases.append(("arith:%s:%s" % (tmpl.split()[0].strip("("), tcls(a)), e, "spec1 %d %s" % (idx, zhex(a)), (tmpl, a), abs(a) > FIXMAX))
        elif r < 0.84:                # exact <-> inexact on exactly representable integers m * 2^k
            m = rng.getrandbits(rng.choice([1, 20, 52, 53])) * rng.choice([1, -1])
            a = m << rng.choice([0, 1, 10, 11, 63, 64, 100, 500, 900])
            cases.append(("convert:exact-inexact:%s" % tcls(a), "(exact (inexact %s))" % scm.hexlit(a), "spec1 7 %s" % zhex(a), ("ei", a), abs(a) > FIXMAX))
        else:                         # rationals
            def frac():
                n = rng.choice(lat[:60] + BX + [rng.getrandbits(rng.choice([3, 30, 62, 64, 130])) * rng.choice([1, -1])])
                dd = rng.choice([1, 2, 3, 4, 6, 7, 10, 1 << 62, -(1 << 62), (1 << 62) - 1, 1 << 64, -(1 << 64), (1 << 64) + 1,
                                 rng.getrandbits(rng.choice([3, 30, 62, 64, 130])) + 1]) * rng.choice([1, 1, -1])
                if rng.random() < 0.25:
                    g = rng.choice([2, 3, 1 << 32, 1 << 64, (1 << 64) - 1])
                    n, dd = n * g, dd * g
                elif rng.random() < 0.12:      # numerator = most negative fixnum after reduction; 2r next to d for round
                    n = rng.choice([-(1 << 62), -(1 << 61), 1 << 62])
                    dd = rng.choice([3, 5, 7, (1 << 61) + 1, (1 << 62) - 1, (1 << 62) + 1])
                return n, dd
            n1, d1 = frac()
            if rng.random() < 0.6:
                idx, tmpl = rng.choice(QOPS2)
                n2, d2 = frac()
                if rng.random() < 0.15:
                    n2, d2 = n1 + rng.choice([0, 1, -1]), d1
                e = "(let ((a (/ %s %s)) (b (/ %s %s))) (let ((r %s)) (if (and (equal? a (/ %s %s)) (equal? b (/ %s %s))) r (error \"operand-mutated\"))))" % (
                    scm.hexlit(n1), scm.hexlit(d1), scm.hexlit(n2), scm.hexlit(d2), tmpl, scm.hexlit(n1), scm.hexlit(d1), scm.hexlit(n2), scm.hexlit(d2))
                cases.append(("ratio:%s" % tmpl.split()[0].strip("("), e, "specq2 %d %s %s %s %s" % (idx, zhex(n1), zhex(d1), zhex(n2), zhex(d2)),
                              (tmpl, n1, d1, n2, d2), True))
            else:
                idx, tmpl = rng.choice(QOPS1)
                e = "(let ((a (/ %s %s))) (let ((r %s)) (if (equal? a (/ %s %s)) r (error \"operand-mutated\"))))" % (
                    scm.hexlit(n1), scm.hexlit(d1), tmpl, scm.hexlit(n1), scm.hexlit(d1))
                cases.append(("ratio:%s" % tmpl.split()[0].strip("("), e, "specq1 %d %s %s" % (idx, zhex(n1), zhex(d1)), (tmpl, n1, d1), True))
    return cases


# ---------------------------------------------------------------------------------------------- round 2
# exact complex numbers (Gaussian rationals): type-pair table of sexp_add/sub/mul/div x boundary values
CPX_INTS = [0, 1, -1, 2, -2, 3, FIXMAX, -FIXMAX - 1, FIXMAX + 1, -FIXMAX - 2, 1 << 61, -(1 << 61), (1 << 61) + 1, B64, -B64 + 1, (1 << 128) - 1]
CPX_RATS = [(1, 2), (-1, 2), (3, 4), (-5, 3), (-(1 << 62), 3), ((1 << 62) - 1, 2), ((1 << 64) + 1, 1 << 62), (-1, 1 << 64), (7, (1 << 62) + 1),
            (1 << 61, 3), (-(1 << 61) - 1, 1 << 61)]
COPS = [(0, "(+ a b)"), (1, "(- a b)"), (2, "(* a b)"), (3, "(/ a b)"), (4, "(= a b)")]


def _qlit(n, d):
    return scm.hexlit(n) if d == 1 else "(/ %s %s)" % (scm.hexlit(n), scm.hexlit(d))


def _clit(re, im):
    return _qlit(*re) if im[0] == 0 else "(make-rectangular %s %s)" % (_qlit(*re), _qlit(*im))


def _ckind(re, im):
    if im[0] != 0:
        return "c"
    return "r" if re[1] != 1 else tcls(re[0])


def gen_complex(ctx, rng, n):
    """operands of every kind {fixnum, bignum, ratio, complex with fixnum/bignum/ratio parts}; every case has a complex operand"""
    from fractions import Fraction
    cases = []

    def part(kind=None):
        kind = kind or rng.choice("fbrr")
        if kind == "r":
            n_, d_ = rng.choice(CPX_RATS) if rng.random() < 0.7 else (rng.getrandbits(rng.choice([5, 62, 70])) - 9, rng.getrandbits(rng.choice([3, 62, 66])) + 2)
            fr = Fraction(n_, d_)
            return (fr.numerator, fr.denominator)
        while True:
            v = rng.choice(CPX_INTS) if rng.random() < 0.8 else (rng.getrandbits(rng.choice([8, 62, 64, 130])) - 77)
            if (kind == "f") == (-(1 << 62) <= v <= FIXMAX):
                return (v, 1)

    def operand(kind):
        if kind == "c":
            im = part()
            while im[0] == 0:
                im = part()
            return part(), im
        return part(kind), (0, 1)

    def add(idx, tmpl, x, y):
        la, lb = _clit(*x), _clit(*y)
        e = ("(let ((a %s) (b %s)) (let ((r %s)) (if (and (equal? a %s) (equal? b %s)) "
             "(if (boolean? r) r (values (real-part r) (imag-part r) r)) (error \"operand-mutated\"))))" % (la, lb, tmpl, la, lb))
        q = "specc2 %d %s" % (idx, " ".join(zhex(v) for v in (x[0] + x[1] + y[0] + y[1])))
        cases.append(("cpx:%s:%s%s" % (tmpl.split()[0].strip("("), _ckind(*x), _ckind(*y)), e, q, ("cpx", tmpl, x, y), True))

    # the witnesses of F-C04-9/10/11 first, then the full type-pair table, then seeded operands
    H, M = (1, 2), (-(1 << 62), 1)
    fixed = [(1, (H, (0, 1)), ((3, 4), (-5, 1))), (1, ((3, 4), (-5, 1)), (H, (0, 1))), (1, ((5, 1), (0, 1)), (H, (3, 4))),
             (1, (H, (3, 4)), (H, (3, 4))), (1, ((1, 1), (0, 1)), (M, M)), (1, ((0, 1), (0, 1)), (M, M)), (1, ((0, 1), (0, 1)), ((-(1 << 62), 3), (1, 1))),
             (3, (H, (0, 1)), ((3, 4), (-5, 1))), (3, ((3, 4), (-5, 1)), (H, (0, 1))),
             (2, ((1 << 61, 1), (1, 1)), ((1, 1), (-(1 << 61), 1))), (3, ((1 << 61, 1), (1 << 61, 1)), ((1, 1), (-1, 1))),
             (1, ((1 << 70, 1), (1, 1)), ((5, 1), (0, 1))), (1, ((5, 1), (0, 1)), ((1 << 70, 1), (1, 1))), (3, (H, (3, 4)), ((0, 1), (0, 1)))]
    for idx, x, y in fixed:
        add(idx, COPS[idx][1], x, y)
    # expt of an exact rational / exact complex base to an exact integer exponent (sexp_generic_expt: square and multiply over
    # sexp_mul, reciprocal for a negative exponent); integer bases with negative exponents (sexp_bignum_expt + sexp_div)
    def add_expt(x, e_):
        lx = _clit(*x)
        e = ("(let ((a %s)) (let ((r (expt a %d))) (if (equal? a %s) (values (real-part r) (imag-part r) r) (error \"operand-mutated\"))))" % (lx, e_, lx))
        cases.append(("cpx:expt:%s" % _ckind(*x), e, "specc_expt %s %s" % (" ".join(zhex(v) for v in (x[0] + x[1])), zhex(e_)), ("cpxexpt", x, e_), True))
    for x, e_ in [((H, (0, 1)), -1), ((H, (0, 1)), 0), (((-2, 3), (0, 1)), -3), (((2, 1), (0, 1)), -2), (((-3, 1), (0, 1)), -3), (((1 << 70, 1), (0, 1)), -1),
                  (((0, 1), (1, 1)), 2), (((0, 1), (1, 1)), 3), (((1, 1), (1, 1)), -2), ((H, (3, 4)), 2), (((1 << 62, 1), (1, 1)), 3), (((0, 1), (-1, 2)), -5),
                  ((M, (0, 1)), -1), (((-(1 << 62), 3), (0, 1)), -2), (((1, 1), (-1, 1)), 40), (((0, 1), (0, 1)), 0)]:
        add_expt(x, e_)
    for _ in range(max(20, n // 10)):
        x = operand(rng.choice("fbrcc"))
        e_ = rng.choice([-7, -3, -2, -1, 0, 1, 2, 3, 5, 8, rng.randrange(-12, 13)])
        if x[0][0] == 0 and x[1][0] == 0 and e_ < 0:
            e_ = -e_
        add_expt(x, e_)
    for ka in "fbrc":
        for kb in "fbrc":
            if "c" not in (ka, kb):
                continue
            for idx, tmpl in COPS:
                add(idx, tmpl, operand(ka), operand(kb))
    for _ in range(n):
        ka, kb = rng.choice(["c" + rng.choice("fbrc"), rng.choice("fbrc") + "c"])
        idx, tmpl = rng.choice(COPS)
        x, y = operand(ka), operand(kb)
        r0 = rng.random()
        if r0 < 0.1:
            y = x                                          # z op z: aliasing, exact zero / one results
        elif r0 < 0.2 and x[1][0]:
            y = (x[0], (-x[1][0], x[1][1]))                # conjugate: the product / sum collapses to a real
        elif r0 < 0.3:
            y = ((-x[0][0], x[0][1]), (-x[1][0], x[1][1]))
        add(idx, tmpl, x, y)
    return cases


def _agree_cpx(spec, impl):
    if impl is None:
        return False, "no output"
    if spec == "DIVZERO":
        return (impl.startswith("ERR") and "operand-mutated" not in impl), "expected a divide-by-zero error"
    if impl.startswith(("ERR", "CRASH", "TIMEOUT")):
        return False, "error / crash where a value is defined"
    if spec.startswith("B "):
        return impl == ("#t" if spec[2] == "1" else "#f"), "boolean"
    exp = [_z(x) for x in spec[2:].split(",")]
    got = impl.split(" ")
    if len(got) != 3 or len(exp) != 4:
        return False, "number of values"
    for tok, n, dd in ((got[0], exp[0], exp[1]), (got[1], exp[2], exp[3])):
        if dd == 1:
            p = scm.parse_int(tok)
            if p is None or p[1] != n:
                return False, "part is not the exact value"
            if (p[0] == "f") != (-(1 << 62) <= n <= FIXMAX):
                return False, "part not canonical (fixnum iff it fits)"
        elif tok != "%d/%d" % (n, dd):
            return False, "part is not the reduced exact ratio"
    if exp[2] == 0 and ("i" in got[2]):
        return False, "not canonical: complex object with exact zero imaginary part"
    if exp[2] != 0 and not got[2].endswith("i"):
        return False, "imaginary part lost"
    return True, ""


def _model_agrees(m, sp):
    if sp == "DIVZERO":
        return m == "EXC"
    if sp == "UNDEF":
        return m in ("NOTFINITE", "EXC")
    if not (m.startswith("M ") and sp.startswith("V ")):
        return False
    toks, exp = m[2:].split(" "), [_z(x) for x in sp[2:].split(",")]
    if len(toks) != len(exp):
        return False
    for t, x in zip(toks, exp):
        if _num(t) != x or (t.startswith("f:") != (-(1 << 62) <= x <= FIXMAX)):
            return False
    return True


def radix_digits(spec_line):
    """text of a spec_radix / spec_radix_q / spec_radix_c result: sign, digits, -1 = '/', -2 = start of the imaginary part"""
    vals = [_z(x) for x in spec_line[2:].split(",")]
    parts, cur = [], []
    for v in vals:
        if v == -2:
            parts.append(cur)
            cur = []
        else:
            cur.append(v)
    parts.append(cur)
    txt = [("-" if p_[0] < 0 else "") + "".join("/" if v < 0 else DIG[v] for v in p_[1:]) for p_ in parts]
    if len(txt) == 1:
        return txt[0]
    return txt[0] + ("" if txt[1].startswith("-") else "+") + txt[1] + "i"


def gen_radix_q(ctx, rng, exe, lat, n):
    """exact rationals in radix 2/8/10/16 (string->number, #x literals) and 2..36 (number->string):
    fixnum and bignum numerators / denominators, unreduced text, negative numbers"""
    from fractions import Fraction
    small = [v for v in lat if abs(v).bit_length() <= 300]
    pool = BX + [3, -3, 5, 7, 10, 255, (1 << 64) + 1, (1 << 68), -(1 << 68)] + small[:40]
    raw = []
    for r in (2, 8, 10, 16):      # the F-C04-12 witness in every radix: bignum numerator, denominator "10"
        raw += [(r, r ** 40, r), (r, -(r ** 40) - 1, r * r), (r, r, r ** 40 + 1), (r, FIXMAX + 1, 3), (r, FIXMAX, 3), (r, 3, FIXMAX + 1), (r, -FIXMAX - 1, 3)]
    for _ in range(n):
        r = rng.choice([2, 8, 10, 16, 16, 16, 2, rng.randrange(2, 37)])
        nn = rng.choice(pool) if rng.random() < 0.7 else rng.getrandbits(rng.choice([10, 62, 64, 130])) * rng.choice([1, -1])
        dd = abs(rng.choice(pool)) if rng.random() < 0.6 else rng.getrandbits(rng.choice([4, 62, 64, 130]))
        dd = dd or rng.choice([2, 3, 10, 16])
        if rng.random() < 0.2:
            g = rng.choice([2, 3, 16, 1 << 64])
            nn, dd = nn * g, dd * g
        raw.append((r, nn, dd))
    pre = []
    for r, nn, dd in raw:
        pre += ["spec_radix %x %s" % (r, zhex(nn)), "spec_radix %x %s" % (r, zhex(dd))]
    po = ctx.run_model(exe, pre)
    cases = []
    for k, (r, nn, dd) in enumerate(raw):
        tn, td = radix_digits(po[2 * k]), radix_digits(po[2 * k + 1])
        fr = Fraction(nn, dd)
        nt = max(abs(nn), abs(dd)) > FIXMAX
        cases.append(("qradix:number->string", "(number->string (/ %s %s) %d)" % (scm.hexlit(nn), scm.hexlit(dd), r),
                      "spec_radix_q %x %s %s" % (r, zhex(nn), zhex(dd)), ("qn2s", r, nn, dd), nt))
        if rng.random() < 0.25:      # exact complex numbers: both parts in radix r, the sign of the imaginary part written once
            n2, d2 = rng.choice(pool) or 1, abs(rng.choice(pool)) or 3
            if rng.random() < 0.5:
                n2 = -abs(n2)
            cases.append(("qradix:number->string:complex", "(number->string (make-rectangular (/ %s %s) (/ %s %s)) %d)" % (scm.hexlit(nn), scm.hexlit(dd), scm.hexlit(n2), scm.hexlit(d2), r),
                          "spec_radix_c %x %s %s %s %s" % (r, zhex(nn), zhex(dd), zhex(n2), zhex(d2)), ("qn2sc", r, nn, dd, n2, d2), True))
        if r not in (2, 8, 10, 16):
            continue
        txt = tn + "/" + td
        if rng.random() < 0.4:
            txt = "".join(c.upper() if rng.random() < 0.5 else c for c in txt)
        form = rng.random()
        if form < 0.6:
            e = '(string->number "%s" %d)' % (txt, r)
        elif form < 0.8:
            e = '(string->number "#%s%s")' % ({2: "b", 8: "o", 10: "d", 16: "x"}[r], txt)
        else:
            e = '(read (open-input-string "#%s%s"))' % ({2: "b", 8: "o", 10: "d", 16: "x"}[r], txt)
        cases.append(("qradix:string->number", e, "spec_q %s %s" % (zhex(nn), zhex(dd)), ("qs2n", r, txt, form < 0.6), nt))
        # round trip through the implementation's own text
        cases.append(("qradix:roundtrip", "(string->number (number->string (/ %s %s) %d) %d)" % (scm.hexlit(nn), scm.hexlit(dd), r, r),
                      "spec_q %s %s" % (zhex(nn), zhex(dd)), ("qrt", r, nn, dd), nt))
    return cases


def _agree_qradix(spec, impl):
    if impl is None or impl.startswith(("ERR", "CRASH", "TIMEOUT")):
        return False, "error where a value is defined"
    if impl.endswith(('+i"', '-i"')):        # the decimal printer abbreviates an imaginary part of +-1 (R7RS syntax "+i" / "-i")
        impl = impl[:-2] + '1i"'
    return impl == '"%s"' % radix_digits(spec), "text of the ratio in this radix"


# exact <-> inexact: binary64 bit patterns
def _bits_of(x):
    import struct
    return struct.unpack(">Q", struct.pack(">d", x))[0]


def _float_of(bits):
    import struct
    return struct.unpack(">d", struct.pack(">Q", bits))[0]


def flo_expr(bits):
    """a Scheme expression whose value is the finite double with these bits, built from exact steps only:
    a fixnum below 2^53 converted by the C cast, times two powers of two (each product is representable, hence exact)"""
    from fractions import Fraction
    x = _float_of(bits)
    if x == 0:
        return "0."
    fr = Fraction(x)
    m, k = fr.numerator, 0
    if fr.denominator != 1:
        k = -(fr.denominator.bit_length() - 1)
    while m % 2 == 0:
        m //= 2
        k += 1
    k1 = k // 2
    return "(* (* (inexact %d) (expt 2. %d)) (expt 2. %d))" % (m, k1, k - k1)


def conv_bits(rng, thorough):
    out = set()
    ks = range(-1074, 1024) if thorough else sorted(set([-1074, -1073, -1072, -1030, -1023, -1022, -1021, -1, 0, 1, 52, 53, 54, 61, 62, 63, 64, 65, 127, 128, 1022, 1023]
                                                       + [rng.randrange(-1074, 1024) for _ in range(60)]))
    for k in ks:
        b = _bits_of(2.0 ** k)
        for nb in (b - 1, b, b + 1):
            if 0 < nb < 0x7FF0000000000000:
                out.add(nb)
                if nb == b or not thorough:
                    out.add(nb | (1 << 63))
    for _ in range(150 if not thorough else 1500):
        e = rng.choice([0, 1, 2, 1022, 1023, 1023 + 52, 1023 + 53, 1023 + 61, 1023 + 62, 1023 + 63, 1023 + 64, 2046, rng.randrange(0, 2047)])
        f = rng.choice([0, 1, (1 << 52) - 1, 1 << 51, rng.getrandbits(52), rng.getrandbits(52) & ~((1 << rng.randrange(0, 52)) - 1)])
        out.add((rng.getrandbits(1) << 63) | (e << 52) | f)
    return sorted(out)


def gen_conv(ctx, rng, exe):
    from fractions import Fraction
    bits = conv_bits(rng, ctx.thorough)
    cases = []
    qs = []
    for b in bits:
        cases.append(("convert:exact:%s" % ("integer" if _float_of(b) == int(_float_of(b)) else "dyadic"), "(exact %s)" % flo_expr(b),
                      "spec_exact_bits %x" % b, ("exact", b), True))
        fr = Fraction(_float_of(b))
        qs.append((fr.numerator, fr.denominator, b))
        if rng.random() < 0.15:        # unreduced: huge numerator AND denominator, representable quotient
            g = rng.choice([3 ** 700, (1 << 1100) + 1, 10 ** 400])
            qs.append((fr.numerator * g, fr.denominator * g, b))
    po = ctx.run_model(exe, ["spec_inexact_bits %s %s" % (zhex(n), zhex(d)) for n, d, _ in qs])
    for (n, d, b), sp in zip(qs, po):
        if not sp.startswith("V "):
            ctx.broken("spec:inexact_bits", "the spec finds no double for the value of the double %x: %s" % (b, sp))
            continue
        sb = _z(sp[2:])
        if sb != (b if _float_of(b) != 0 else 0):
            ctx.broken("spec:inexact_bits", "spec bits %x differ from the generating double %x" % (sb, b))
            continue
        f = flo_expr(sb)
        e = "(let ((x (inexact (/ %s %s)))) (if (eqv? x %s) (exact x) x))" % (scm.hexlit(n), scm.hexlit(d), f)
        kind = "integer" if d == 1 else ("ratio-huge-denominator" if d.bit_length() > 1024 else "ratio")
        cases.append(("convert:inexact:%s" % kind, e, "spec_q %s %s" % (zhex(n), zhex(d)), ("inexact", n, d), True))
    return cases


# ---------------------------------------------------------------------------------------------------------------
# round 3: comparisons in which an operand is a flonum (stream `cmpx:`).  A finite double denotes an exact dyadic
# rational; the expected answers come from the extracted Coq spec SpecCmp (order of the rationals, +-inf, NaN false).
def _near_doubles(fr):
    """bits of the double nearest to the fraction and of its two neighbours (the three adversarial flonums)"""
    try:
        x = fr.numerator / fr.denominator          # int / int is correctly rounded
    except OverflowError:
        x = float("inf") if fr > 0 else float("-inf")
    if x in (float("inf"), float("-inf")):
        mx = 0x7FEFFFFFFFFFFFFF | ((1 << 63) if x < 0 else 0)
        return [mx, mx - 1]
    b = _bits_of(x)
    if (b & ~(1 << 63)) == 0:
        return [0, 1, (1 << 63) | 1]
    return [b, b - 1, b + 1 if (b + 1) & 0x7FF0000000000000 != 0x7FF0000000000000 else b]


def _cmpx_exacts(rng, thorough):
    from fractions import Fraction as Fr
    out = [Fr(0), Fr(1), Fr(-1), Fr(1, 3), Fr(-1, 3), Fr(2, 3), Fr(1, 10), Fr((1 << 79) + 1, 1 << 80), Fr((1 << 79) - 1, 1 << 80),
           Fr(3 * 10 ** 30 + 1, 3), Fr(3, 8), Fr(-3, 8), Fr(1, 2),
           Fr(1 << 53), Fr((1 << 53) + 1), Fr((1 << 53) - 1), Fr(-(1 << 53) - 1), Fr((1 << 54) + 1), Fr((1 << 54) + 2), Fr((1 << 54) + 3),
           Fr((1 << 61) + 1), Fr((1 << 61) - 1), Fr(FIXMAX), Fr(FIXMAX - 1), Fr(-(1 << 62)), Fr(-(1 << 62) + 1),
           Fr(1 << 62), Fr((1 << 62) + 1), Fr(-(1 << 62) - 1), Fr((1 << 62) + (1 << 9)), Fr((1 << 62) + (1 << 9) + 1), Fr((1 << 63) - 1), Fr((1 << 63) + 1),
           Fr(1 << 64), Fr((1 << 64) + 1), Fr((1 << 64) - 1), Fr(-(1 << 64) - 1), Fr((1 << 64) + (1 << 11)), Fr((1 << 64) + (1 << 11) + 1),
           Fr((1 << 64) + (1 << 12) - 1), Fr((1 << 128) + 1), Fr(10 ** 30), Fr(1 << 1023), Fr((1 << 1023) + 1), Fr(-(1 << 1023) - 1),
           Fr((1 << 1024) - (1 << 970)), Fr((1 << 1024) - (1 << 970) + 1), Fr((1 << 1024) - (1 << 970) - 1), Fr(1 << 1024), Fr(-(1 << 1024)), Fr((1 << 1100) + 1),
           Fr(1, 1 << 1074), Fr(1, (1 << 1074) + 1), Fr(1, (1 << 1074) - 1), Fr(-1, (1 << 1074) + 1), Fr(3, 1 << 1075), Fr(1, 1 << 1075), Fr(1, 1 << 1080),
           Fr(1, 3 << 1070), Fr((1 << 52) + 1, 1 << 1074), Fr((1 << 53) + 1, 1 << 1075), Fr(1, 1 << 1022), Fr((1 << 60) + 1, (1 << 1082)),
           Fr((1 << 62) + 1, 3), Fr(-(1 << 62), 3), Fr((1 << 64) + 1, 1 << 11), Fr((1 << 200) + 1, (1 << 199) + 1), Fr(7, (1 << 64) + 1), Fr(-(1 << 62), (1 << 62) + 1)]
    for _ in range(40 if not thorough else 600):
        k = rng.randrange(8)
        if k == 0:
            out.append(Fr(rng.getrandbits(rng.choice([20, 53, 54, 60, 62])) * rng.choice([1, -1])))
        elif k == 1:
            out.append(Fr((1 << rng.choice([62, 63, 64, 65, 100, 127, 128, 200, 500, 1000, 1023])) + rng.choice([-1, 0, 1, 1 << 11, (1 << 11) + 1, rng.getrandbits(40)])) * rng.choice([1, -1]))
        elif k == 2:                     # a double's value +- a tiny exact amount: within half an ulp of that double
            x = Fr(_float_of((rng.getrandbits(1) << 63) | (rng.choice([1, 2, 1000, 1022, 1023, 1024, 1075, 1086, 1087, 2000, 2046, rng.randrange(1, 2047)]) << 52) | rng.getrandbits(52)))
            out.append(x + Fr(rng.choice([1, -1]), 1 << rng.choice([1080, 1100, 1200])) if rng.random() < 0.7 else x)
        elif k == 3:
            out.append(Fr(rng.getrandbits(rng.choice([10, 62, 64, 70, 130])) + 1, rng.choice([3, 7, 10, (1 << 62) + 1, (1 << 64) - 1, 3 ** 50])) * rng.choice([1, -1]))
        elif k == 4:                     # dyadic ratios: equal to a double when the numerator has at most 53 bits
            out.append(Fr(rng.getrandbits(rng.choice([5, 52, 53, 54, 55, 64])) | 1, 1 << rng.choice([1, 10, 52, 53, 62, 64, 100, 1022, 1074])) * rng.choice([1, -1]))
        elif k == 5:                     # subnormal range
            out.append(Fr(rng.getrandbits(rng.choice([1, 10, 52, 53])) + 1, (1 << 1074) + rng.choice([0, 0, 1, -1])) * rng.choice([1, -1]))
        elif k == 6:
            out.append(Fr(rng.randrange(-50, 50), rng.randrange(1, 50)))
        else:
            out.append(Fr((1 << 1024) - (1 << 970) + rng.choice([-1, 0, 1, 1 << 969, (1 << 969) + 1, (1 << 969) - 1])) * rng.choice([1, -1]))
    return out


def _ekind(fr):
    return "r" if fr.denominator != 1 else tcls(fr.numerator)


class _Op:
    """one operand of a cmpx case: spec triple, model / harness operand, Scheme text"""
    def __init__(self, fr=None, bits=None):
        self.fr, self.bits = fr, bits
        if fr is not None:
            self.kind = _ekind(fr)
            self.spec = "0 %s %s" % (zhex(fr.numerator), zhex(fr.denominator))
            self.scm = _qlit(fr.numerator, fr.denominator)
            self.inner = ("n %s -" % numstr(None, fr.numerator, False)) if fr.denominator == 1 else "q %s %s" % (numstr(None, fr.numerator, False), numstr(None, fr.denominator, False))
        else:
            self.kind = "d"
            self.spec = "1 %x 0" % bits
            mag = bits & ~(1 << 63)
            if mag == 0x7FF0000000000000:
                self.scm, self.inner = ("(/ -1. 0.)", "i - -") if bits >> 63 else ("(/ 1. 0.)", "i + -")
            elif mag > 0x7FF0000000000000:
                self.scm, self.inner = "(/ 0. 0.)", "x - -"
            else:
                self.scm = flo_expr(bits) if mag else ("(* -1. 0.)" if bits >> 63 else "0.")
                self.inner = "d %x -" % bits
        self.key = self.spec


PINF, NINF, NAN_ = 0x7FF0000000000000, 0xFFF0000000000000, 0x7FF8000000000000


def gen_cmpx(ctx, rng):
    """returns (outer cases, inner requests [(harness/model request, spec request, sig)])"""
    from fractions import Fraction as Fr
    exacts = _cmpx_exacts(rng, ctx.thorough)
    special = [0, 1 << 63, PINF, NINF, NAN_, 1, 0x0010000000000000, 0x7FEFFFFFFFFFFFFF, 0xFFEFFFFFFFFFFFFF, _bits_of(0.5), _bits_of(1e30), _bits_of(2.0 ** 62), _bits_of(-2.0 ** 62), _bits_of(2.0 ** 53)]
    pairs = []
    for fr in exacts:
        ds = _near_doubles(fr)
        ds.append(rng.choice(special))
        if ctx.thorough:
            ds.append(rng.choice(special))
            ds.append((rng.getrandbits(1) << 63) | (rng.randrange(0, 2047) << 52) | rng.getrandbits(52))
        for b in ds:
            pairs.append((_Op(fr=fr), _Op(bits=b)))
    # every special double (+-0, +-inf, NaN, extreme doubles ...) against one representative of every exact kind, in every run
    for fr in (Fr(0), Fr((1 << 53) + 1), Fr(-(1 << 62)), Fr((1 << 64) + 1), Fr(-(1 << 1023) - 1), Fr(1 << 1024), Fr(1, 3), Fr(-7, (1 << 64) + 1),
               Fr((1 << 200) + 1, (1 << 199) + 1), Fr(1, (1 << 1074) + 1)):
        for b in special:
            pairs.append((_Op(fr=fr), _Op(bits=b)))
    # flonum against flonum, and exact against exact of different kinds through the same entry point
    for _ in range(30 if not ctx.thorough else 600):
        b = (rng.getrandbits(1) << 63) | (rng.randrange(0, 2047) << 52) | rng.getrandbits(52)
        pairs.append((_Op(bits=b), _Op(bits=rng.choice([b, b + 1, b ^ (1 << 63), rng.choice(special)]))))
        pairs.append((_Op(fr=rng.choice(exacts)), _Op(fr=rng.choice(exacts))))
    cases, inner = [], []
    OPS = ["=", "<", ">", "<=", ">="]
    for x, y in pairs:
        sig = "cmpx:all:%s%s" % (x.kind, y.kind)
        e = "(let ((a %s) (b %s)) (values %s %s))" % (x.scm, y.scm, " ".join("(if (%s a b) 1 0)" % o for o in OPS), " ".join("(if (%s b a) 1 0)" % o for o in OPS))
        cases.append((sig, e, "spec_cmpx_all %s %s" % (x.spec, y.spec), ("cmpx", x.key, y.key), True))
        for u, v in ((x, y), (y, x)):
            inner.append(("x_compare %s %s" % (u.inner, v.inner), "spec_cmpx_sgn %s %s" % (u.spec, v.spec), "cmpx:sexp_compare:%s%s" % (u.kind, v.kind)))
            op = rng.randrange(5)
            inner.append(("vm_cmp%d %s %s" % (op, u.inner, v.inner), "spec_cmpx2 %d %s %s" % (op, u.spec, v.spec), "cmpx:vm:%s:%s%s" % (OPS[op], u.kind, v.kind)))
    # three arguments: (op a b c) = (and (op a b) (op b c)); R7RS requires transitivity, so a flonum between two exact
    # numbers that round to it (and an exact number between two flonums) must order correctly
    trip = []
    for fr in exacts:
        ds = _near_doubles(fr)
        for b in ds[:2]:
            fv = Fr(_float_of(b)) if (b & ~(1 << 63)) < PINF else None
            other = rng.choice(exacts) if fv is None or rng.random() < 0.3 else rng.choice([2 * fv - fr, fr, fv, fv + (fv - fr) / 3, fr + Fr(1, 1 << 1200)])
            trip.append((_Op(fr=fr), _Op(bits=b), _Op(fr=other)))
            trip.append((_Op(bits=b), _Op(fr=fr), _Op(bits=rng.choice(ds))))
    if not ctx.thorough:
        trip = rng.sample(trip, min(len(trip), 160))
    for x, y, z in trip:
        sig = "cmpx:3:%s%s%s" % (x.kind, y.kind, z.kind)
        if rng.random() < 0.25:
            e = "(let ((a %s) (b %s) (c %s)) (values %s))" % (x.scm, y.scm, z.scm, " ".join("(if (apply %s (list a b c)) 1 0)" % o for o in OPS))
        else:
            e = "(let ((a %s) (b %s) (c %s)) (values %s))" % (x.scm, y.scm, z.scm, " ".join("(if (%s a b c) 1 0)" % o for o in OPS))
        cases.append((sig, e, "spec_cmpx3_all %s %s %s" % (x.spec, y.spec, z.spec), ("cmpx3", x.key, y.key, z.key), True))
    # max / min with one flonum: the result is inexact (contagion) and, when the winner is exactly representable, its
    # exact value is the winner's.  Only pairs whose two values are both doubles are generated (the spec judges).
    mm = []
    for x, y in pairs:
        if x.fr is None or y.bits is None or (y.bits & ~(1 << 63)) >= PINF:
            continue
        try:
            xf = x.fr.numerator / x.fr.denominator
        except OverflowError:
            continue
        if Fr(xf) == x.fr:
            mm.append((x, y))
    if not ctx.thorough:
        mm = rng.sample(mm, min(len(mm), 60))
    for x, y in mm:
        for op, name in ((0, "max"), (1, "min")):
            u, v = (x, y) if rng.random() < 0.5 else (y, x)
            e = "(let ((r (%s %s %s))) (if (inexact? r) (exact r) (error \"exact result of max/min with an inexact argument\")))" % (name, u.scm, v.scm)
            cases.append(("cmpx:%s:%s%s" % (name, u.kind, v.kind), e, "spec_maxmin %d %s %s" % (op, u.spec, v.spec), ("cmpx-" + name, u.key, v.key), True))
    return cases, inner


def gen_radix(rng, lat, n):
    out = []
    for i in range(n):
        z = rng.choice(lat + BX)
        if z.bit_length() > 1500:
            z = rng.choice(BX)
        r = rng.choice([2, 3, 7, 8, 10, 16, 17, 35, 36, rng.randrange(2, 37)])
        out.append((r, z))
    return out


def _agree(spec, impl):
    """spec: 'V h1,h2' | 'B 0/1' | 'DIVZERO' | 'UNDEF'; impl: verif-show output"""
    if impl is None:
        return False, "no output"
    if spec == "DIVZERO":
        return (impl.startswith("ERR") and "operand-mutated" not in impl), "expected a divide-by-zero error"
    if spec == "UNDEF":
        return (not impl.startswith("CRASH") and impl != "TIMEOUT"), "must not crash"
    if impl.startswith(("ERR", "CRASH", "TIMEOUT")):
        return False, "error where a value is defined"
    if spec.startswith("B "):
        return impl == ("#t" if spec[2] == "1" else "#f"), "boolean"
    exp = [int(x, 16) for x in spec[2:].split(",")]
    if impl.startswith('"'):                      # number->string: sign + digit values
        txt = impl.strip('"')
        sign = -1 if txt.startswith("-") else 1
        body = txt[1:] if sign < 0 else txt
        try:
            got = [sign] + [DIG.index(c) for c in body]
        except ValueError:
            return False, "character that is not a digit"
        return got == exp, "digits"
    if "/" in impl and " " not in impl:           # a ratio n/d in decimal: must be the reduced pair
        try:
            n, dd = [int(x) for x in impl.split("/")]
        except ValueError:
            return False, "unparsable ratio"
        return len(exp) == 2 and [n, dd] == exp and dd > 1, "ratio not equal to the reduced fraction with positive denominator"
    if len(exp) == 2 and exp[1] == 1 and " " not in impl:   # rational spec whose value is an integer
        exp = exp[:1]
    got = impl.split(" ")
    if len(got) != len(exp):
        return False, "number of values"
    for g, x in zip(got, exp):
        p = scm.parse_int(g)
        if p is None or p[1] != x:
            return False, "value"
        if (p[0] == "f") != (-(1 << 62) <= x <= FIXMAX):
            return False, "not canonical (fixnum iff it fits)"
    return True, ""


def _val(ws):
    if ws.strip() == "_":
        return 0
    v = 0
    for i, w in enumerate(ws.split(",")):
        v += int(w, 16) << (64 * i)
    return v


def _judge_inner(q, out):
    """True if the C output has the mathematically right value for request q (so only the model is off)"""
    f = q.split()
    try:
        if f[0] == "add_digits":
            return _val(out) == _val(f[1]) + _val(f[2])
        if f[0] == "sub_digits":
            return _val(out) == abs(_val(f[1]) - _val(f[2]))
        if f[0] == "compare_abs":
            c = int(out, 16) if not out.startswith("-") else -int(out[1:], 16)
            dlt = _val(f[1]) - _val(f[2])
            return (c > 0) == (dlt > 0) and (c < 0) == (dlt < 0)
        if f[0] in ("bignum_add", "bignum_sub"):
            s, ws = out.split(" ")
            a = int(f[1]) * _val(f[2])
            b = int(f[3]) * _val(f[4])
            return int(s) * _val(ws) == (a + b if f[0] == "bignum_add" else a - b)
        big = lambda sg, ws: int(sg) * _val(ws)
        if f[0] == "fxadd":
            return _val(out) == _val(f[1]) + int(f[2], 16)
        if f[0] == "fxsub":
            s_, ws = out.split(" ")
            return int(s_) * _val(ws) == big(f[1], f[2]) - int(f[1]) * int(f[3], 16)
        if f[0] == "fxmul":
            return _val(out) == _val(f[1]) * int(f[2], 16) * (1 << (64 * int(f[3])))
        if f[0] == "fxdiv":
            ws, r_ = out.split(" ")
            off = int(f[3]); b = int(f[2], 16); a = _val(f[1])
            lowmask = (1 << (64 * off)) - 1
            return (_val(ws) >> (64 * off)) * b + int(r_, 16) == (a >> (64 * off)) and 0 <= int(r_, 16) < b and (_val(ws) & lowmask) == (a & lowmask)
        if f[0] == "fxrem":
            b = _z(f[3])
            if b == 0:
                return out == "EXC"
            a = big(f[1], f[2])
            return _num(out) == (abs(a) % abs(b)) * (1 if a >= 0 else -1)
        if f[0] == "normalize":
            a = big(f[1], f[2])
            return _num(out) == a and out.startswith("f:") == (-(1 << 62) <= a <= FIXMAX)
        if f[0] == "bignum_mul":
            s_, ws = out.split(" ")
            return int(s_) * _val(ws) == big(f[1], f[2]) * big(f[3], f[4])
        if f[0] == "quot_rem":
            a, b = big(f[1], f[2]), big(f[3], f[4])
            if b == 0:
                return out == "DIVZERO"
            res, ops = out.split(" | ")
            q, r_ = [_num(x) for x in res.split(" ")]
            same = ops == "%s %s %s %s" % (f[1], f[2], f[3], f[4])
            return same and a == q * b + r_ and abs(r_) < abs(b) and (r_ == 0 or (r_ < 0) == (a < 0))
        if f[0] in ("num_quotient", "num_remainder", "vm_quotient", "vm_remainder"):
            x, y = _num(f[1]), _num(f[2])
            if y == 0:
                return out == "EXC"
            q = abs(x) // abs(y) * (1 if (x < 0) == (y < 0) else -1)
            e = q if f[0].endswith("quotient") else x - q * y
            return _num(out) == e and out.startswith("f:") == (-(1 << 62) <= e <= FIXMAX)
        if f[0] in ("ratio_round", "ratio_trunc", "ratio_floor", "ratio_ceiling"):
            from fractions import Fraction
            import math
            fr = Fraction(_num(f[1]), _num(f[2]))
            e = (round(fr) if f[0] == "ratio_round" else math.trunc(fr) if f[0] == "ratio_trunc" else math.floor(fr) if f[0] == "ratio_floor" else math.ceil(fr))
            return _num(out) == e and out.startswith("f:") == (-(1 << 62) <= e <= FIXMAX)
        if f[0].startswith("ratio_"):
            from fractions import Fraction
            v = [_num(x) for x in f[1:]]
            if f[0] == "ratio_compare":
                e = Fraction(v[0], v[1]) - Fraction(v[2], v[3])
                return int(out) == (e > 0) - (e < 0)
            e = (Fraction(v[0], v[1]) if f[0] == "ratio_normalize" else Fraction(v[0], v[1]) + Fraction(v[2], v[3]) if f[0] == "ratio_add"
                 else Fraction(v[0], v[1]) - Fraction(v[2], v[3]) if f[0] == "ratio_sub"
                 else Fraction(v[0], v[1]) * Fraction(v[2], v[3]) if f[0] == "ratio_mul" else Fraction(v[0], v[1]) / Fraction(v[2], v[3]))
            canon = lambda t, z: t.startswith("f:") == (-(1 << 62) <= z <= FIXMAX)
            if out.startswith("R "):
                _, n_, d_ = out.split(" ")
                return e.denominator != 1 and _num(n_) == e.numerator and _num(d_) == e.denominator and canon(n_, e.numerator) and canon(d_, e.denominator)
            return e.denominator == 1 and _num(out) == e.numerator and canon(out, e.numerator)
        if f[0] == "num_compare":
            x, y = _num(f[1]), _num(f[2])
            return int(out) == (x > y) - (x < y)
        if f[0] == "bignum_sqrt":
            import math
            v = _val(f[1])
            s_, r_ = out.split(" ")
            return _num(s_) == math.isqrt(v) and _num(r_) == v - math.isqrt(v) ** 2
        if f[0] == "bignum_expt":
            e = big(f[1], f[2]) ** int(f[3])
            return _num(out) == e and out.startswith("f:") == (-(1 << 62) <= e <= FIXMAX)
        if f[0] == "write_bignum":
            return int(out, int(f[2])) == _val(f[1]) and (out == "0" or not out.startswith("0"))
        if f[0] == "read_number":
            e = int(f[2], int(f[1]))
            return _num(out) == e and out.startswith("f:") == (e <= FIXMAX)
        if f[0] in ("num_add", "num_sub", "num_mul", "vm_add", "vm_sub", "vm_mul"):
            x, y = _num(f[1]), _num(f[2])
            e = x + y if f[0].endswith("add") else x - y if f[0].endswith("sub") else x * y
            return _num(out) == e and out.startswith("f:") == (-(1 << 62) <= e <= FIXMAX)
    except Exception:
        return False
    return False


def _z(h):
    return -int(h[1:], 16) if h.startswith("-") else int(h, 16)


def _num(t):
    p = t.split(":")
    if p[0] == "f":
        return _z(p[1])
    return int(p[1]) * _val(p[2])
