"""C04 — exact arithmetic is exact at every magnitude.
   (T) coq/Properties_C04.v   (K-inner) harness/embed_c04.c vs extracted model, word for word
   (K-outer) Scheme API vs extracted Z spec (coq/C04/Spec.v)."""
import os, subprocess
from vlib import build as B, scm

B64 = 1 << 64
FIXMAX = (1 << 62) - 1

OPS2 = [  # (spec index, scheme expression template)
    (0, "(+ {a} {b})"), (1, "(- {a} {b})"), (2, "(* {a} {b})"), (3, "(quotient {a} {b})"),
    (4, "(remainder {a} {b})"), (5, "(modulo {a} {b})"), (6, "(floor-quotient {a} {b})"),
    (7, "(gcd {a} {b})"), (8, "(lcm {a} {b})"), (10, "(floor/ {a} {b})"), (11, "(truncate/ {a} {b})"),
    (12, "(< {a} {b})"), (13, "(= {a} {b})"), (14, "(> {a} {b})"), (15, "(<= {a} {b})"), (16, "(>= {a} {b})"),
    (17, "(max {a} {b})"), (18, "(min {a} {b})"), (3, "(truncate-quotient {a} {b})"), (4, "(truncate-remainder {a} {b})"),
    (5, "(floor-remainder {a} {b})"),
]
OPS1 = [(0, "(abs {a})"), (1, "(- {a})"), (2, "(exact-integer-sqrt {a})"), (3, "(square {a})"),
        (4, "(even? {a})"), (5, "(odd? {a})"), (6, "(fixnum? {a})")]


def lattice(rng, n_random, maxbits=400):
    vals = {0, 1, 2}
    for d in range(-2, 3):
        vals.add((1 << 62) + d)
        vals.add((1 << 61) + d)
    for k in list(range(60, 68)) + [31, 32, 33, 126, 127, 128, 129, 191, 192, 193, 255, 256, 257, 320, 384, 400]:
        vals.update([1 << k, (1 << k) - 1, (1 << k) + 1])
    # all-ones / zero interior words
    vals.add((1 << 192) - 1)
    vals.add((1 << 192) + 1)
    vals.add(((1 << 64) - 1) << 64)
    vals.add((1 << 128) | ((1 << 64) - 1))
    for _ in range(n_random):
        bits = rng.choice([8, 40, 62, 63, 64, 65, 100, 128, 130, 200, 256, maxbits, rng.randrange(1, maxbits + 1)])
        v = rng.getrandbits(bits)
        if rng.random() < 0.3:  # force interior zero / all-ones words
            w = rng.randrange(0, max(1, bits // 64 + 1))
            if rng.random() < 0.5:
                v &= ~(((1 << 64) - 1) << (64 * w))
            else:
                v |= (((1 << 64) - 1) << (64 * w))
        vals.add(v)
    out = sorted(vals)
    return out + [-v for v in out if v]


def words_of(v, spare=0):
    ws = []
    while True:
        ws.append(v & (B64 - 1))
        v >>= 64
        if not v:
            break
    return ws + [0] * spare


def wstr(ws):
    return ",".join("%x" % w for w in ws) if ws else "_"


def zhex(z):
    return ("-%x" % -z) if z < 0 else ("%x" % z)


def run(ctx):
    n_in, n_out = (4000, 6000) if not ctx.thorough else (150000, 300000)
    ctx.cov["rule"] = ("inner: word arrays (boundary lattice incl. carries across all-ones words, spare high zero words, unequal lengths) "
                       "fed to the C digit functions and the extracted model, compared word for word; outer: operand tuples over the "
                       "boundary lattice x every operation through the Scheme API vs the extracted Z spec; a case is non-trivial when "
                       "at least one operand is a bignum (|x| >= 2^62) and distinct by (op, operands)")
    # (T) theorems
    ctx.coq_obligations("Properties_C04")
    d = ctx.build("default")
    exe = ctx.extract("C04")
    if exe is None:
        return
    rng = ctx.rng
    lat = lattice(rng, 60 if not ctx.thorough else 400, 400 if not ctx.thorough else 4000)
    pos = [v for v in lat if v >= 0]
    # ------------------------------------------------------------------ inner correspondence
    emb = B.cc_embed(d, os.path.join(os.path.dirname(__file__), "..", "harness", "embed_c04.c"), os.path.join(d, "embed_c04"))
    reqs = []
    fns = ["add_digits", "sub_digits", "compare_abs"]
    for i in range(n_in):
        a, b = rng.choice(pos), rng.choice(pos)
        if rng.random() < 0.25:
            b = a + rng.choice([-1, 0, 1]) if a > 0 else b
        wa, wb = words_of(a, rng.choice([0, 0, 1, 2])), words_of(b, rng.choice([0, 0, 1, 3]))
        f = rng.choice(fns + ["bignum_add", "bignum_sub"])
        if f in fns:
            reqs.append("%s %s %s" % (f, wstr(wa), wstr(wb)))
        else:
            reqs.append("%s %s %s %s %s" % (f, rng.choice(["1", "-1"]), wstr(wa), rng.choice(["1", "-1"]), wstr(wb)))
    mo = ctx.run_model(exe, reqs)
    r = subprocess.run([emb], input="\n".join(reqs) + "\n", capture_output=True, text=True, env=B.chibi_env(d), timeout=600)
    io = r.stdout.split("\n")
    if r.returncode != 0 or len(io) < len(reqs):
        ctx.broken("inner-correspondence:C04", "embedding harness died rc=%s after %d answers: %s" % (r.returncode, len(io), r.stderr[-500:]))
    for q, m, i in zip(reqs, mo, io):
        ctx.count(1, key=q, nontrivial=("," in q))
        ctx.cov["traces_validated_against_impl"] += 1
        if m != i:
            # the model and the C function differ on this word array: is the C result wrong w.r.t. Z?
            verdict = _judge_inner(q, i)
            if verdict is False:
                ctx.violation("digit-layer:" + q.split()[0], input=q, expected_model=m, observed=i,
                              replay="echo '%s' | LD_LIBRARY_PATH=%s %s" % (q, d, emb))
            else:
                ctx.broken("correspondence:digit-layer:" + q.split()[0], "model and C differ (C result still has the right value): %s model=%s impl=%s" % (q, m, i))
    ctx.sample(dict(kind="inner", request=reqs[0], model=mo[0], impl=io[0]))
    # ------------------------------------------------------------------ outer correspondence
    exprs, specq, meta = [], [], []
    for i in range(n_out):
        if rng.random() < 0.8:
            idx, tmpl = rng.choice(OPS2)
            a, b = rng.choice(lat), rng.choice(lat)
            if rng.random() < 0.2 and b:
                a = b * rng.choice(lat[:40] + [1, -1, 3]) + rng.choice([0, 0, 1, -1])   # exact multiples / near-multiples
            if idx in (7, 8) and max(abs(a), abs(b)).bit_length() > 2000:
                continue
            exprs.append("(let ((a %s) (b %s)) (let ((r (call-with-values (lambda () %s) list))) (if (and (equal? a %s) (equal? b %s)) (apply values r) (error \"operand-mutated\"))))" % (
                scm.hexlit(a), scm.hexlit(b), tmpl.format(a="a", b="b"), scm.hexlit(a), scm.hexlit(b)))
            specq.append("spec2 %d %s %s" % (idx, zhex(a), zhex(b)))
            meta.append((tmpl, a, b))
        else:
            idx, tmpl = rng.choice(OPS1)
            a = rng.choice(lat)
            if rng.random() < 0.3:
                a = a * a + rng.choice([-1, 0, 1])
            exprs.append(tmpl.format(a=scm.hexlit(a)))
            specq.append("spec1 %d %s" % (idx, zhex(a)))
            meta.append((tmpl, a, None))
    so = ctx.run_model(exe, specq)
    io = scm.run_cases(d, exprs)
    for e, s, i, m in zip(exprs, so, io, meta):
        big = abs(m[1]) > FIXMAX or (m[2] is not None and abs(m[2]) > FIXMAX)
        ctx.count(1, key=(m[0], m[1], m[2]), nontrivial=big)
        ok, why = _agree(s, i)
        if not ok:
            ctx.violation("arith:" + m[0].split()[0].strip("("), input=e, expected=s, observed=i, why=why,
                          replay="echo '(import (scheme base) (scheme write)) (write %s)' | chibi-scheme /dev/stdin" % e)
    ctx.sample(dict(kind="outer", expr=exprs[0], spec=so[0], impl=io[0]))
    ctx.assume("flonum arithmetic, transcendental functions and complex numbers are outside this check")


def _agree(spec, impl):
    """spec: 'V h1,h2' | 'B 0/1' | 'DIVZERO' | 'UNDEF'; impl: verif-show output"""
    if impl is None:
        return False, "no output"
    if spec == "DIVZERO":
        return (impl.startswith("ERR") and "operand-mutated" not in impl), "expected a divide-by-zero error"
    if spec == "UNDEF":
        return (not impl.startswith("CRASH") and impl != "TIMEOUT"), "must not crash"
    if impl.startswith(("ERR", "CRASH", "TIMEOUT")):
        return False, "error where a value is defined"
    if spec.startswith("B "):
        return impl == ("#t" if spec[2] == "1" else "#f"), "boolean"
    exp = [int(x, 16) for x in spec[2:].split(",")]
    got = impl.split(" ")
    if len(got) != len(exp):
        return False, "number of values"
    for g, x in zip(got, exp):
        p = scm.parse_int(g)
        if p is None or p[1] != x:
            return False, "value"
        if (p[0] == "f") != (-(1 << 62) <= x <= FIXMAX):
            return False, "not canonical (fixnum iff it fits)"
    return True, ""


def _val(ws):
    if ws.strip() == "_":
        return 0
    v = 0
    for i, w in enumerate(ws.split(",")):
        v += int(w, 16) << (64 * i)
    return v


def _judge_inner(q, out):
    """True if the C output has the mathematically right value for request q (so only the model is off)"""
    f = q.split()
    try:
        if f[0] == "add_digits":
            return _val(out) == _val(f[1]) + _val(f[2])
        if f[0] == "sub_digits":
            return _val(out) == abs(_val(f[1]) - _val(f[2]))
        if f[0] == "compare_abs":
            c = int(out, 16) if not out.startswith("-") else -int(out[1:], 16)
            dlt = _val(f[1]) - _val(f[2])
            return (c > 0) == (dlt > 0) and (c < 0) == (dlt < 0)
        if f[0] in ("bignum_add", "bignum_sub"):
            s, ws = out.split(" ")
            a = int(f[1]) * _val(f[2])
            b = int(f[3]) * _val(f[4])
            return int(s) * _val(ws) == (a + b if f[0] == "bignum_add" else a - b)
    except Exception:
        return False
    return False
