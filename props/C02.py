"""C02 — GC never reclaims or corrupts data the program can still reach.
   (G)        gen/c02_layout.py -> coq/Gen/C02_Layout.v (type table + struct sexp_struct fields) and its obligations
   (T)        coq/Properties_C02.v
   (K-inner)  harness/embed_c02.c: raw heap dumps around collections made of the real sexp_mark /
              sexp_sweep at (verif-gc) calls inside running workloads; the extracted model replays
              layout, mark and sweep on the `pre` dump and must give the same slot ranges, marked
              set and surviving set; marked objects must keep their words
   (K-outer)  generated allocation-heavy programs under forced collection schedules (CHIBI_VERIF_GC),
              asan variant (swept chunks poisoned): output must equal the unforced run.
              Dense streams (a collection before every / every 2nd allocation of the program itself): harness/c02_prims.scm,
              c02_arith.scm (arithmetic opcodes on operands that exist only on the VM stack), corpus/C02/dense-*.scm, c02_libs.scm,
              c02_libs2.scm (compiled libraries, schedule started after the imports), c02_callbacks.scm (library C code that calls back
              into Scheme: user hash / equality procedures of SRFI 69 incl. the resize, comparators of SRFI 95), c02_threads.scm (green threads),
              c02_errors.scm (primitive-error paths: every sexp_raise of vm.c inside guard / handlers / dynamic-wind / parameterize).
   (G, static) gen/c02_vmtop.py -> coq/Gen/C02_VmTop.v: the opcode switch of sexp_apply as an item table; checker + soundness proof in
              coq/C02/VmTop.v (no lost and no stale VM-stack root at any allocating call).
              gen/c02_gcvars.py: sexp_gc_var discipline of C locals from the clang AST (search aid + triaged allow-list).
   (G + K-inner, round 4) gen/c02_gcmacros.py -> coq/Gen/C02_GcMacros.v: the sexp_gc_var<K> / sexp_gc_preserve<K> / sexp_gc_release<K>
              families of sexp.h expanded by the preprocessor; proved (coq/C02/GcMacrosCheck.v) to register exactly their K arguments and
              to release exactly K; use sites scanned; the extracted model's prediction is compared with the COMPILED macros around a
              real sexp_gc (harness/embed_c02.c mode gcmacros).  harness/c02_karat.scm: the only user of arity 7 (Karatsuba branch of
              sexp_bignum_mul) under dense schedules."""
import os, subprocess, hashlib, re
from vlib import build as B

HERE = os.path.dirname(os.path.abspath(__file__))
HARNESS = os.path.join(HERE, "..", "harness", "embed_c02.c")
CORPUS = os.path.join(HERE, "..", "corpus", "C02")

# ------------------------------------------------------------------------------------------ workloads
PRELUDE = """(import (chibi) (srfi 69) (srfi 1) (scheme char) (srfi 9) (srfi 39))
(define keep '())
(define (remember! x) (set! keep (cons x keep)))
(define (sum-tree x)
  (cond ((pair? x) (+ (sum-tree (car x)) (sum-tree (cdr x))))
        ((vector? x) (let lp ((i 0) (s 0)) (if (< i (vector-length x)) (lp (+ i 1) (+ s (sum-tree (vector-ref x i)))) s)))
        ((string? x) (string-length x))
        ((and (number? x) (exact? x) (integer? x)) (modulo x 1000003))
        ((char? x) (char->integer x))
        ((symbol? x) (string-length (symbol->string x)))
        ((procedure? x) 1)
        (else 3)))
(define (garbage n) (let lp ((i 0) (acc '())) (if (< i n) (lp (+ i 1) (cons (make-vector 3 i) acc)) (length acc))))
(define-record-type point (make-point x y) point? (x point-x) (y point-y set-point-y!))
"""

# each snippet: Scheme text with {n} {m} parameters; every one calls (verif-gc) somewhere inside a
# non-trivial evaluation state and leaves something in `keep`
SNIPPETS = [
    # deep non-tail recursion: collection at the bottom of a deep VM stack
    "(define (deep n) (if (= n 0) (begin (verif-gc) '()) (cons (* n n) (deep (- n 1))))) (remember! (deep {n}))",
    # closures capturing fresh data
    "(remember! (map (lambda (i) (let ((v (make-vector (+ 1 (modulo i 5)) (number->string i)))) (if (= i {m}) (verif-gc)) (lambda () v))) (iota {n})))",
    # trailing duplicate / immediate slots (skip loops of the marker)
    "(remember! (let ((s (string-append \"x\" (number->string {n})))) (garbage {n}) (let ((v (make-vector {n} s))) (vector-set! v 0 (list 1 2 3)) (verif-gc) v)))",
    "(remember! (let ((v (make-vector {n} 0))) (vector-set! v {m} (iota 7)) (verif-gc) v))",
    # continuation + dynamic-wind, collection in the before/after thunks and with a captured continuation alive
    "(remember! (call-with-current-continuation (lambda (k) (dynamic-wind (lambda () (garbage {m}) (verif-gc)) (lambda () (k (iota {n}))) (lambda () (verif-gc))))))",
    "(define saved-k #f) (define kcount 0) (remember! (+ 1 (call-with-current-continuation (lambda (k) (set! saved-k k) 1)))) (verif-gc) (if (< kcount 2) (begin (set! kcount (+ kcount 1)) (saved-k kcount)))",
    # hash tables
    "(remember! (let ((h (make-hash-table))) (let lp ((i 0)) (if (< i {n}) (begin (hash-table-set! h (number->string i) (iota (modulo i 7))) (if (= i {m}) (verif-gc)) (lp (+ i 1))))) (hash-table->alist h)))",
    # bignums, ratios, flonums, strings, symbols, chars
    "(remember! (let ((b (expt 3 {n}))) (garbage 50) (verif-gc) (list b (/ b (+ 1 (expt 2 {m}))) (exact->inexact (/ 1 3)) (string->symbol (string-append \"sym\" (number->string {n}))) (string-upcase \"mixed Case\") #\\x)))",
    # string ports and read
    "(remember! (let ((p (open-input-string \"(a (b . c) #(1 2 3) \\\"str\\\" 12345678901234567890 1.5)\"))) (let ((x (read p))) (verif-gc) x)))",
    "(remember! (let ((p (open-output-string))) (write (iota {n}) p) (verif-gc) (write 'done p) (get-output-string p)))",
    # records: run-time registered type
    "(remember! (let ((ps (map (lambda (i) (make-point i (number->string i))) (iota {n})))) (garbage {m}) (verif-gc) (set-point-y! (car ps) (list 1 2)) (map (lambda (p) (list (point-x p) (point-y p))) ps)))",
    # cyclic and shared structure
    "(remember! (let ((c (iota {n}))) (set-cdr! (last-pair c) c) (let ((sh (list 1 2))) (verif-gc) (list (car c) (cadr c) sh sh))))",
    # exceptions: collection inside a handler
    "(remember! (call-with-current-continuation (lambda (k) (with-exception-handler (lambda (e) (verif-gc) (k (list 'caught 1))) (lambda () (garbage {m}) (error \"boom\" (iota {n})))))))",
    # apply with many arguments, nested lets, promises, parameterize
    "(remember! (apply + (begin (verif-gc) (iota {n}))))",
    "(remember! (let ((p (delay (begin (verif-gc) (iota {n}))))) (garbage {m}) (list (force p) (force p))))",
    "(define prm (make-parameter (list 1))) (remember! (parameterize ((prm (iota {n}))) (verif-gc) (prm)))",
    # garbage only (sweep frees a lot, nothing new kept), then a second collection right away
    "(garbage {n}) (verif-gc) (verif-gc)",
    # eval: the compiler allocates while the program data is live
    "(remember! (eval '(let lp ((i 0) (acc '())) (if (< i {m}) (lp (+ i 1) (cons (* i i) acc)) (begin (verif-gc) acc)))))",
    # sort / assoc / append on fresh lists
    "(remember! (let ((l (map (lambda (i) (cons (modulo (* i 7919) 101) i)) (iota {n})))) (verif-gc) (list (assv 5 l) (append l (list 'end)) (reverse l))))",
    # bytevectors
    "(remember! (let ((b (make-bytevector {n} 7))) (garbage {m}) (verif-gc) (list b (bytevector-u8-ref b 0))))",
]

HEAP_SIZES = ["48k", "64k", "100k", "160k", "256k", "512k", "1M"]

EPILOGUE = """(verif-gc)
(display (sum-tree keep)) (newline)
(display (length keep)) (newline)
"""


def gen_program(rng, nsnip):
    parts = [PRELUDE]
    chosen = []
    for _ in range(nsnip):
        i = rng.randrange(len(SNIPPETS))
        n = rng.choice([3, 10, 40, 120, 400])
        m = rng.randrange(0, n)
        chosen.append((i, n, m))
        parts.append("(display \"s%d \") " % i + SNIPPETS[i].replace("{n}", str(n)).replace("{m}", str(m)))
        parts.append("(display (sum-tree keep)) (newline)")
    parts.append(EPILOGUE)
    return "\n".join(parts) + "\n", chosen


# ------------------------------------------------------------------------------------------ dump parsing
class Dump:
    __slots__ = ("types", "ctxtag", "root", "objs", "order", "marks", "post", "gcno")


def parse_dumps(path):
    """yields Dump per collection (pre heap, marks, post heap)"""
    cur, phase, out = None, None, []
    heap, order, types = {}, [], {}
    for line in open(path):
        c = line[0]
        if c == "O":
            f = line.split(" ")
            addr = int(f[1], 16)
            nw = int(f[7])
            words = f[8:8 + nw]
            rest = f[8 + nw:]
            saves = None
            if rest and rest[0].strip() == "|":
                saves = [x.strip() for x in rest[1:] if x.strip()]
            words[-1] = words[-1].strip()
            heap[addr] = (int(f[2]), int(f[3]), int(f[4]), int(f[5]), int(f[6]), words, saves)
            order.append(addr)
        elif c == "T":
            f = line.split()
            if cur is None:
                cur = Dump()
                cur.gcno = int(f[3])
            heap, order, types = {}, [], {}
            tinfo = (int(f[1]), int(f[2]))
        elif c == "t":
            f = line.split()
            types[int(f[1])] = None if f[2] == "-" else [int(x) for x in f[2:]]
        elif c == "R":
            root = int(line.split()[1], 16)
        elif c == "M":
            cur.marks = set(int(x, 16) for x in line.split()[1:])
        elif c == "E":
            ph = line.split()[1]
            if ph == "pre":
                cur.types, cur.ctxtag, cur.root, cur.objs, cur.order = types, tinfo[1], root, heap, order
            else:
                cur.post = heap
                out.append(cur)
                cur = None
        elif c == "X":
            raise RuntimeError("harness: " + line.strip())
    return out


def hx(v):
    return ("-%x" % -v) if v < 0 else ("%x" % v)


def model_request(dp):
    ntypes = max(dp.types) + 1
    specs = ";".join("-" if dp.types.get(i) is None else ",".join(hx(v) for v in dp.types[i]) for i in range(ntypes))
    objs = []
    for a in dp.order:
        tag, marked, base, ns, size, words, saves = dp.objs[a]
        objs.append("%x:%x:%d:%s:%s" % (a, tag, marked, ",".join(words), ",".join(saves or [])))
    return "all %x %s %x %s" % (dp.ctxtag, specs, dp.root, ";".join(objs))


def is_ptr(w):
    return w != 0 and (w & 3) == 0


UNTRACED = {(37, 8)}      # Cpointer.parent: see coq/C02/LayoutCheck.v


def struct_slots(facts):
    """{tag: word indices of the strong reference fields} for the core types whose slot count does not
    depend on the object, derived from struct sexp_struct (clang AST + offsetof), NOT from the type
    table: fields of C type sexp, minus the weak range of the type, minus the enumerated exceptions"""
    from gen import c02_layout
    out = {}
    for tag, nm in enumerate(facts["names"]):
        t = facts["types"][tag]
        if t[4] != 0:                      # field_len_scale: variable number of slots (Vector, Stack)
            continue
        mem = c02_layout.MEMBER_OF_TAG_NAME.get(nm)
        offs = []
        for (f, off, n) in facts["members"].get(mem, []) if mem else []:
            offs += [off] if n == 0 else [off + 8 * k for k in range(max(n, 0))]
        wb, wn = t[8], t[9] + t[12]
        offs = [o for o in offs if not (wb > 0 and wb <= o < wb + 8 * wn) and (tag, o) not in UNTRACED]
        out[tag] = sorted(o // 8 for o in offs)
    return out


def oracle_reach(dp, sslots):
    """SPEC oracle, independent of the model and of the type table: closure of the root under the
    reference fields of the C structs (core types), the slot ranges the C macros computed (variable
    sized and run-time types) and the registered C locals of contexts"""
    seen, todo = set(), [dp.root]
    while todo:
        a = todo.pop()
        if a in seen or a not in dp.objs:
            continue
        seen.add(a)
        tag, marked, base, ns, size, words, saves = dp.objs[a]
        idxs = sslots[tag] if tag in sslots else [base + i for i in range(max(ns, 0))]
        for i in idxs:
            if i < len(words):
                w = int(words[i], 16)
                if is_ptr(w) and w not in seen:
                    todo.append(w)
        for s in saves or []:
            w = int(s, 16)
            if is_ptr(w) and w not in seen:
                todo.append(w)
    return seen


def parse_all(ans):
    parts = [p.strip() for p in ans.split(" | ")]
    d = {}
    for p in parts:
        k, _, v = p.partition(" ")
        d[k] = v
    return d


def addrset(s):
    return set(int(x, 16) for x in s.split(",") if x)


# ------------------------------------------------------------------------------------------ inner
def noimport_workload():
    """harness/c02_prims.scm with (verif-gc) calls spread over it: needs no compiled library"""
    out, k = [], 0
    for line in open(os.path.join(HERE, "..", "harness", "c02_prims.scm")):
        out.append(line)
        if line.startswith("(show"):
            k += 1
            if k % 9 == 0:
                out.append("(verif-gc)\n")
    out.append("(define (deep2 n) (if (= n 0) (begin (verif-gc) '()) (cons (number->string n) (deep2 (- n 1)))))\n(show (length (deep2 60)))\n(verif-gc)\n")
    return "".join(out)


def inner(ctx, d, exe, genfacts, nprog, nsnip, only_noimport=False):
    emb = B.cc_embed(d, HARNESS, os.path.join(d, "embed_c02"))
    work = os.path.join(B.SCRATCH, "tmp_c02_work")
    os.makedirs(work, exist_ok=True)
    progs = [("prims", noimport_workload(), None)]
    if only_noimport:
        nprog = 0
    elif os.path.isdir(CORPUS):
        for f in sorted(os.listdir(CORPUS)):
            if f.endswith(".scm") and f.startswith("inner"):
                progs.append((f, open(os.path.join(CORPUS, f)).read(), None))
    for k in range(nprog):
        text, chosen = gen_program(ctx.rng, nsnip)
        progs.append(("gen%d" % k, text, chosen))
    ncore = int(genfacts["consts"]["num_core_types"])
    sslots = struct_slots(genfacts)
    ncoll = 0
    for name, text, chosen in progs:
        src = os.path.join(work, "inner-%s.scm" % name)
        open(src, "w").write(text)
        dump = os.path.join(work, "inner-%s.dump" % name)
        r = subprocess.run([emb, src, dump], capture_output=True, text=True, env=B.chibi_env(d), timeout=600)
        replay = "LD_LIBRARY_PATH=%s CHIBI_MODULE_PATH=%s/lib %s %s %s" % (d, d, emb, src, dump)
        died = r.returncode != 0
        try:
            dumps = parse_dumps(dump)
        except Exception as e:
            ctx.broken("inner-correspondence:dump", "cannot parse %s: %s" % (dump, e))
            continue
        reqs = [model_request(dp) for dp in dumps]
        answers = ctx.run_model(exe, reqs) if reqs else []
        for dp, ans in zip(dumps, answers):
            ncoll += 1
            where = "%s gc#%d" % (name, dp.gcno)
            nontriv = len(dp.objs) > 1000 and len(dp.marks) < len(dp.objs) and any(v[6] for v in dp.objs.values())
            ctx.count(1, key=(hashlib.sha1(text.encode()).hexdigest(), dp.gcno, len(dp.objs), len(dp.marks)), nontrivial=nontriv)
            ctx.cov["traces_validated_against_impl"] += 1
            # type table at run time = regenerated table for the core types
            for t in range(ncore):
                if dp.types.get(t) != genfacts["types"].get(t):
                    ctx.broken("layout:table-differs-at-runtime", "%s: type %d is %s in the heap, %s in the probe" % (where, t, dp.types.get(t), genfacts["types"].get(t)))
                    break
            if ans.startswith("ERR"):
                ctx.broken("inner-correspondence:model", "%s: %s" % (where, ans[:200]))
                continue
            a = parse_all(ans)
            # ---- layout per object
            lay = a["L"].split(";")
            bad = None
            for addr, l in zip(dp.order, lay):
                tag, marked, base, ns, size, words, saves = dp.objs[addr]
                nsc = ns if ns >= 1 else 0
                if l == "?":
                    bad = (addr, "model has no layout", (base, ns, size))
                    break
                p, n, sz = l.split(".")
                if int(n) != nsc or (nsc > 0 and int(p) != base) or int(sz, 16) != size:
                    bad = (addr, "model (p=%s, n=%s, size=%d)" % (p, n, int(sz, 16)), (base, ns, size))
                    break
            if bad:
                tag = dp.objs[bad[0]][0]
                ctx.broken("inner-correspondence:layout", "%s: object of tag %d: %s, C macros give (base=%d, n=%d, size=%d)" % ((where, tag, bad[1]) + bad[2]), replay=replay)
            if a["W"] != "1":
                ctx.violation("heap:not-closed", input=where, expected="every slot of every object is an immediate or designates an object",
                              observed="heap_ok = false on the dump before the collection", replay=replay)
            # ---- mark
            reach = oracle_reach(dp, sslots)
            if dp.marks != reach:
                missed = sorted(reach - dp.marks)[:3]
                extra = sorted(dp.marks - reach)[:3]
                ctx.violation("mark:not-exactly-reachable", input=where,
                              expected="%d objects reachable from the context" % len(reach),
                              observed="%d marked; reachable but unmarked (tag, offset from root): %s; marked but unreachable: %s" % (
                                  len(dp.marks), [(dp.objs[x][0], x - dp.root) for x in missed], [(dp.objs[x][0], x - dp.root) for x in extra]),
                              replay=replay)
            if a["M"].startswith("ERR"):
                ctx.broken("inner-correspondence:mark", "%s: model mark fails: %s" % (where, a["M"]), replay=replay)
            else:
                mm = addrset(a["M"])
                if mm != dp.marks and dp.marks == reach:
                    ctx.broken("inner-correspondence:mark", "%s: model marks %d objects, sexp_mark %d (the C result equals the reachable set)" % (where, len(mm), len(dp.marks)), replay=replay)
            # ---- sweep: survivors = marked set, contents unchanged
            post = set(dp.post)
            lost = [x for x in dp.marks if x not in post]
            if lost:
                x = lost[0]
                ctx.violation("sweep:marked-object-freed", input=where, expected="every marked object survives the sweep",
                              observed="%d marked objects are gone, e.g. tag %d" % (len(lost), dp.objs[x][0]), replay=replay)
            changed = [x for x in dp.marks if x in post and (dp.post[x][5] != dp.objs[x][5] or dp.post[x][0] != dp.objs[x][0])]
            if changed:
                x = changed[0]
                diff = [i for i, (u, v) in enumerate(zip(dp.objs[x][5], dp.post[x][5])) if u != v]
                ctx.violation("gc:contents-changed", input=where, expected="marked objects keep their words",
                              observed="%d objects changed, e.g. tag %d word indices %s" % (len(changed), dp.objs[x][0], diff[:5]), replay=replay)
            stillmarked = [x for x in post if dp.post[x][1]]
            if stillmarked:
                ctx.violation("sweep:mark-left-set", input=where, expected="all marks clear after sweep", observed="%d objects" % len(stillmarked), replay=replay)
            if not a["G"].startswith("ERR"):
                mg = addrset(a["G"])
                if mg != post and not lost:
                    ctx.broken("inner-correspondence:sweep", "%s: model keeps %d objects, sexp_sweep %d" % (where, len(mg), len(post)), replay=replay)
            if ncoll <= 3:
                ctx.sample(dict(kind="inner", workload=name, gc=dp.gcno, objects=len(dp.objs), marked=len(dp.marks),
                                freed=len(dp.objs) - len(post), registered_locals=sum(len(v[6] or []) for v in dp.objs.values()),
                                runtime_types=max(dp.types) + 1 - ncore))
        if died and not ctx.violations:
            ctx.violation("inner:workload-died", input=src, observed="rc=%s %s" % (r.returncode, r.stderr[-400:]), expected="workload runs to the end", replay=replay)
        if os.path.exists(dump):
            os.unlink(dump)
    return ncoll


# ------------------------------------------------------------------------------------------ inner, hook dumps
def parse_hook_dumps(path):
    """CHIBI_VERIF_TRACE/DUMP records of gc.c (H3): returns list of {phase: (root, {addr: (tag, marked, slots, saves)})}"""
    colls, cur, phase, objs, root, hi, nx = [], None, None, None, None, 0, 0

    def ref(tok):
        if tok == "i" or tok == "x":
            return 1
        h, _, o = tok.partition(":")
        return ((int(h) + 1) << 40) + int(o)
    for line in open(path):
        c = line[0]
        if c == "D":
            f = line.split()
            phase = f[1]
            if phase == "pre":
                cur = {}
                colls.append(cur)
            objs = {}
        elif c == "R" and phase:
            root = ref(line.split()[1])
        elif c == "H" and phase:
            hi = int(line.split()[1])
        elif c == "O" and phase:
            f = line.split()
            off, tag, marked = int(f[1]), int(f[3]), int(f[4])
            rest = f[6:]
            sect, slots, saves = "S", [], []
            for t in rest:
                if t in ("S", "W", "X", "C"):
                    sect = t
                elif sect == "S":
                    slots.append(ref(t))
                    nx += t == "x"
                elif sect == "C":
                    saves.append(ref(t))
            objs[((hi + 1) << 40) + off] = (tag, marked, slots, saves, sect == "C" or "C" in rest)
        elif c == "E" and phase:
            if line.strip() == "E":
                cur[phase] = (root, objs)
                phase = None if phase == "post" else phase
    return [c for c in colls if "pre" in c and "marked" in c and "post" in c], nx


def inner_hook(ctx, d, exe, ndumps):
    """collections forced by the H2 hook at arbitrary allocation points of a running program (real
    sexp_gc, real C-stack roots), dumped by the H3 hook at slot level; replayed by the same extracted
    [mark] on a synthetic raw encoding: every object becomes [header; n; slot_1 .. slot_n] of a
    vector-like type (contexts: a second tag with their registered locals)"""
    emb = B.cc_embed(d, HARNESS, os.path.join(d, "embed_c02"))
    work = os.path.join(B.SCRATCH, "tmp_c02_work")
    os.makedirs(work, exist_ok=True)
    tr = os.path.join(work, "hook.trace")
    picks = sorted(ctx.rng.sample(range(1, 25), ndumps))
    sched = "seed:%d:%d" % (ctx.rng.randrange(1, 10000), ctx.rng.choice([61, 97, 211]))
    env = B.chibi_env(d, {"C02_NO_BOOT_GC": "1", "CHIBI_VERIF_GC": sched, "CHIBI_VERIF_TRACE": tr,
                          "CHIBI_VERIF_DUMP": ",".join(str(k) for k in picks)})
    src = os.path.join(HERE, "..", "harness", "c02_prims.scm")
    r = subprocess.run([emb, src, "/dev/null"], capture_output=True, text=True, env=env, timeout=600)
    replay = "C02_NO_BOOT_GC=1 CHIBI_VERIF_GC=%s CHIBI_VERIF_TRACE=%s CHIBI_VERIF_DUMP=%s LD_LIBRARY_PATH=%s CHIBI_MODULE_PATH=%s/lib %s %s /dev/null" % (
        sched, tr, ",".join(str(k) for k in picks), d, d, emb, src)
    if r.returncode != 0:
        ctx.violation("schedule:exit-status", input="%s under %s (default variant)" % (src, sched), expected="exit 0", observed="rc=%s %s" % (r.returncode, r.stderr[-300:]), replay=replay)
        return 0
    colls, nx = parse_hook_dumps(tr)
    colls = colls[:4 * ndumps]
    spec = "10,0,0,8,1,10,8,8,0,0,0,0,0"
    n = 0
    reqs = []
    for c in colls:
        root, objs = c["pre"]
        items = []
        for a, (tag, marked, slots, saves, isctx) in objs.items():
            items.append("%x:%d:%d:%s:%s" % (a, 1 if isctx else 0, marked, ",".join(["0", "%x" % len(slots)] + ["%x" % v for v in slots]), ",".join("%x" % v for v in saves)))
        reqs.append("mark 1 %s;%s %x %s" % (spec, spec, root, ";".join(items)))
    answers = ctx.run_model(exe, reqs) if reqs else []
    for c, ans in zip(colls, answers):
        n += 1
        root, objs = c["pre"]
        cm = set(a for a, v in c["marked"][1].items() if v[1])
        ctx.count(1, key=("hook", sched, len(objs), len(cm)), nontrivial=len(objs) > 1000 and len(cm) < len(objs))
        ctx.cov["traces_validated_against_impl"] += 1
        # oracle: closure under the dumped slots and saves
        seen, todo = set(), [root]
        while todo:
            a = todo.pop()
            if a in seen or a not in objs:
                continue
            seen.add(a)
            todo += [v for v in objs[a][2] + objs[a][3] if v != 1 and v not in seen]
        where = "forced collection %d of %s under %s" % (n, os.path.basename(src), sched)
        if cm != seen:
            ctx.violation("mark:not-exactly-reachable", input=where, expected="%d reachable" % len(seen),
                          observed="%d marked (missed %d, extra %d)" % (len(cm), len(seen - cm), len(cm - seen)), replay=replay)
        elif ans.startswith("ERR"):
            ctx.broken("inner-correspondence:hook-mark", "%s: model: %s" % (where, ans[:100]), replay=replay)
        elif addrset(ans[3:]) != cm:
            ctx.broken("inner-correspondence:hook-mark", "%s: model marks %d, sexp_mark %d" % (where, len(addrset(ans[3:])), len(cm)), replay=replay)
        post = set(c["post"][1])
        if not (cm <= post):
            ctx.violation("sweep:marked-object-freed", input=where, expected="every marked object survives", observed="%d marked objects gone" % len(cm - post), replay=replay)
        if n == 1:
            ctx.sample(dict(kind="inner-hook", schedule=sched, objects=len(objs), marked=len(cm), registered_locals=sum(len(v[3]) for v in objs.values()), refs_outside_heaps=nx))
    if os.path.exists(tr):
        os.unlink(tr)
    return n


# ------------------------------------------------------------------------------------------ outer
def run_prog(d, path, sched=None, early=False, timeout=240, heap=None):
    env = {}
    if sched:
        env["CHIBI_VERIF_GC"] = sched
    if early:
        env["CHIBI_VERIF_GC_EARLY"] = "1"
    try:
        r = B.run_chibi(d, (["-h", heap] if heap else []) + [path], timeout=timeout, extra_env=env)
        return r.returncode, r.stdout, r.stderr
    except subprocess.TimeoutExpired:
        return "TIMEOUT", "", ""


def asan_top(err):
    m = re.search(r"ERROR: AddressSanitizer: ([A-Za-z-]+)", err)
    if not m:
        return None
    frames = re.findall(r"#\d+ 0x[0-9a-f]+ in (\w+)", err)
    fr = [f for f in frames if not f.startswith("__")][:10]
    return m.group(1), fr


def count_allocs(d, path):
    tr = os.path.join(B.SCRATCH, "tmp_c02_work", "alloc.trace")
    try:
        B.run_chibi(d, [path], timeout=600, extra_env={"CHIBI_VERIF_TRACE": tr})
        n = sum(1 for l in open(tr) if l.startswith("A "))
        os.unlink(tr)
        return n
    except Exception:
        return 200000


def outer(ctx, da, nprog, nsnip, nsched, dense):
    work = os.path.join(B.SCRATCH, "tmp_c02_work")
    os.makedirs(work, exist_ok=True)
    progs = []
    if os.path.isdir(CORPUS):
        for f in sorted(os.listdir(CORPUS)):
            if f.endswith(".scm") and f.startswith("outer"):
                progs.append((f, open(os.path.join(CORPUS, f)).read()))
    for k in range(nprog):
        text, chosen = gen_program(ctx.rng, nsnip)
        progs.append(("gen%d" % k, text.replace("(define keep '())", "(define (verif-gc) #f)\n(define keep '())", 1)))
    nruns = 0
    if ctx.thorough:
        nruns += _r7rs(ctx, da)
    for name, text in progs:
        src = os.path.join(work, "outer-%s.scm" % name)
        open(src, "w").write(text)
        rc0, out0, err0 = run_prog(da, src)
        if rc0 != 0:
            ctx.broken("outer:baseline", "program %s fails without any forced collection: rc=%s %s" % (src, rc0, err0[-300:]))
            continue
        total = count_allocs(da, src)
        scheds = []
        for _ in range(nsched):
            kind = ctx.rng.choice(["window", "window", "seed", "every"])
            if kind == "window":
                k0 = ctx.rng.randrange(1, max(2, total))
                scheds.append("at:" + ",".join(str(k0 + i) for i in range(ctx.rng.choice([8, 64]))))
            elif kind == "seed":
                scheds.append("seed:%d:%d" % (ctx.rng.randrange(1, 10000), ctx.rng.choice([211, 509] if not ctx.thorough else [61, 127, 211])))
            else:
                scheds.append("every:%d" % ctx.rng.choice([211, 1009] if not ctx.thorough else [41, 97, 211]))
        if dense:
            scheds += ["every:%d" % n for n in dense]
        for s in scheds:
            rc, out, err = run_prog(da, src, s)
            nruns += 1
            ctx.count(1, key=(hashlib.sha1(text.encode()).hexdigest(), s), nontrivial=True)
            replay = "cd %s && CHIBI_VERIF_GC=%s LD_LIBRARY_PATH=. CHIBI_MODULE_PATH=lib CHIBI_IGNORE_SYSTEM_PATH=1 ASAN_OPTIONS=detect_leaks=0 ./chibi-scheme %s" % (da, s, src)
            if rc != rc0 or out != out0:
                top = asan_top(err)
                if top:
                    sig = "schedule:asan:%s:%s" % (top[0], "/".join(top[1][:2]))
                    obs = "AddressSanitizer %s in %s" % (top[0], " <- ".join(top[1]))
                elif rc == "TIMEOUT":
                    sig, obs = "schedule:timeout", "timeout"
                elif rc != rc0:
                    sig, obs = "schedule:exit-status", "exit status %s (unforced: %s) %s" % (rc, rc0, err[-300:])
                else:
                    sig = "schedule:output-differs"
                    l0, l1 = out0.split("\n"), out.split("\n")
                    i = next((i for i, (x, y) in enumerate(zip(l0, l1)) if x != y), min(len(l0), len(l1)))
                    obs = "first differing output line %d: %r vs unforced %r" % (i, l1[i:i + 1], l0[i:i + 1])
                ctx.violation(sig, input="%s under CHIBI_VERIF_GC=%s" % (src, s), expected="same output and exit status as the unforced run", observed=obs, replay=replay)
        # initial heap sizes from small to default: natural collections and heap growth at different points
        for hs in (HEAP_SIZES if ctx.thorough else ctx.rng.sample(HEAP_SIZES, 2)):
            rc, out, err = run_prog(da, src, heap=hs)
            nruns += 1
            ctx.count(1, key=(hashlib.sha1(text.encode()).hexdigest(), "heap", hs), nontrivial=True)
            if rc != rc0 or out != out0:
                top = asan_top(err)
                ctx.violation("heap-size:%s" % ("asan:" + top[0] + ":" + "/".join(top[1][:2]) if top else "output-or-status"),
                              input="%s with initial heap -h %s" % (src, hs), expected="same output and exit status as with the default heap",
                              observed=(str(top) if top else "rc=%s (default heap: %s) %s" % (rc, rc0, err[-300:])),
                              replay="cd %s && LD_LIBRARY_PATH=. CHIBI_MODULE_PATH=lib CHIBI_IGNORE_SYSTEM_PATH=1 ASAN_OPTIONS=detect_leaks=0 ./chibi-scheme -h %s %s" % (da, hs, src))
        if len(ctx.cov["samples"]) < 6:
            ctx.sample(dict(kind="outer", program=name, allocations=total, schedules=scheds[:4], output_lines=out0.count("\n")))
    return nruns


def outer_dense(ctx, da, scheds, extra_progs, karat_scheds=None):
    """dense schedules: the embedding harness numbers allocations from the end of the standard
    environment load, so a collection can be forced before every allocation of the program itself"""
    emb = B.cc_embed(da, HARNESS, os.path.join(da, "embed_c02"))
    work = os.path.join(B.SCRATCH, "tmp_c02_work")
    os.makedirs(work, exist_ok=True)
    progs = [os.path.join(HERE, "..", "harness", "c02_prims.scm"), os.path.join(HERE, "..", "harness", "c02_arith.scm")]
    karat = os.path.join(HERE, "..", "harness", "c02_karat.scm")
    progs.append(karat)
    if os.path.isdir(CORPUS):
        progs += [os.path.join(CORPUS, f) for f in sorted(os.listdir(CORPUS)) if f.startswith("dense") and f.endswith(".scm")]
    for k, text in enumerate(extra_progs):
        pth = os.path.join(work, "dense-gen%d.scm" % k)
        open(pth, "w").write(text)
        progs.append(pth)
    n = 0
    thorough = ctx.thorough

    def go_src(src, sched):
        env = B.chibi_env(da, {"CHIBI_VERIF_GC": sched, "CHIBI_VERIF_AUDIT": "1" if (sched.startswith("seed") or thorough) else "0", "C02_NO_BOOT_GC": "1"} if sched else {"C02_NO_BOOT_GC": "1"})
        try:
            r = subprocess.run([emb, src, "/dev/null"], capture_output=True, text=True, env=env, timeout=1500)
            return r.returncode, r.stdout, r.stderr
        except subprocess.TimeoutExpired:
            return "TIMEOUT", "", ""
    # the Karatsuba stream (harness/c02_karat.scm) runs in a background thread next to the other dense runs, so that the
    # quick tier's wall time stays where it was; its results are judged below like everybody else's (main thread only)
    kscheds = list(karat_scheds) if karat_scheds else (["every:1", "every:2", "every:3", "seed:%d:5" % ctx.rng.randrange(1, 1000)] if thorough else ["every:3"])
    import concurrent.futures
    pool = concurrent.futures.ThreadPoolExecutor(max_workers=1)
    kfut = pool.submit(lambda: [go_src(karat, None)] + [go_src(karat, s) for s in kscheds])
    for src in progs:
        go = lambda sched, src=src: go_src(src, sched)
        if src == karat:
            kres = kfut.result()
            rc0, out0, err0 = kres[0]
            todo = list(zip(kscheds, kres[1:]))
        else:
            rc0, out0, err0 = go(None)
            todo = None
        if rc0 != 0:
            ctx.broken("outer:baseline", "program %s fails without any forced collection: rc=%s %s" % (src, rc0, err0[-300:]))
            continue
        for s in ([x[0] for x in todo] if todo is not None else scheds if (ctx.thorough or not src.endswith("c02_arith.scm")) else [x for x in scheds if x == "every:2" or x.startswith("seed")]):
            rc, out, err = dict(todo)[s] if todo is not None else go(s)
            if rc == "TIMEOUT":
                ctx.note("dense run %s under %s timed out (inconclusive)" % (os.path.basename(src), s))
                continue
            n += 1
            ctx.count(1, key=(src, s), nontrivial=True)
            ma = re.search(r"VERIF-AUDIT FAIL gc=\d+: ([^\n]*)", err)
            if ma:
                ctx.violation("audit:" + ma.group(1).replace(" ", "-")[:60], input="%s under CHIBI_VERIF_GC=%s (embedding harness)" % (src, s),
                              expected="after every sweep the heap is tiled, marks are clear and every slot of a live object designates a live object",
                              observed=ma.group(0),
                              replay="CHIBI_VERIF_AUDIT=1 CHIBI_VERIF_GC=%s LD_LIBRARY_PATH=%s CHIBI_MODULE_PATH=%s/lib CHIBI_IGNORE_SYSTEM_PATH=1 ASAN_OPTIONS=detect_leaks=0 %s %s /dev/null" % (s, da, da, emb, src))
            if rc != rc0 or out != out0:
                replay = "CHIBI_VERIF_GC=%s LD_LIBRARY_PATH=%s CHIBI_MODULE_PATH=%s/lib CHIBI_IGNORE_SYSTEM_PATH=1 ASAN_OPTIONS=detect_leaks=0 %s %s /dev/null" % (s, da, da, emb, src)
                top = asan_top(err)
                if top:
                    sig, obs = "schedule:asan:%s:%s" % (top[0], "/".join(top[1][:2])), "AddressSanitizer %s in %s" % (top[0], " <- ".join(top[1]))
                elif rc != rc0:
                    sig, obs = "schedule:exit-status", "exit status %s (unforced: %s) %s" % (rc, rc0, err[-300:])
                else:
                    l0, l1 = out0.split("\n"), out.split("\n")
                    i = next((i for i, (x, y) in enumerate(zip(l0, l1)) if x != y), min(len(l0), len(l1)))
                    sig, obs = "schedule:output-differs", "first differing output line %d: %r vs unforced %r" % (i, l1[i:i + 1], l0[i:i + 1])
                ctx.violation(sig, input="%s under CHIBI_VERIF_GC=%s (embedding harness)" % (src, s), expected="same output and exit status as the unforced run", observed=obs, replay=replay)
    pool.shutdown(wait=True)
    return n


class Deferred:
    """records the reporting calls of a stream that runs in a background thread; flush() replays them on the real ctx
    (main thread), in order -- so the evidence is the same as if the stream had run inline"""
    def __init__(self, ctx):
        self.calls, self.thorough = [], ctx.thorough

    def __getattr__(self, name):
        if name.startswith("__"):
            raise AttributeError(name)
        return lambda *a, **k: self.calls.append((name, a, k))

    def flush(self, ctx):
        for name, a, k in self.calls:
            getattr(ctx, name)(*a, **k)
        self.calls = []


def outer_libs(ctx, da, scheds, srcname="c02_libs.scm", tag="libs", more_env=None, embname="embed_c02"):
    """(with srcname=c02_threads.scm, tag=threads: the same over GREEN-THREAD programs -- thread creation, join results,
    mutex / condition-variable queues with values in flight, thread-specific slots, per-thread parameterize, exceptions
    through join, anonymous / blocked / terminated threads -- run on the virtual clock with injected time slices;
    scheds entries are then (gc schedule, audit, thread schedule))
    dense schedules over library code: harness/c02_libs.scm (compiled libraries: srfi 69/95/151/39/98, chibi io /
    string / ast, scheme time).  The schedule starts after the imports (CHIBI_VERIF_GC_START, hook patch
    fixes/hook-C02-gc-start.patch); the start index is measured: allocations of an imports-only run minus
    allocations of an empty run, both counted in the allocation trace."""
    try:
        supported = "CHIBI_VERIF_GC_START" in open(os.path.join(da, "gc.c")).read()
    except OSError:
        supported = False
    if not supported:
        ctx.note("dense schedules over library code skipped: the tree has no CHIBI_VERIF_GC_START hook (fixes/hook-C02-gc-start.patch not applied)")
        return 0
    emb = B.cc_embed(da, HARNESS, os.path.join(da, embname))
    work = os.path.join(B.SCRATCH, "tmp_c02_work")
    os.makedirs(work, exist_ok=True)
    src = os.path.abspath(os.path.join(HERE, "..", "harness", srcname))
    text = open(src).read()
    imp = text[text.index("(import"):text.index("(define (show")]
    fe, fi, tr = os.path.join(work, tag + "-empty.scm"), os.path.join(work, tag + "-imports.scm"), os.path.join(work, tag + ".trace")
    open(fe, "w").write("\n")
    open(fi, "w").write(imp + "\n")
    base_env = {"C02_NO_BOOT_GC": "1", "ASAN_OPTIONS": "detect_leaks=0:detect_odr_violation=0:exitcode=97"}
    base_env.update(more_env or {})

    def go(path, extra, timeout=1500):
        env = B.chibi_env(da, dict(base_env, **extra))
        try:
            r = subprocess.run([emb, path, "/dev/null"], capture_output=True, text=True, env=env, timeout=timeout)
            return r.returncode, r.stdout, r.stderr
        except subprocess.TimeoutExpired:
            return "TIMEOUT", "", ""

    def count(path):
        go(path, {"CHIBI_VERIF_TRACE": tr})
        n = sum(1 for l in open(tr) if l.startswith("A "))
        os.unlink(tr)
        return n
    start = count(fi) - count(fe)
    rc0, out0, err0 = go(src, {})
    if rc0 != 0 or start <= 0:
        top0 = asan_top(err0)
        if top0:      # natural collections are schedules too: a trap without any forced collection is a failing input
            ctx.violation("schedule:%s:unforced:asan:%s:%s" % (tag, top0[0], "/".join(top0[1][:2])), input="harness/%s without forced collections" % srcname,
                          expected="runs to the end", observed="AddressSanitizer %s in %s" % (top0[0], " <- ".join(top0[1])),
                          replay="%sC02_NO_BOOT_GC=1 LD_LIBRARY_PATH=%s CHIBI_MODULE_PATH=%s/lib CHIBI_IGNORE_SYSTEM_PATH=1 ASAN_OPTIONS=detect_leaks=0:detect_odr_violation=0 %s %s /dev/null" % (
                              "".join("%s=%s " % kv for kv in sorted((more_env or {}).items())), da, da, emb, src))
        else:
            ctx.broken("outer:baseline", "harness/%s fails without forced collections (rc=%s, start=%s): %s" % (srcname, rc0, start, err0[-300:]))
        return 0
    n = 0
    envtxt = "".join("%s=%s " % kv for kv in sorted((more_env or {}).items()))
    for sc in scheds:
        s, audit = sc[0], sc[1]
        tsched = sc[2] if len(sc) > 2 else None
        extra = {"CHIBI_VERIF_GC": s, "CHIBI_VERIF_GC_START": str(start)}
        if audit:
            extra["CHIBI_VERIF_AUDIT"] = "1"
        if tsched:
            extra["CHIBI_VERIF_SCHED"] = tsched
            rcb, outb, errb = go(src, {"CHIBI_VERIF_SCHED": tsched})
            if rcb != rc0 or outb != out0:
                ctx.note("harness/%s: output depends on the thread schedule %s (compared with the unforced run under the same schedule)" % (srcname, tsched))
        else:
            rcb, outb = rc0, out0
        rc, out, err = go(src, extra)
        if rc == "TIMEOUT":
            ctx.note("%s run under %s timed out (inconclusive)" % (tag, s))
            continue
        n += 1
        ctx.count(1, key=(tag, s, tsched), nontrivial=True)
        replay = "%s%s%sCHIBI_VERIF_GC=%s CHIBI_VERIF_GC_START=%d C02_NO_BOOT_GC=1 LD_LIBRARY_PATH=%s CHIBI_MODULE_PATH=%s/lib CHIBI_IGNORE_SYSTEM_PATH=1 ASAN_OPTIONS=detect_leaks=0:detect_odr_violation=0 %s %s /dev/null" % (
            "CHIBI_VERIF_AUDIT=1 " if audit else "", envtxt, ("CHIBI_VERIF_SCHED=%s " % tsched) if tsched else "", s, start, da, da, emb, src)
        what = "harness/%s under CHIBI_VERIF_GC=%s from allocation %d%s" % (srcname, s, start, (", time slices " + tsched) if tsched else "")
        ma = re.search(r"VERIF-AUDIT FAIL gc=\d+: ([^\n]*)", err)
        if ma:
            ctx.violation("audit:" + ma.group(1).replace(" ", "-")[:60], input=what,
                          expected="closed, tiled heap with clear marks after every sweep", observed=ma.group(0), replay=replay)
        if rc != rcb or out != outb:
            top = asan_top(err)
            l0, l1 = outb.split("\n"), out.split("\n")
            i = next((i for i, (x, y) in enumerate(zip(l0, l1)) if x != y), min(len(l0), len(l1)))
            ctx.violation("schedule:%s:%s" % (tag, "asan:" + top[0] + ":" + "/".join(top[1][:2]) if top else ("exit-status" if rc != rcb else "output-differs")),
                          input=what, expected="same output and exit status as the unforced run",
                          observed=("AddressSanitizer %s in %s" % (top[0], " <- ".join(top[1])) if top else "rc=%s; first differing line %d: %r vs %r" % (rc, i, l1[i:i + 1], l0[i:i + 1])),
                          replay=replay)
    ctx.sample(dict(kind="outer-" + tag, start_allocation=start, schedules=[sc[0] for sc in scheds], thread_schedules=[sc[2] for sc in scheds if len(sc) > 2]))
    return n


def outer_errors(ctx, da, ntests, scheds):
    """dense schedules over the PRIMITIVE-ERROR paths of the VM (every `sexp_raise` of vm.c: car / cdr / vector / string /
    bytevector range and type errors, non-procedure application, wrong arity, apply of an improper list) inside guard,
    with-exception-handler + call/cc, dynamic-wind, parameterize, with closure calls at varying depths in between
    (harness/c02_errors.scm: 16 error kinds x 7 handler contexts x 3 iterations).  The schedule starts at the program's marker
    allocation (after reading / compiling); scheds = [(schedule, phase offset, audit)]; ntests = size of the random subset of
    the 112 test procedures (None: all)."""
    try:
        supported = "CHIBI_VERIF_GC_START" in open(os.path.join(da, "gc.c")).read()
    except OSError:
        supported = False
    if not supported:
        ctx.note("dense schedules over primitive-error paths skipped: the tree has no CHIBI_VERIF_GC_START hook")
        return 0
    emb = B.cc_embed(da, HARNESS, os.path.join(da, "embed_c02"))
    work = os.path.join(B.SCRATCH, "tmp_c02_work")
    os.makedirs(work, exist_ok=True)
    text = open(os.path.join(HERE, "..", "harness", "c02_errors.scm")).read()
    names = re.findall(r"^\(define \((t-[^ )]+)\)", text, re.M)
    pick = names if (ntests is None or ntests >= len(names)) else sorted(ctx.rng.sample(names, ntests))
    text = re.sub(r"^\(define tests .*$", lambda m: "(define tests (list %s))" % " ".join("(cons '%s %s)" % (n, n) for n in pick), text, flags=re.M)
    src = os.path.join(work, "errors-%s.scm" % hashlib.sha1(text.encode()).hexdigest()[:10])
    open(src, "w").write(text)
    fe, tr = os.path.join(work, "errors-empty.scm"), os.path.join(work, "errors.trace")
    open(fe, "w").write("\n")
    base_env = {"C02_NO_BOOT_GC": "1", "ASAN_OPTIONS": "detect_leaks=0:detect_odr_violation=0:exitcode=97"}

    def go(path, extra, timeout=1500):
        try:
            r = subprocess.run([emb, path, "/dev/null"], capture_output=True, text=True, env=B.chibi_env(da, dict(base_env, **extra)), timeout=timeout)
            return r.returncode, r.stdout, r.stderr
        except subprocess.TimeoutExpired:
            return "TIMEOUT", "", ""

    def count(path):
        go(path, {"CHIBI_VERIF_TRACE": tr})
        n, marks = 0, []
        for l in open(tr):
            if l.startswith("A "):
                n += 1
                if 77777 < int(l.split()[1]) < 77900:
                    marks.append(n)
        os.unlink(tr)
        return n, marks
    n0, _ = count(fe)
    n1, marks = count(src)
    rc0, out0, err0 = go(src, {})
    pre = "C02_NO_BOOT_GC=1 LD_LIBRARY_PATH=%s CHIBI_MODULE_PATH=%s/lib CHIBI_IGNORE_SYSTEM_PATH=1 ASAN_OPTIONS=detect_leaks=0:detect_odr_violation=0 %s %s /dev/null" % (da, da, emb, src)
    if rc0 != 0 or len(marks) != 2 or out0.count("\n") != len(pick):
        top0 = asan_top(err0)
        if top0:
            ctx.violation("schedule:errors:unforced:asan:%s:%s" % (top0[0], "/".join(top0[1][:2])), input="harness/c02_errors.scm (%d tests) without forced collections" % len(pick),
                          expected="runs to the end", observed="AddressSanitizer %s in %s" % (top0[0], " <- ".join(top0[1])), replay=pre)
        else:
            ctx.broken("outer:baseline", "harness/c02_errors.scm fails without forced collections (rc=%s, markers=%s, %d lines): %s" % (rc0, marks, out0.count("\n"), err0[-300:]))
        return 0
    start = marks[0] - n0
    n = 0
    for s, phase, audit in scheds:
        extra = {"CHIBI_VERIF_GC": s, "CHIBI_VERIF_GC_START": str(start + phase)}
        if audit:
            extra["CHIBI_VERIF_AUDIT"] = "1"
        rc, out, err = go(src, extra)
        if rc == "TIMEOUT":
            ctx.note("primitive-error run under %s timed out (inconclusive)" % s)
            continue
        n += 1
        ctx.count(1, key=("errors", tuple(pick), s, phase), nontrivial=True)
        replay = "%sCHIBI_VERIF_GC=%s CHIBI_VERIF_GC_START=%d %s" % ("CHIBI_VERIF_AUDIT=1 " if audit else "", s, start + phase, pre)
        what = "harness/c02_errors.scm (tests %s) under CHIBI_VERIF_GC=%s from allocation %d" % (" ".join(pick) if len(pick) <= 20 else "all %d" % len(pick), s, start + phase)
        ma = re.search(r"VERIF-AUDIT FAIL gc=\d+: ([^\n]*)", err)
        if ma:
            ctx.violation("audit:" + ma.group(1).replace(" ", "-")[:60], input=what, expected="closed, tiled heap with clear marks after every sweep", observed=ma.group(0), replay=replay)
        if rc != rc0 or out != out0:
            top = asan_top(err)
            l0, l1 = out0.split("\n"), out.split("\n")
            i = next((i for i, (x, y) in enumerate(zip(l0, l1)) if x != y), min(len(l0), len(l1)))
            ctx.violation("schedule:errors:%s" % ("asan:" + top[0] + ":" + "/".join(top[1][:2]) if top else ("exit-status" if rc != rc0 else "output-differs")),
                          input=what, expected="same output and exit status as the unforced run (first lines: %r)" % out0[:120],
                          observed=("AddressSanitizer %s in %s; output stops after %d of %d lines (%r)" % (top[0], " <- ".join(top[1][:6]), len(l1) - 1, len(l0) - 1, l1[-2:-1]) if top
                                    else "rc=%s; first differing line %d: %r vs %r" % (rc, i, l1[i:i + 1], l0[i:i + 1])),
                          replay=replay)
    ctx.sample(dict(kind="outer-errors", tests=len(pick), allocations_in_dense_region=marks[1] - marks[0], start_allocation=start, schedules=[sc[0] for sc in scheds]))
    return n


def gcmacros_static(ctx, d):
    """(G) regenerate the macro table, report a wrong arity / a wrong use site by name; returns the translator's facts or None"""
    from gen import c02_gcmacros
    work = os.path.join(B.SCRATCH, "tmp_c02_work")
    os.makedirs(work, exist_ok=True)
    try:
        gm = c02_gcmacros.regen(ctx, d, work)
    except Exception as e:
        ctx.broken("gen:C02_GcMacros", "gc macro translator failed closed: %s" % e)
        return None
    ctx.cov["gc_macro_arities"] = len(gm["arities"])
    ctx.cov["gc_macro_use_sites"] = gm["uses"]
    ctx.cov["gc_macro_uses_per_arity"] = {str(k): v for k, v in sorted(gm["uses_per_arity"].items())}
    gm["bad_arities"] = []
    for row in gm["table"]:
        why = c02_gcmacros.py_check(row)
        if why:
            gm["bad_arities"].append(row["k"])
            ctx.broken("gcmacros:arity-%d" % row["k"], "include/chibi/sexp.h: " + why)
    for (f, line, why) in gm["bad_use_sites"][:12]:
        ctx.broken("gcmacros:use-site:%s:%d" % (f, line), "%s:%d: %s" % (f, line, why))
    return gm


def gcmacros_inner(ctx, d, exe, gm):
    """(K-inner) the extracted model on the regenerated table vs the COMPILED macros around a real sexp_gc"""
    emb = B.cc_embed(d, HARNESS, os.path.join(d, "embed_c02"))
    # sexp_preserve_object / sexp_release_object: generated call sequences (ids 1..5 so that duplicates, releases of the head, of a
    # middle cell, of the last cell, of an absent object and of an object registered twice all occur)
    seqs = ["p1,p2,p1,p3,r1,r2,r7", "r1", "p1,r1,r1", "p1,p2,p3,r3", "p1,p2,p3,r1", "p1,p2,p3,r2", "p2,p2,p2,r2,p1,r2"]
    for _ in range(40 if ctx.thorough else 10):
        seqs.append(",".join(ctx.rng.choice("pppr") + str(ctx.rng.randrange(1, 6)) for _ in range(ctx.rng.randrange(2, 14))))
    answers = ctx.run_model(exe, ["gcmacros"] + ["pres " + s for s in seqs])
    ans, pres_model = answers[0], answers[1:]
    replay = "LD_LIBRARY_PATH=%s CHIBI_MODULE_PATH=%s/lib %s /dev/null /dev/null gcmacros '%s'" % (d, d, emb, ";".join(seqs))
    try:
        r = subprocess.run([emb, "/dev/null", "/dev/null", "gcmacros", ";".join(seqs)], capture_output=True, text=True, env=B.chibi_env(d), timeout=90)
        rc, outp, errp = r.returncode, r.stdout, r.stderr
    except subprocess.TimeoutExpired as e:      # a cyclic saves list makes the marker loop for ever: keep the lines printed so far
        so = e.stdout or ""
        rc, outp, errp = "TIMEOUT", (so.decode(errors="replace") if isinstance(so, bytes) else so), "timeout after 90 s (the collector does not return)"
    impl = {}
    for m in re.finditer(r"^G (\d+) chain=(\S+) intact=(\d+) release=(\d)$", outp, re.M):
        impl[int(m.group(1))] = (m.group(2), m.group(3), m.group(4))
    inits = {int(m.group(1)): m.group(2) for m in re.finditer(r"^I (\d+) init=(\d+)$", outp, re.M)}
    if not ans.startswith("OK "):
        ctx.broken("inner-correspondence:gcmacros", "model: " + ans[:200])
        return 0
    model = {}
    for part in ans[3:].split(";"):
        k, ch, rel = part.split(":")
        model[int(k)] = (ch, rel)
    n = 0
    for k in range(1, 8):
        want = (",".join(str(i) for i in range(k, -1, -1)), "1" * k, "1")
        got = impl.get(k)
        if got is None and rc != 0:
            continue            # the harness died before this arity (reported once below, or through the arity that killed it)
        n += 1
        ctx.count(1, key=("gcmacros", k), nontrivial=k >= 2)
        ctx.cov["traces_validated_against_impl"] += 1
        if k in inits and inits[k] != "1" * k:
            ctx.violation("gcmacros:arity-%d:uninitialised-variable" % k,
                          input="sexp_gc_var%d(...) at the top of a C function entered with pointer-like junk on the stack" % k,
                          expected="I %d init=%s (every declared variable holds the immediate SEXP_VOID until it is assigned, so a collection before the assignment follows nothing)" % (k, "1" * k),
                          observed="I %d init=%s" % (k, inits[k]), replay=replay)
        if got != want:
            # oracle = the SPEC: exactly the K arguments are visited by the marker, each object survives, release restores the caller's list
            lost = [i + 1 for i, c in enumerate((got or ("", "", ""))[1]) if c == "0"]
            ctx.violation("gcmacros:arity-%d:%s" % (k, "variable-swept" if lost else ("no-output" if got is None else "chain-or-release")),
                          input="sexp_gc_var%d / sexp_gc_preserve%d / sexp_gc_release%d (as compiled from the tree's sexp.h) around sexp_gc(ctx, NULL); %d fresh strings held only by the %d registered locals" % (k, k, k, k, k),
                          expected="G %d chain=%s intact=%s release=%s" % ((k,) + want),
                          observed=("G %d chain=%s intact=%s release=%s" % ((k,) + got) + (" (the object held by variable %s was swept)" % lost if lost else "")) if got else "rc=%s %s" % (rc, errp[-300:]),
                          replay=replay)
        elif model.get(k) != (want[0], want[2]):
            ctx.broken("inner-correspondence:gcmacros", "arity %d: the compiled macros behave as specified (%s) but the extracted model on the regenerated table gives chain=%s release=%s" % ((k, got) + model.get(k, ("?", "?"))), replay=replay)
    # ---- sexp_preserve_object / sexp_release_object: compiled functions vs the extracted run_ops; oracle = multiset spec in python
    pl = dict((m.group(1), m.group(2)) for m in re.finditer(r"^P (\S+) list=(\S*)$", outp, re.M))
    for s, ma in zip(seqs, pres_model):
        spec = []
        for op in s.split(","):
            if op[0] == "p":
                spec.insert(0, op[1:])
            elif op[1:] in spec:
                spec.remove(op[1:])            # first = most recent registration
        got = pl.get(s)
        if got is None and rc != 0:
            continue            # the harness died before it got here: reported once below
        n += 1
        ctx.count(1, key=("preservatives", s), nontrivial=("r" in s and "p" in s))
        ctx.cov["traces_validated_against_impl"] += 1
        if got != ",".join(spec):
            ctx.violation("preserve-object:list-differs", input="sexp_preserve_object / sexp_release_object calls %s on an empty preservatives list (ids = distinct live objects)" % s,
                          expected="list (head first) = %s: every release removes exactly one registration of its object, the most recent, and nothing else" % (",".join(spec) or "empty"),
                          observed="list = %s" % got, replay=replay)
        elif ma != "OK " + ",".join(spec):
            ctx.broken("inner-correspondence:preservatives", "calls %s: the compiled functions leave %s as specified but the extracted model answers %s" % (s, got, ma), replay=replay)
    mq = re.search(r"^Q intact=(\d+) after=(\d+) list=(\d+)$", outp, re.M)
    if rc == 0 and (not mq or mq.group(1) != "111" or mq.group(2)[0] != "1" or mq.group(2)[2] != "1" or mq.group(3) != "2"):
        ctx.violation("preserve-object:not-kept", input="three fresh strings held only through sexp_preserve_object, sexp_gc, sexp_release_object of the middle one, sexp_gc",
                      expected="Q intact=111 after=101 list=2", observed=mq.group(0) if mq else "no Q line", replay=replay)
    if rc != 0 and not ctx.violations:
        ctx.violation("gcmacros:harness-died", input="sexp_gc_var<K> / sexp_gc_preserve<K> / sexp_gc_release<K> for K = 1..7 around sexp_gc(ctx, NULL) (embed_c02 gcmacros)",
                      expected="exit 0 and one G line per arity", observed="rc=%s after %d of 7 arities; last lines: %r %s" % (rc, len(impl), outp.strip().split("\n")[-2:], errp[-300:]), replay=replay)
    ctx.sample(dict(kind="gcmacros", model=ans[3:], compiled={str(k): v for k, v in sorted(impl.items())}))
    return n


# warnings of gen/c02_gcvars.py on /repo HEAD that were read and judged harmless: (function, variable, kind) -> reason
GCVARS_TRIAGED = {
    ("sexp_flatten_dot", "(nested result)", "N"): "sexp_nreverse_op allocates only its type-error exception; the argument is a list here",
    ("sexp_string_utf8_index_ref", "off", "A"): "a string cursor is an immediate (an exception is returned before the use)",
    ("sexp_string_utf8_index_set", "off", "A"): "a string cursor is an immediate (an exception is returned before the use)",
    ("sexp_make_null_env_op", "(nested result)", "N"): "an interned symbol is rooted by the symbol table (or is an immediate)",
    ("sexp_range_exception", "(nested result)", "N"): "an interned symbol is rooted by the symbol table",
    ("sexp_read_string", "res", "U"): "res is tested with sexp_fixnump before the later calls: an immediate on that path",
    ("sexp_read_number", "(nested result)", "N"): "polar literal with a ratio magnitude: tried under every:1/2/3 (1/3@2, 7/2@1/2), no failure; sexp_to_double reads its argument before it can allocate",
    ("sexp_write_simple_object", "x", "A"): "exception returned by a failing custom type writer, printed at once: error path, not reproduced",
    ("sexp_read_raw_depth", "tmp2", "A"): "(same site: sexp_read_raw became sexp_read_raw_depth when /repo fix 'bound the nesting depth of the reader' threaded a depth counter through it) irritant of the `expected closing brace` reader error of #{...} literals, which the default reader rejects earlier: not reachable in the default configuration",
    ("sexp_read_raw", "tmp2", "A"): "irritant of the `expected closing brace` reader error of #{...} literals, which the default reader rejects earlier: not reachable in the default configuration",
}


def build_watched(ctx, variant, limit=300):
    """ctx.build with a watchdog: a breaking change can make the freshly built chibi-scheme loop for ever inside the repository's own
    `make` (e.g. a release macro that leaves a record of a dead frame on the saves list makes the list cyclic and the marker never
    returns).  vlib/build.py has no timeout, so a chibi-scheme process OF THIS SCRATCH BUILD that has been running for more than
    `limit` seconds (a normal one takes a few seconds) is killed by PID; make then fails and the partial-build fallback turns the
    breakage into a concrete failing input."""
    import threading, time, signal
    d = os.path.join(B.SCRATCH, "%s-%s" % (variant, B.source_hash()))
    exe = os.path.join(d, "chibi-scheme")
    done, seen, killed = threading.Event(), {}, []

    def dog():
        while not done.wait(15):
            now = time.time()
            for pid in os.listdir("/proc"):
                if not pid.isdigit():
                    continue
                try:
                    if os.readlink("/proc/%s/exe" % pid) != exe:
                        continue
                except OSError:
                    continue
                seen.setdefault(pid, now)
                if now - seen[pid] > limit:
                    try:
                        os.kill(int(pid), signal.SIGKILL)
                        killed.append(pid)
                    except OSError:
                        pass
    th = threading.Thread(target=dog, daemon=True)
    th.start()
    try:
        return ctx.build(variant)
    finally:
        done.set()
        if killed:
            ctx.note("build watchdog: %d chibi-scheme process(es) of the scratch build ran for more than %d s inside make and were killed" % (len(killed), limit))


def run(ctx):
    ctx.cov["rule"] = ("inner: one case = one collection (real sexp_mark + sexp_sweep) inside a generated workload (random mix of 20 snippets: deep "
                       "recursion, closures, vectors with trailing duplicates/immediates, call/cc + dynamic-wind, hash tables, bignums, ports, records "
                       "(run-time types), cycles, handlers, eval) dumped raw and replayed by the extracted model; non-trivial = more than 1000 objects, "
                       "something freed, registered C locals present; distinct by (program, gc#, #objects, #marked). "
                       "outer: one case = (generated program, forced-collection schedule: 8/64 consecutive allocations at a random point, seeded random, "
                       "every n-th) under ASan with poisoned free chunks; output compared with the unforced run")
    partial = False
    try:
        d = build_watched(ctx, "default")
    except B.BuildError:
        # the tree no longer builds to the end (typically: the freshly built chibi-scheme crashes while
        # the Makefile runs it).  If the core library exists, still run the inner correspondence on
        # workloads that need no compiled library, to turn the breakage into a concrete failing input.
        d = os.path.join(B.SCRATCH, "default-" + B.source_hash())
        if not (os.path.exists(os.path.join(d, "libchibi-scheme.so")) and os.path.exists(os.path.join(d, "lib", "init-7.scm"))):
            raise
        partial = True
        ctx.note("default build incomplete; inner correspondence run on the partial build " + d)
    from gen import c02_layout
    try:
        facts = c02_layout.regen(ctx, d)
    except Exception as e:
        ctx.broken("gen:C02_Layout", "layout translator failed closed: %s" % e)
        return
    from gen import c02_vmtop
    try:
        vt = c02_vmtop.regen(ctx, d)
        badsegs = [sg for sg in vt["segments"] if sg["bad"]]
        ctx.cov["vm_segments"] = len(vt["segments"])
        ctx.cov["vm_segments_with_allocating_calls"] = sum(1 for sg in vt["segments"] if sg["calls"])
        ctx.cov["may_allocate_functions"] = vt["may_allocate"]
        for a in vt["assumptions"]:
            ctx.assume("vm.c translator: " + a)
        ctx.trust("gen/c02_vmtop.py: functions outside the core library called from the opcode switch are taken as non-allocating: " + ", ".join(vt["external"]))
        ctx.cov["vm_segments_with_stack_stores"] = sum(1 for sg in vt["segments"] if sg.get("stores"))
        for sg in badsegs:
            kinds = sorted(set(b[1] for b in sg["bad"]))
            cls = "lost-root" if ("lost" in kinds or "lost-store" in kinds or "lost-arg" in kinds) else ("stale-root" if "stale" in kinds else ("exit" if "exit" in kinds else "other"))
            ctx.broken("vmtop:%s:%s" % (cls, "/".join(sg["names"])),
                       "opcode %s of vm.c: %s" % ("/".join(sg["names"]), "; ".join(sorted(set(c02_vmtop.why_text(b) for b in sg["bad"])))[:900]))
        ctx.assume("vm.c translator / checker: at the start of an opcode every slot below the local top and below the published top has been written "
                   "(re-established by every accepted opcode at every exit: theorem vm_stack_scan_exact); `top = <expression>` yields a top at or below the written end; "
                   "a callee returns with the published top it was called with, or the opcode reloads top from it; slots written or popped earlier in the "
                   "same opcode keep valid values across a collection that did not scan them (value liveness is outside the abstraction)")
    except Exception as e:
        ctx.broken("gen:C02_VmTop", "vm.c opcode-switch translator failed closed: %s" % e)
        return
    # generated obligation (search aid with a triaged allow-list): sexp_gc_var discipline of C locals, from the clang AST
    from gen import c02_gcvars
    try:
        work = os.path.join(B.SCRATCH, "tmp_c02_work")
        os.makedirs(work, exist_ok=True)
        gv = c02_gcvars.analyse(d, work, units=("eval", "sexp", "vm", "bignum", "simplify") if ctx.thorough else ("eval", "sexp", "vm", "bignum"))
        ctx.cov["gcvars_functions"] = gv["functions"]
        ctx.cov["gcvars_unregistered_sexp_locals"] = gv["unregistered_sexp_locals"]
        new_w = [w for w in gv["warnings"] if (w["function"], w["var"], w["kind"]) not in GCVARS_TRIAGED]
        ctx.cov["gcvars_warnings_triaged_false_positive"] = len(gv["warnings"]) - len(new_w)
        for w in new_w[:12]:
            ctx.broken("gcvars:%s:%s:%s" % (w["function"], w["var"].strip("()").replace(" ", "-"), w["kind"]),
                       "%s.c:%s %s: %s" % (w["unit"], w["line"], w["function"], {
                           "U": "the unregistered local `%s` holds the fresh result of %s (line %s) and is read after a later call that may allocate",
                           "A": "the unregistered local `%s` holds the fresh result of a call and is passed to a call that may allocate (%s; assigned at line %s): the callee allocates before it stores its arguments",
                           "N": "%s: the fresh result of a nested call is passed directly to a call that may allocate (%s, line %s)"}[w["kind"]] % (w["var"], w["callee"], w["def_line"])))
        ctx.trust("gen/c02_gcvars.py is a search aid used as an obligation through a triaged allow-list (props/C02.py GCVARS_TRIAGED: %d entries, each with the reason why the flagged value is an immediate, rooted elsewhere, or only reachable on an error path that was tried); it does not see roots held through other objects nor freshness of results" % len(GCVARS_TRIAGED))
    except Exception as e:
        ctx.broken("gen:C02_gcvars", "gc-var discipline analysis failed closed: %s" % e)
    gm = gcmacros_static(ctx, d)
    if gm is None:
        return
    okc = ctx.coq_obligations("Properties_C02")     # a failing layout obligation also shows up as a mark/oracle disagreement in inner()
    if okc and ctx.thorough:
        coqdir = os.path.join(HERE, "..", "coq")
        r = subprocess.run("timeout 900 coqchk -silent -o -Q . ChibiV ChibiV.Properties_C02", shell=True, cwd=coqdir, capture_output=True, text=True)
        txt = r.stdout + r.stderr
        ctx.checker_cmds.append("cd coq && coqchk -silent -o -Q . ChibiV ChibiV.Properties_C02")
        if r.returncode != 0 or "Axioms: <none>" not in txt:
            ctx.broken("coqchk:Properties_C02", "coqchk does not accept the compiled closure: " + txt[-600:])
        else:
            ctx.note("coqchk re-checked the .vo closure of Properties_C02: axioms <none>, no type-in-type, no assumed positivity/guard")
    exe = ctx.extract("C02")
    if exe is None:
        return
    if ctx.thorough:
        ni, si, no, so, ns, dense = 12, 8, 6, 6, 8, None
    else:
        ni, si, no, so, ns, dense = 2, 4, 3, 4, 3, None
    import time
    t0 = time.time()
    ng = gcmacros_inner(ctx, d, exe, gm)
    if partial and ctx.violations:
        return          # the tree does not build to the end and a concrete failing input is already on record
    ctx.note("gc macro families: %d arities regenerated, %d use sites scanned, %d cases (7 arities + preserve/release-object call sequences) run compiled around real collections" % (len(gm["arities"]), gm["uses"], ng))
    nc = inner(ctx, d, exe, facts, ni, si, only_noimport=partial)
    nh = 0 if partial else inner_hook(ctx, d, exe, 8 if ctx.thorough else 2)
    t1 = time.time()
    ctx.note("inner: %d collections at (verif-gc)/C-level points (raw words), %d forced collections at arbitrary allocation points (hook dumps)" % (nc, nh))
    if partial:
        return
    da = ctx.build("asan")
    t2 = time.time()
    # C code of the compiled libraries that calls back into Scheme (user hash / equality procedures of SRFI 69 incl. the resize,
    # allocating comparators / key procedures of SRFI 95): harness/c02_callbacks.scm, in a background thread (own harness binary)
    if ctx.thorough:
        cscheds = [("every:1", False), ("every:2", True), ("every:%d" % ctx.rng.choice([3, 5, 7]), False), ("seed:%d:11" % ctx.rng.randrange(1, 1000), True)]
    else:
        cscheds = [("every:%d" % ctx.rng.choice([13, 17, 19]), False)]
    cb_ctx = Deferred(ctx)
    import threading
    cb_out = []

    def cb_run():
        try:
            cb_out.append(outer_libs(cb_ctx, da, cscheds, srcname="c02_callbacks.scm", tag="callbacks", embname="embed_c02_cb"))
        except Exception as e:
            cb_ctx.broken("outer:callbacks", "stream harness/c02_callbacks.scm failed: %s" % e)
    cb_thread = threading.Thread(target=cb_run)
    cb_thread.start()
    nr = outer(ctx, da, no, so, ns, dense)
    t3 = time.time()
    if ctx.thorough:
        dscheds = ["every:1", "every:2", "every:3", "every:7", "seed:%d:5" % ctx.rng.randrange(1, 1000), "seed:%d:11" % ctx.rng.randrange(1, 1000)]
    else:
        k0 = ctx.rng.randrange(1, 12000)
        dscheds = ["every:2", "every:%d" % ctx.rng.choice([5, 6, 7]), "seed:%d:9" % ctx.rng.randrange(1, 1000), "at:" + ",".join(str(k0 + i) for i in range(64))]
    # a wrong macro arity (static) -> targeted search: the Karatsuba stream (only user of arity 7) under every:1 as well
    nd = outer_dense(ctx, da, dscheds, [], karat_scheds=(["every:1", "every:3"] if (gm["bad_arities"] and not ctx.thorough) else None))
    t4 = time.time()
    if ctx.thorough:
        lscheds = [("every:11", False), ("seed:%d:17" % ctx.rng.randrange(1, 1000), False), ("every:29", True)]
    else:
        lscheds = [("every:%d" % ctx.rng.choice([53, 61, 67]), False)]
    nl = outer_libs(ctx, da, lscheds)
    if ctx.thorough:
        l2 = [("every:%d" % ctx.rng.choice([29, 31, 37]), False), ("seed:%d:41" % ctx.rng.randrange(1, 1000), True)]
    else:
        l2 = [("every:%d" % ctx.rng.choice([307, 311, 331]), False)]
    nl += outer_libs(ctx, da, l2, srcname="c02_libs2.scm", tag="libs2")
    cb_thread.join()
    cb_ctx.flush(ctx)
    nl += sum(cb_out)
    t5 = time.time()
    rs = lambda: ctx.rng.randrange(1, 100000)
    if ctx.thorough:
        tscheds = [("every:1", True, "seed:%d:25" % rs()), ("every:%d" % ctx.rng.choice([2, 3]), False, "seed:%d:9" % rs()), ("seed:%d:3" % rs(), False, "seed:%d:60" % rs())]
    else:
        tscheds = [("every:%d" % ctx.rng.choice([17, 19, 23]), False, "seed:%d:%d" % (rs(), ctx.rng.choice([7, 30, 120])))]
    nt = outer_libs(ctx, da, tscheds, srcname="c02_threads.scm", tag="threads", more_env={"CHIBI_VERIF_SCHED_CLOCK": "1000"})
    t6 = time.time()
    ctx.note("green-thread programs under dense forced collections: %d runs %.0fs" % (nt, t6 - t5))
    if ctx.thorough:
        ne = outer_errors(ctx, da, None, [("every:1", 0, False), ("every:2", 1, True)])
    else:
        ne = outer_errors(ctx, da, 8, [("every:1", 0, False)])
    t7 = time.time()
    ctx.note("primitive-error paths under dense forced collections: %d runs %.0fs" % (ne, t7 - t6))
    ctx.note("timing: inner %d collections %.0fs; asan build %.0fs; outer %d runs %.0fs; dense %d runs %.0fs; library dense %d runs %.0fs" % (
        nc, t1 - t0, t2 - t1, nr, t3 - t2, nd, t4 - t3, nl, t5 - t4))
    _tiny_heap_probe(ctx, da)
    ctx.assume("weak references, ephemerons and finalizers are outside this model (C16); the free list and heap shape are C10's")
    ctx.assume("the root-registration discipline of C callers (which locals a function must register, and that it releases on every path) is not a theorem: "
               "the macro families themselves are (gc_macros_register_exactly_their_arguments), their use sites are scanned for matching arity and argument lists, "
               "gen/c02_gcvars.py searches for unregistered fresh locals, and the rest is explored by the forced-collection schedules")
    ctx.assume("the mark stack (1024 inline entries, then malloc without a NULL check, gc.c:238) is an unbounded list in the model")
    ctx.trust("harness/embed_c02.c re-implements the body of sexp_gc (mark, weak reset, finalize, sweep) around the dumps; the heap walk it uses is the one of sexp_sweep")


def _r7rs(ctx, da):
    """thorough: the repository's own R7RS test file (1225 tests) under forced schedules; the lines
    that report elapsed time are normalised"""
    src = os.path.join(B.REPO, "tests", "r7rs-tests.scm")
    if not os.path.exists(src):
        return 0
    norm = lambda t: re.sub(r"in [0-9.e-]+ seconds", "", t)
    def go(sched):
        env = {"CHIBI_VERIF_GC": sched} if sched else {}
        try:
            r = B.run_chibi(da, [src], timeout=1500, extra_env=env, cwd=B.REPO)
            return r.returncode, norm(r.stdout), r.stderr
        except subprocess.TimeoutExpired:
            return "TIMEOUT", "", ""
    rc0, out0, err0 = go(None)
    if rc0 != 0:
        ctx.broken("outer:baseline", "tests/r7rs-tests.scm fails without forced collections: rc=%s" % rc0)
        return 0
    n = 0
    for s in ["seed:%d:101" % ctx.rng.randrange(1, 10000), "every:257", "seed:%d:37" % ctx.rng.randrange(1, 10000)]:
        rc, out, err = go(s)
        if rc == "TIMEOUT":
            ctx.note("r7rs-tests under %s timed out (inconclusive)" % s)
            continue
        n += 1
        ctx.count(1, key=("r7rs", s), nontrivial=True)
        if rc != rc0 or out != out0:
            top = asan_top(err)
            l0, l1 = out0.split("\n"), out.split("\n")
            i = next((i for i, (x, y) in enumerate(zip(l0, l1)) if x != y), min(len(l0), len(l1)))
            ctx.violation("schedule:r7rs-tests:%s" % ("asan:" + "/".join(top[1][:2]) if top else "output"), input="tests/r7rs-tests.scm under CHIBI_VERIF_GC=%s" % s,
                          expected="same report as the unforced run", observed=(str(top) if top else "rc=%s, first differing line %d: %r vs %r" % (rc, i, l1[i:i + 1], l0[i:i + 1])),
                          replay="cd %s && CHIBI_VERIF_GC=%s LD_LIBRARY_PATH=%s CHIBI_MODULE_PATH=%s/lib CHIBI_IGNORE_SYSTEM_PATH=1 ASAN_OPTIONS=detect_leaks=0 %s/chibi-scheme tests/r7rs-tests.scm" % (B.REPO, s, da, da, da))
    return n


def _tiny_heap_probe(ctx, da):
    """F-C02-2 (see notes/C02.md): an initial heap smaller than about 40k makes context bootstrap collect
    with an incomplete context and crash.  Reported as a violation only when known_findings.json lists
    the signature (then it is printed as KNOWN-FINDING while it reproduces); otherwise noted."""
    import json
    sig = "heap-size:bootstrap-crash"
    try:
        r = B.run_chibi(da, ["-h", "16k", "-q", "-e", "(begin (write (+ 1 2)) (newline))"], timeout=60)
        bad = r.returncode != 0 or r.stdout.strip() != "3"
    except subprocess.TimeoutExpired:
        bad = True
    if not bad:
        return
    try:
        kf = json.load(open(os.path.join(HERE, "..", "known_findings.json")))
        listed = any(f.get("sig") == sig and f.get("property") == "C02" for f in kf.get("findings", []))
    except Exception:
        listed = False
    if listed:
        ctx.violation(sig, input="chibi-scheme -h 16k -q -e '(begin (write (+ 1 2)) (newline))'", expected="3 (or a clean out-of-memory error)",
                      observed="crash in sexp_mark <- sexp_gc <- sexp_alloc <- sexp_bootstrap_context",
                      replay="cd %s && LD_LIBRARY_PATH=. CHIBI_MODULE_PATH=lib ./chibi-scheme -h 16k -q -e '(begin (write (+ 1 2)) (newline))'" % da)
    else:
        ctx.note("finding heap-size:bootstrap-crash reproduces (chibi-scheme -h 16k crashes during context bootstrap); it is not listed in known_findings.json, see notes/C02.md (e)3")




def replay(ctx, data):
    """./check C02 --replay evidence/replay/C02-n.json : re-run the recorded failing commands"""
    rc = 0
    for case in data.get("failing_cases", []):
        cmd = case.get("replay")
        if not cmd:
            continue
        print("replaying: " + cmd)
        r = subprocess.run(cmd, shell=True, capture_output=True, text=True, timeout=1800)
        print("exit status %s\n%s\n%s" % (r.returncode, r.stdout[-1500:], r.stderr[-2500:]))
        print("expected: %s\nobserved at check time: %s" % (case.get("expected"), case.get("observed")))
        rc = 1
    for u in data.get("no_longer_checks", []):
        print("no longer checks: %s: %s" % (u.get("name"), str(u.get("reason"))[:800]))
        rc = 1
    return rc
