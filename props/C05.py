"""C05 — tail calls run in constant space; deep recursion ends cleanly.
   (T) coq/Properties_C05.v (generator emits TAIL-CALL exactly at R7RS 3.5 tail sites; TAIL-CALL reuses the frame;
       chains of tail calls keep the frame base for all n; stack growth arithmetic; deep recursion by depth).
   (K-inner) loop programs = spine of R7RS 3.5 tail contexts (derived forms included, i.e. through the macros of
       init-7.scm) around the recursive call, with every AST constructor in the SIBLING positions (other branch, earlier
       clause / sequence element, test, operand, operator): (a) in the real bytecode the recursive call is TAIL-CALL
       exactly when the surface context is a tail context, (b) the CALL/TAIL-CALL sequence of every code body equals the
       one the extracted model generator produces from the same analysed AST; (b) also over random typed programs
       (props/C03.py Gen).
   (K-outer) every loop runs under a foreign probe of sexp_context_top (depth at the first and at a late iteration must
       be equal), a subset and every suspicious one for 10^6 (quick) / 10^7 (thorough) iterations; non-tail recursion
       at depths sampled over the whole range (around every doubling boundary, between max/2 and max, around the
       maximum, beyond) must give exactly the outcome and the stack length of the extracted model [deep_outcome];
       the context must stay usable; long argument lists applied deep in a recursion (growth by more than doubling)
       run under ASan with poisoned free heap chunks."""
import os, subprocess, re
from vlib import build as B
from props import C03 as K

X = "@X@"      # the recursive call
S = "@S@"      # sibling that is never executed (any value)
E = "@E@"      # sibling executed on every iteration, value ignored
T = "@T@"      # executed sibling whose value is true
F = "@F@"      # executed sibling whose value is #f
SLOTS = (S, E, T, F)
MARK0 = 7000   # accumulator increments above MARK0 (and below MARK0 + 100) mark the never-executed sibling self-calls
REC_NAMES = ("loop", "pong", "pang")


def fill(t, m):
    if isinstance(t, str) and t in m:
        return m[t]
    if isinstance(t, list):
        return [fill(y, m) for y in t]
    return t


def slots_of(t, acc=None):
    acc = set() if acc is None else acc
    if isinstance(t, str) and t in SLOTS:
        acc.add(t)
    elif isinstance(t, list):
        for y in t:
            slots_of(y, acc)
    return acc


# (name, is a tail context by R7RS 3.5, template).  Inside the template i > 0 holds.  The sibling slots are filled
# with one of SIBLINGS; with the default sibling the templates are the contexts of the first version of this check.
CONTEXTS = [
    ("if-else", True, ["if", ["<", "i", 0], S, X]),
    ("if-then", True, ["if", [">", "i", 0], X, S]),
    ("if-test-then", True, ["if", T, X, 0]),
    ("if-test-else", True, ["if", F, 0, X]),
    ("if-nested-then", True, ["if", ["<", "i", 0], ["if", ["<", "i", 1], S, 0], X]),
    ("if-nested-else", True, ["if", ["<", "i", 0], 0, ["if", ["<", "i", 0], S, X]]),
    ("if-one-armed", True, ["begin", ["if", ["<", "i", 0], S], X]),
    ("cond-clause", True, ["cond", [["<", "i", 0], S], [[">", "i", 0], X], ["else", S]]),
    ("cond-else", True, ["cond", [["<", "i", 0], S], ["else", X]]),
    ("cond-seq", True, ["cond", [["<", "i", 0], 0], ["else", E, X]]),
    ("cond-arrow", True, ["cond", [["<", "i", 0], S], [[">", "i", 0], "=>", ["lambda", ["t"], X]]]),
    ("case-clause", True, ["case", ["if", [">", "i", 0], 1, 2], [[1], X], [[2], S], ["else", S]]),
    ("case-clause-late", True, ["case", ["if", [">", "i", 0], 1, 2], [[2], S], [[1], E, X]]),
    ("case-else", True, ["case", 5, [[1, 2], S], ["else", X]]),
    ("and-last", True, ["and", True, T, X]),
    ("and-2", True, ["and", T, X]),
    ("or-last", True, ["or", False, F, X]),
    ("or-2", True, ["or", F, X]),
    ("when-last", True, ["when", [">", "i", 0], E, X]),
    ("when-1", True, ["when", T, X]),
    ("unless-last", True, ["unless", ["<", "i", 0], E, X]),
    ("unless-1", True, ["unless", F, X]),
    ("let-body", True, ["let", [["t", E]], X]),
    ("let-body-seq", True, ["let", [["t", 1]], E, X]),
    ("let*-body", True, ["let*", [["t", 1], ["u", E]], X]),
    ("letrec-body", True, ["letrec", [["t", ["lambda", [], S]]], E, X]),
    ("letrec*-body", True, ["letrec*", [["t", 1], ["u", ["lambda", [], "t"]]], E, X]),
    ("named-let-exit", True, ["let", "lp2", [["k", 0]], ["if", ["<", "k", 1], ["lp2", ["+", "k", 1]], ["begin", E, X]]]),
    ("begin-last", True, ["begin", E, X]),
    ("begin-3", True, ["begin", E, 1, E, X]),
    ("begin-const-last", True, ["begin", E, ["quote", "step"], X]),      # constants generate no code in a sequence
    ("body-const-last", True, [["lambda", ["t"], E, "#\\a", False, X], 1]),
    ("lambda-body", True, [["lambda", ["t"], E, X], 1]),
    ("internal-define-body", True, [["lambda", [], ["define", "t", 1], E, X]]),
    ("do-result", True, ["do", [["k", 0, ["+", "k", 1]]], [[">", "k", 0], E, X]]),
    ("do-result-1", True, ["do", [["k", 0, ["+", "k", 1]]], [[">", "k", 0], X], E]),
    ("operand-begin", True, X),        # the sibling sits inside an operand of the recursive call (see loop_program)
    ("operand-if", True, X),
    ("operator-begin", True, X),       # ... or in its operator
    # negative controls: not tail contexts
    ("operand", False, ["+", 0, X]),
    ("let-init", False, ["let", [["t", X]], "t"]),
    ("begin-nonlast", False, ["begin", X, "acc"]),
    ("if-test", False, ["if", X, "acc", "acc"]),
    ("and-nonlast", False, ["and", X, "acc"]),
]
CTX_SLOTS = {"operand-begin": {E}, "operand-if": {T}, "operator-begin": {E}}

# (name, expression, may be executed, value when executed: "t" true / "f" false).  One entry per AST constructor the
# code generator knows (lit, ref local/global, set! local/global, cnd, seq, lambda, general application, opcode
# application) and per derived form, several ending in a set! (generate_set clears the tail flag and nobody but the
# enclosing cnd / seq / app restores it).  `None` = the recursive call itself (two tail calls side by side).
SIBLINGS = [
    ("lit", 0, True, "t"),
    ("lit-false", False, True, "f"),
    ("ref-local", "i", True, "t"),
    ("ref-global", "g0", True, "t"),
    ("set-global", ["set!", "g0", 1], True, "t"),
    ("set-local", ["set!", "i", "i"], True, "t"),
    ("opapp", ["+", "i", 1], True, "t"),
    ("opapp-false", ["<", "i", 0], True, "f"),
    ("app", ["ident", "i"], True, "t"),
    ("app-false", ["ident", False], True, "f"),
    ("apply", ["apply", "ident", ["list", "i"]], True, "t"),
    ("lambda", ["lambda", [], "i"], True, "t"),
    ("seq-set", ["begin", ["ident", "i"], ["set!", "g0", 1]], True, "t"),
    ("seq-lit", ["begin", ["set!", "g0", 1], 0], True, "t"),
    ("seq-false", ["begin", ["set!", "g0", 1], False], True, "f"),
    ("cnd-set-then", ["if", ["<", "i", 0], ["set!", "g0", 1], 0], True, "t"),
    ("cnd-set-else", ["if", [">", "i", 0], 0, ["set!", "g0", 2]], True, "t"),
    ("cnd-app", ["if", ["<", "i", 0], ["ident", 1], ["ident", 2]], True, "t"),
    ("cnd-false", ["if", ["<", "i", 0], ["set!", "g0", 1], False], True, "f"),
    ("let-set", ["let", [["t", 1]], ["set!", "t", 2]], True, "t"),
    ("when-set", ["when", [">", "i", 0], ["set!", "g0", 1]], True, "t"),
    ("unless-set", ["unless", ["<", "i", 0], ["ident", 1], ["set!", "g0", 1]], True, "t"),
    ("or-app", ["or", ["<", "i", 0], ["ident", "i"]], True, "t"),
    ("and-set", ["and", [">", "i", 0], ["set!", "g0", 3]], True, "t"),
    ("cond-set", ["cond", [["<", "i", 0], 1], ["else", ["set!", "g0", 4]]], True, "t"),
    ("case-set", ["case", "i", [[0], ["set!", "g0", 1]], ["else", 0]], True, "t"),
    ("named-let", ["let", "lp3", [["k", 0]], ["if", ["<", "k", 1], ["lp3", ["+", "k", 1]], "k"]], True, "t"),
    ("do-set", ["do", [["k", 0, ["+", "k", 1]]], [[">", "k", 0], ["set!", "g0", "k"]]], True, "t"),
    ("self-call", None, False, None),
]
DEFAULT_SIB = {S: 0, E: 1, T: [">", "i", 0], F: ["<", "i", 0]}

CALLEES = ["fixed", "rest-used", "rest-unused", "mutual", "apply", "mutual3", "apply-rest", "fixed8", "mutual-arity",
           "named-let", "internal-define", "apply8", "mutual-grow", "apply40", "fixed20"]
# the same with the procedures defined inside a top-level let (code the simplifier never reaches)
TOPLET = ["toplet:" + c for c in CALLEES if c not in ("named-let", "internal-define")]
EXITS = ["value", "set", "begin-set", "opapp"]


def ctx_slots(c):
    return CTX_SLOTS.get(c[0]) or slots_of(c[2])


def sib_map(sib, rec):
    """slot -> expression for one sibling (None when the sibling cannot stand in that slot)"""
    name, ex, executable, val = sib
    if ex is None:
        ex = rec
    m = {S: ex}
    if executable:
        m[E] = ex
        if val == "t":
            m[T] = ex
        if val == "f":
            m[F] = ex
    return m


def compatible(c, sib):
    # (a self-call in the one-armed if of `if-one-armed` is a NON-tail site next to the tail site X: the expected flag is
    # computed per call site by surface_sites, so mixed programs are fine)
    m = sib_map(sib, 0)
    return all(s in m for s in ctx_slots(c))


def loop_program(ctxs, callee, n, probe, sibs=None, exit_kind="value"):
    """ctxs: list of contexts, outermost first; sibs: one sibling (or None = defaults) per context.
    returns (forms, name of the global whose call is inspected)"""
    sibs = sibs or [None] * len(ctxs)
    toplet = callee.startswith("toplet:")
    if toplet:
        callee = callee[len("toplet:"):]

    def define(head, body):
        """(define (f . params) body..), or - placement `toplet` - (define f (let ((state 0)) (lambda params body..))):
        simplify.c does not descend into a lambda applied at top level (its `lambda == NULL` case), so there the code
        generator sees the program as written: constants and references as non-final sequence elements, constant tests"""
        if not toplet:
            return ["define", head] + body
        return ["define", head[0], ["let", [["state", 0]], ["lambda", head[1:]] + body]]

    def make_rec(inc):
        """the recursive call; `inc` = the increment of the accumulator.  The call X of the loop uses 1; a self-call
        standing in a sibling slot (never executed) uses a marker MARK0+1+j, by which the call SITE is recognised in
        the bytecode (the PUSH of the marker precedes the call) and in the surface program (surface_sites)."""
        nxt = ["+", ["car", "r"], inc] if callee in ("rest-used", "apply-rest") else ["+", "acc", inc]
        for c, sb in zip(ctxs, sibs):
            m = dict(DEFAULT_SIB)
            if sb is not None:
                m.update(sib_map(sb, 0))
            if c[0] == "operand-begin":
                nxt = ["begin", m[E], nxt]
            elif c[0] == "operand-if":
                nxt = ["if", m[T], nxt, 0]
        dec = ["-", "i", 1]
        rec = {"fixed": ["loop", dec, nxt],
               "rest-used": ["loop", dec, nxt],
               "rest-unused": ["loop", dec, nxt, 0, 0],
               "mutual": ["pong", dec, nxt],
               "mutual3": ["pong", dec, nxt],
               "fixed8": ["loop", dec, nxt, 1, 2, 3, 4, 5, 6],
               "mutual-arity": ["pong", dec, nxt, 7, 8, 9],
               "mutual-grow": ["pong", dec, nxt, 1, 2, 3, 4, 5, 6],
               "named-let": ["loop", dec, nxt],
               "internal-define": ["loop", dec, nxt],
               "apply": ["apply", "loop", ["list", dec, nxt]],
               "apply8": ["apply", "loop", ["list", dec, nxt, 1, 2, 3, 4, 5, 6]],
               "apply40": ["apply", "loop", dec, nxt, "pad38"],
               "fixed20": ["loop", dec, nxt] + list(range(1, 19)),
               "apply-rest": ["apply", "loop", dec, ["list", nxt]]}[callee]
        for c, sb in zip(ctxs, sibs):
            if c[0] == "operator-begin":
                m = dict(DEFAULT_SIB)
                if sb is not None:
                    m.update(sib_map(sb, 0))
                rec = [["begin", m[E], rec[0]]] + rec[1:]
        return rec
    rec = make_rec(1)
    body = rec
    for j, c, sb in reversed(list(zip(range(len(ctxs)), ctxs, sibs))):
        m = dict(DEFAULT_SIB)
        if sb is not None:
            m.update(sib_map(sb, make_rec(MARK0 + 1 + j)))
        m[X] = body
        body = fill(c[2], m)
    restp = callee in ("rest-used", "apply-rest")
    head = {"fixed": ["loop", "i", "acc"], "rest-used": ["loop", "i", ".", "r"], "rest-unused": ["loop", "i", "acc", ".", "r"],
            "mutual": ["loop", "i", "acc"], "mutual3": ["loop", "i", "acc"], "apply": ["loop", "i", "acc"],
            "apply-rest": ["loop", "i", ".", "r"], "fixed8": ["loop", "i", "acc", "a", "b", "c", "d", "e", "f"],
            "apply8": ["loop", "i", "acc", "a", "b", "c", "d", "e", "f"],
            "apply40": ["loop", "i", "acc", ".", "r"], "fixed20": ["loop", "i", "acc"] + ["a%d" % k for k in range(1, 19)],
            "mutual-arity": ["loop", "i", "acc"], "mutual-grow": ["loop", "i", "acc"], "named-let": ["loop", "i", "acc"], "internal-define": ["loop", "i", "acc"]}[callee]
    acc = ["car", "r"] if restp else "acc"
    pre = [["note", "i"]] if probe else []
    forms = [["define", "g0", 0], ["define", "result", False], ["define", ["ident", "x"], "x"]]
    if callee == "apply40":
        forms.append(["define", "pad38", ["quote", list(range(1, 39))]])
    if probe:
        forms += [["define", "top-first", 0], ["define", "top-late", 0],
                  ["define", ["note", "i"], ["if", ["=", "i", n], ["set!", "top-first", ["verif-top"]],
                                             ["if", ["<", "i", 3], ["set!", "top-late", ["verif-top"]], False]]]]
    if restp and any(c[0] in ("begin-nonlast", "if-test", "and-nonlast") for c in ctxs):
        body = ["let", [["acc", ["car", "r"]]], body]
    ex = {"value": acc, "set": ["set!", "result", acc], "begin-set": ["begin", ["ident", 1], ["set!", "result", acc]],
          "opapp": ["+", acc, 0]}[exit_kind]
    loopbody = pre + [["if", ["=", "i", 0], ex, body]]
    if callee in ("named-let", "internal-define"):
        # the loop procedure is local: bound by a named let / an internal define of (run n)
        if callee == "named-let":
            forms.append(["define", ["run", "n"], ["let", "loop", [["i", "n"], ["acc", 0]]] + loopbody])
        else:
            forms.append(["define", ["run", "n"], ["define", head] + loopbody, ["loop", "n", 0]])
        call = ["run", n]
        if exit_kind in ("set", "begin-set"):
            call = ["begin", call, "result"]
        forms.append(["let", [["res", call]], ["cons", "res", ["-", "top-late", "top-first"]]] if probe else call)
        return forms, None
    forms.append(define(head, loopbody))
    if callee == "mutual-arity":
        # the partner takes more arguments than the loop: every tail call changes the size of the reused frame
        forms.append(define(["pong", "i", "acc", "x", "y", "z"], [["if", ["=", "i", 0], ex, ["loop", ["-", "i", 1], ["+", "acc", 1]]]]))
    if callee == "mutual-grow":
        # the partner takes 6 more arguments: the new arguments of the tail call do not fit into the caller's frame, the
        # source and destination regions of the copy in TAIL_CALL overlap (and back: 6 fewer)
        forms.append(define(["pong", "i", "acc", "a", "b", "c", "d", "e", "f"], [["if", ["=", "i", 0], ex, ["loop", ["-", "i", 1], ["+", "acc", "a"]]]]))
    if callee == "mutual":
        forms.append(define(["pong", "i", "acc"], [["if", ["=", "i", 0], ex, ["loop", ["-", "i", 1], ["+", "acc", 1]]]]))
    if callee == "mutual3":
        # three procedures, the other two reach the exit through a when / a cond clause
        forms.append(define(["pong", "i", "acc"], [["cond", [["=", "i", 0], ex], ["else", ["pang", ["-", "i", 1], ["+", "acc", 1]]]]]))
        forms.append(define(["pang", "i", "acc"], [["if", [">", "i", 0], ["loop", ["-", "i", 1], ["+", "acc", 1]], ex]]))
    # same number of surplus arguments as the recursive call: with an unused rest parameter they stay in the frame
    call = ["loop", n, 0, 0, 0] if callee == "rest-unused" else ["loop", n, 0]
    if callee in ("fixed8", "apply8"):
        call = ["loop", n, 0, 1, 2, 3, 4, 5, 6]
    if callee == "fixed20":
        call = ["loop", n, 0] + list(range(1, 19))
    if callee == "apply40":
        call = ["apply", "loop", n, 0, "pad38"]
    if exit_kind in ("set", "begin-set"):
        call = ["begin", call, "result"]
    # the loop must run before the probes are read: operands are evaluated right to left
    forms.append(["let", [["res", call]], ["cons", "res", ["-", "top-late", "top-first"]]] if probe else call)
    target = {"mutual": "pong", "mutual3": "pong", "mutual-arity": "pong", "mutual-grow": "pong", "apply": "apply", "apply-rest": "apply", "apply8": "apply", "apply40": "apply"}.get(callee, "loop")
    return forms, target


NN = "@N@"
# loops whose iteration is written by a macro of init-7.scm (do, named let) or bound locally; (name, forms, value)
MACRO_LOOPS = [
    ("do", [["define", ["run", "n"], ["do", [["i", "n", ["-", "i", 1]], ["acc", 0, ["+", "acc", 1]]], [["=", "i", 0], "acc"], ["note", "i"]]]], "N"),
    ("do-no-result", [["define", ["run", "n"], ["do", [["i", "n", ["-", "i", 1]]], [["=", "i", 0]], ["note", "i"]]]], "#t"),
    ("do-no-step", [["define", ["run", "n"], ["let", [["c", 0]], ["do", [["i", "n", ["-", "i", 1]], ["k", 7]], [["=", "i", 0], ["set!", "g0", 1], ["+", "k", "c"]],
                                                               ["note", "i"], ["set!", "c", 1]]]]], "8"),
    ("do-no-body", [["define", ["run", "n"], ["do", [["i", "n", ["-", "i", 1]], ["acc", 0, ["begin", ["note", "i"], ["+", "acc", 1]]]], [["=", "i", 0], "acc"]]]], "N"),
    ("do-set-body", [["define", ["run", "n"], ["let", [["acc", 0]], ["do", [["i", "n", ["-", "i", 1]]], [["=", "i", 0], "acc"], ["note", "i"], ["set!", "acc", ["+", "acc", 1]]]]]], "N"),
    ("named-let-nested", [["define", ["run", "n"], ["let", "outer", [["i", "n"], ["acc", 0]], ["note", "i"],
                                                   ["if", ["=", "i", 0], "acc", ["let", "inner", [["k", 0]], ["if", ["<", "k", 1], ["inner", ["+", "k", 1]],
                                                                                                            ["outer", ["-", "i", 1], ["+", "acc", 1]]]]]]]], "N"),
    ("letrec-lambda", [["define", ["run", "n"], ["letrec", [["lp", ["lambda", ["i", "acc"], ["note", "i"], ["if", ["=", "i", 0], "acc", ["lp", ["-", "i", 1], ["+", "acc", 1]]]]]],
                                                ["lp", "n", 0]]]], "N"),
    ("named-let-in-cond", [["define", ["run", "n"], ["cond", [["<", "n", 0], ["set!", "g0", 1]],
                                                    ["else", ["let", "lp", [["i", "n"], ["acc", 0]], ["note", "i"], ["when", [">", "i", 0], ["set!", "g0", "i"]],
                                                              ["if", ["=", "i", 0], "acc", ["lp", ["-", "i", 1], ["+", "acc", 1]]]]]]]], "N"),
]


def macro_loop_program(ml, n):
    name, forms, value = ml
    pre = [["define", "g0", 0], ["define", "top-first", 0], ["define", "top-late", 0],
           ["define", ["note", "i"], ["if", ["=", "i", n], ["set!", "top-first", ["verif-top"]],
                                      ["if", ["<", "i", 3], ["set!", "top-late", ["verif-top"]], False]]]]
    return pre + forms + [["let", [["res", ["run", n]]], ["cons", "res", ["-", "top-late", "top-first"]]]], (str(n) if value == "N" else value)


def code_bodies(c, out):
    """harness (code len (off NAME args..)..) -> list of bodies in code order, each a list of instructions"""
    ins = c[2:]
    out.append(ins)
    for i in ins:
        if i[1] == "PUSH" and isinstance(i[2], list) and i[2] and i[2][0] == "proc":
            code_bodies(i[2][3], out)
        elif i[1] == "MAKE-PROCEDURE":
            code_bodies(i[4], out)
    return out


def calls_string(bodies):
    return " ".join("(" + " ".join("(%d %s)" % (1 if i[1] == "TAIL-CALL" else 0, i[2]) for i in b if i[1] in ("CALL", "TAIL-CALL")) + ")"
                    for b in bodies)


def calls_to(bodies, target):
    """opcodes of the calls whose operator is the global `target`"""
    ops = []
    for b in bodies:
        for k, i in enumerate(b):
            if i[1] in ("CALL", "TAIL-CALL") and k > 0 and b[k - 1][1] in ("GLOBAL-REF", "GLOBAL-KNOWN-REF") and b[k - 1][2] == target:
                ops.append(i[1])
    return ops


def sites_real(bodies, target):
    """the calls whose operator is the global `target`, per call SITE: [(marker, opcode)] in code order.  marker = the
    accumulator increment pushed among the operands of this call if it is a marker (sibling self-call), else 0 (the
    call X of the loop itself and the constant calls of the partner procedures)."""
    out = []
    for b in bodies:
        mark = 0
        for k, i in enumerate(b):
            if i[1] == "PUSH" and isinstance(i[2], list) and len(i[2]) == 2 and i[2][0] == "int":
                try:
                    v = int(i[2][1])
                except ValueError:
                    continue
                if MARK0 < v < MARK0 + 100:
                    mark = v
            elif i[1] in ("CALL", "TAIL-CALL") and k > 0 and b[k - 1][1] in ("GLOBAL-REF", "GLOBAL-KNOWN-REF") and b[k - 1][2] == target:
                out.append((mark, i[1]))
                mark = 0
    return out


def _max_lit(t):
    if isinstance(t, bool):
        return 0
    if isinstance(t, int):
        return t
    if isinstance(t, list):
        return max([_max_lit(y) for y in t] + [0])
    return 0


def surface_sites(forms):
    """R7RS 3.5 read off the SURFACE program (derived forms as written, not their expansion).
    Returns {(callee, marker): [(flag, space)]} for every call of a loop procedure (REC_NAMES, directly or through
    apply; marker as in sites_real), where
      flag  = True: the call is in tail position with respect to the innermost enclosing lambda / procedure body, so
              the instruction must be TAIL-CALL; False: R7RS says it is not (operand, operator, test, set! value,
              non-last sequence element, binding init, do step / command, ..), so it must be CALL; None: R7RS does not
              fix the instruction (a tail position of a binding / derived form that itself stands in a non-tail
              position: chibi expands let, do, named let, or, case into lambda bodies, inside which the call is a tail
              call although the form is not),
      space = True: executing this call continues the loop in constant space (the call and every enclosing lambda
              between it and the loop procedure's body are called in tail position); False: it pushes a frame per
              iteration; None: unknown (inside a lambda that is not called on the spot)."""
    out = {}

    def site(e):
        op = e[0]
        while isinstance(op, list) and op and op[0] == "begin":
            op = op[-1]
        if not isinstance(op, str):
            return None
        if op in REC_NAMES:
            if len(e) > 1 and e[1] == "n":
                return None                       # (loop n 0): the call that starts a local loop, not a recursive call
            name = op
        elif op == "apply" and len(e) > 1 and e[1] in REC_NAMES:
            name = "apply"
        else:
            return None
        m = _max_lit(e[1:])
        return (name, m if MARK0 < m < MARK0 + 100 else 0)

    def dl(flag):
        return None if flag is False else flag

    def seq(es, flag, space):
        for x in es[:-1]:
            w(x, False, False)
        if es:
            w(es[-1], flag, space)

    def w(e, flag, space):
        if not isinstance(e, list) or not e:
            return
        h = e[0]
        if h == "quote":
            return
        if h == "if":
            w(e[1], False, False)
            for b in e[2:]:
                w(b, flag, space)
        elif h == "begin":
            seq(e[1:], flag, space)
        elif h == "set!":
            w(e[2], False, False)
        elif h == "define":
            if isinstance(e[1], list):
                seq(e[2:], True, True)            # a procedure definition: its body is the body of a loop procedure
            else:
                v = e[2]
                if (isinstance(v, list) and len(v) == 3 and v[0] == "let" and isinstance(v[1], list)
                        and isinstance(v[2], list) and v[2] and v[2][0] == "lambda"):
                    for b in v[1]:                # (define f (let ((state ..)) (lambda ..))): a procedure definition too
                        w(b[1], False, False)
                    seq(v[2][2:], True, True)
                else:
                    w(v, False, False)
        elif h == "lambda":
            seq(e[2:], True, None)
        elif h in ("let", "let*", "letrec", "letrec*"):
            named = isinstance(e[1], str)
            for b in (e[2] if named else e[1]):
                w(b[1], False, False)
            seq(e[3:] if named else e[2:], dl(flag), space)
        elif h == "do":
            for b in e[1]:
                for x in b[1:]:
                    w(x, False, False)
            w(e[2][0], False, False)
            seq(e[2][1:], dl(flag), space)
            for x in e[3:]:
                w(x, False, False)
        elif h in ("cond", "case"):
            if h == "case":
                w(e[1], False, False)
            for cl in e[(2 if h == "case" else 1):]:
                if h == "cond" and cl[0] != "else":
                    w(cl[0], False, False)
                if len(cl) >= 3 and cl[1] == "=>":
                    f = cl[2]
                    if isinstance(f, list) and f and f[0] == "lambda":
                        seq(f[2:], True, space)   # the procedure is called in the position of the cond
                    else:
                        w(f, False, False)
                else:
                    seq(cl[1:], dl(flag), space)
        elif h in ("and", "or"):
            seq(e[1:], dl(flag), space)
        elif h in ("when", "unless"):
            w(e[1], False, False)
            seq(e[2:], dl(flag), space)
        else:
            k = site(e)
            if k is not None:
                out.setdefault(k, []).append((flag, space))
            if isinstance(h, list) and h and h[0] == "lambda":
                seq(h[2:], True, space)           # ((lambda ..) ..): the body runs in the position of the application
            else:
                w(h, False, False)
            for a in e[1:]:
                w(a, False, False)

    for f in forms:
        w(f, False, False)
    return out


def ceil_div(a, b):
    return -((-a) // b)


def runenv(d):
    """environment of a replay command: without the module path the harness has no derived forms (cond, case, ..)"""
    return "CHIBI_IGNORE_SYSTEM_PATH=1 CHIBI_MODULE_PATH=%s/lib LD_LIBRARY_PATH=%s" % (d, d)


def sq(s):
    return s.replace("'", "'\\''")


def run(ctx):
    ctx.cov["rule"] = ("loop programs = spine of R7RS 3.5 tail contexts (37 tail contexts incl. derived forms + 5 non-tail controls) "
                       "x what sits in the sibling positions (29 siblings: every AST constructor and derived form, as other "
                       "branch / earlier clause or sequence element / test / operand / operator) x callee kind {fixed arity, "
                       "rest used, rest unused with surplus args, mutual recursion through 2 and 3 procedures, apply, apply to "
                       "a variadic callee} x exit form; random spines of depth 2-4 with random siblings; each is compiled "
                       "(bytecode inspected, call sequence compared with the model generator) and run with a stack-depth "
                       "probe; random typed programs (C03 generator) for the call-sequence comparison; non-tail recursion of "
                       "three frame shapes at depths around every doubling boundary, between max/2 and max, around and beyond "
                       "the maximum vs the model's deep_outcome; long apply argument lists deep in a recursion; every loop "
                       "procedure also defined inside a top-level let (code simplify.c never reaches: constants / references "
                       "as sequence elements, constant tests survive to the code generator); callee kinds with 8, 20, 40 "
                       "arguments and arity-increasing mutual recursion; the expected CALL / TAIL-CALL flag is computed per "
                       "call SITE from the surface program (R7RS 3.5) and compared in code order; sequences of sexp_apply "
                       "calls on ONE context (out-of-stack and ordinary errors in between) vs the model's session_z; "
                       "the real bytecode of every compiled form through the extracted depth-certificate checker (operands "
                       "above the frame header), sexp_bytecode_max_depth of every loop procedure against its certified depth; "
                       "non-tail recursion whose every pending call holds 300 operands of one kind (global / local / boxed / "
                       "closure reference, literal, quoted, lambda, closure, call, opcode result) as operands of a call or of a "
                       "folded arithmetic, under ASan; "
                       "distinct by program text, all non-trivial")
    if os.environ.get("C05_DEBUG"):
        _b = ctx.broken
        def dbg(name, reason, **kw):
            print("BROKEN %s: %s" % (name, reason[:1200]))
            _b(name, reason, **kw)
        ctx.broken = dbg
    ctx.coq_obligations("Properties_C05")
    try:
        d = ctx.build("default")
    except B.BuildError:
        # a broken VM can make the tree's own build fail (it runs chibi-scheme on its .stub files); if the core library
        # was linked, go on with it so that a concrete failing loop is found
        d = os.path.join(B.SCRATCH, "default-" + B.source_hash())
        if not os.path.exists(os.path.join(d, "libchibi-scheme.so")):
            raise
        ctx.note("build of the tree failed after libchibi-scheme was linked; continued with the core library only")
    exe = ctx.extract("C05")
    if exe is None:
        return
    h = K.Harness(d)
    rng = ctx.rng
    tails = [c for c in CONTEXTS if c[1]]
    # ------------------------------------------------------------------ the programs
    cases = []          # (contexts, siblings, callee, exit kind, family)
    for c in CONTEXTS:                                   # every context with the default sibling x every callee
        for callee in CALLEES + TOPLET:
            cases.append(([c], None, callee, "value", "ctx"))
    n = 0
    for c in tails:                                      # the product: tail context x sibling (callee and exit rotate)
        for sb in SIBLINGS:
            if compatible(c, sb):
                n += 1
                cases.append(([c], [sb], CALLEES[n % len(CALLEES)], EXITS[(n // 3) % len(EXITS)], "sib"))
                # ... and once more where the simplifier does not remove or fold the sibling
                cases.append(([c], [sb], TOPLET[n % len(TOPLET)], EXITS[(n // 5) % len(EXITS)], "sib-toplet"))
    for ek in EXITS[1:]:                                 # every exit form x callee
        for callee in CALLEES:
            cases.append(([tails[0]], None, callee, ek, "exit"))
    pairs = [[a, b] for a in tails for b in CONTEXTS]
    npairs = 40 if not ctx.thorough else len(pairs)
    for n, i in enumerate(sorted(rng.sample(range(len(pairs)), npairs))):
        cases.append((pairs[i], None, CALLEES[n % len(CALLEES)], "value", "pair"))
    nspine = 300 if not ctx.thorough else 4000
    for n in range(nspine):                              # random spines with random siblings
        depth = rng.choice([2, 2, 3, 4])
        cs = [rng.choice(tails) for _ in range(depth)]
        if rng.random() < 0.1:
            cs[-1] = rng.choice([c for c in CONTEXTS if not c[1]])
        sbs = [rng.choice([sb for sb in SIBLINGS if compatible(c, sb)]) for c in cs]
        cases.append((cs, sbs, rng.choice(CALLEES if rng.random() < 0.7 else TOPLET), rng.choice(EXITS), "spine"))
    seen, uniq = set(), []
    for cs in cases:
        k = (tuple(c[0] for c in cs[0]), tuple(s[0] for s in cs[1]) if cs[1] else None, cs[2], cs[3])
        if k not in seen:
            seen.add(k)
            uniq.append(cs)
    cases = uniq
    # ------------------------------------------------------------------ inner: bytecode
    # non-tail controls leave by value; a sibling that calls `apply` would be mistaken for the recursive call through apply
    noapply = {"apply": "fixed", "apply-rest": "rest-used", "apply8": "fixed8", "apply40": "fixed20"}
    noapply.update(dict(("toplet:" + a, "toplet:" + b) for a, b in list(noapply.items())))
    cases = [(cs, sbs, noapply.get(callee, callee) if sbs and any(x[0] == "apply" for x in sbs) else callee,
              ek if all(c[1] for c in cs) else "value", fam) for cs, sbs, callee, ek, fam in cases]
    small = [loop_program(cs, callee, 5, False, sbs, ek) for cs, sbs, callee, ek, _ in cases]
    texts = [" ".join(K.scm(f) for f in forms) for forms, _ in small]
    nloops = len(texts)
    # random typed programs (C03's generator): only the call-sequence comparison with the model generator
    nrand = 300 if not ctx.thorough else 6000
    rand_texts = []
    for i in range(nrand):
        g = K.Gen(rng, derived=(i % 2 == 1))
        rand_texts.append(" ".join(K.scm(f) for f in g.program(rng.choice([2, 3, 4]))))
    # after every loop program: DEPTH <name> = sexp_bytecode_max_depth of each global procedure it defined as
    # (define (name ..) ..) - the generator's own static operand-depth bound, which make_call's stack check relies on
    reqs0, prog_at, depth_at = [], [], {}
    for i, t in enumerate(texts + rand_texts):
        prog_at.append(len(reqs0))
        reqs0.append("PROG " + t)
        if i < nloops:
            for j, f in enumerate(small[i][0]):
                if isinstance(f, list) and len(f) > 2 and f[0] == "define" and isinstance(f[1], list) and f[1] and isinstance(f[1][0], str):
                    depth_at.setdefault(i, []).append((f[1][0], j, len(reqs0)))
                    reqs0.append("DEPTH " + f[1][0])
    hdr, answers_all = h.run(reqs0, timeout=900)
    answers = [answers_all[k] for k in prog_at]
    pair_type = hdr.get("pair-type", 6)
    names = K.Names()
    mreq, plan = [], []
    for idx, (text, ans) in enumerate(zip(texts + rand_texts, answers)):
        if idx < nloops:
            cs, sbs, callee, ek, fam = cases[idx]
            tail = all(c[1] for c in cs)
            key = "+".join(c[0] for c in cs) + "/" + callee
            sibkey = "+".join(s[0] for s in sbs) if sbs else "default"
            target = small[idx][1]
        else:
            tail, key, sibkey, target, fam, callee = None, "random/typed", "-", None, "rand", "-"
        ent = dict(key=key, sib=sibkey, tail=tail, text=text, target=target, out=K.impl_outcome(ans), forms=[], fam=fam)
        plan.append(ent)
        for a2, b in zip([t for tag, t in ans["lines"] if tag == "A2"], [t for tag, t in ans["lines"] if tag == "B"]):
            try:
                bodies = code_bodies(K.sx_parse(b), [])
            except (ValueError, IndexError) as e:
                ctx.broken("harness-output", "unparsable bytecode dump for %s: %s" % (text[:200], e))
                continue
            f = dict(bodies=bodies)
            try:
                w = K.wire_ast(K.sx_parse(a2), names)
                f["req"] = len(mreq)
                mreq.append("calls " + K.sx_str(w))
                # the static operand-depth bound: the model generator's code and the REAL bytecode (translated by
                # C03's wire_code) through the extracted certificate checker of coq/C05/Depth.v
                f["dreq"] = len(mreq)
                mreq.append("depths " + K.sx_str(w))
                try:
                    wc = K.wire_code(K.sx_parse(b), names, pair_type)
                    f["rreq"] = len(mreq)
                    mreq.append("rdepths " + K.sx_str(wc))
                except (K.Unsupported, ValueError, IndexError):
                    pass
            except (K.Unsupported, ValueError, IndexError) as e:
                f["unsupported"] = str(e)
            ent["forms"].append(f)
    mout = ctx.run_model(exe, mreq) if mreq else []
    replay_fmt = "echo 'PROG %s' | " + runenv(d) + " " + d + "/embed_c03 | grep -E '^(B|V|E) '"
    bad_inner = []
    nmodel = nunsupported = nsites = 0
    ndepth = [0]
    for idx, ent in enumerate(plan):
        ctx.count(1, key=("inner", ent["text"]), nontrivial=True)
        isloop = idx < nloops
        if isloop and ((ent["tail"] and ent["out"] != "V 5") or not ent["out"].startswith("V ")):
            ctx.violation("tail:wrong-result:" + ent["key"].split("/")[1], input=ent["text"], expected="V 5", observed=ent["out"],
                          replay=replay_fmt % sq(ent["text"]))
            continue
        for f in ent["forms"]:
            if "req" in f:
                nmodel += 1
                ctx.cov["traces_validated_against_impl"] += 1
                real, model = calls_string(f["bodies"]), mout[f["req"]]
                if real != model and "model_diff" not in ent:
                    ent["model_diff"] = (real, model)
                md = mout[f["dreq"]]
                if "X" in md.split() or md.startswith("ERR"):
                    ctx.broken("model:depth-certificate", "a code body of the model generator has no depth certificate (%s): %s" % (md[:80], ent["text"][:300]))
                elif "rreq" in f:
                    rd = mout[f["rreq"]]
                    ndepth[0] += 1
                    f["rdepths"] = rd.split()
                    if rd.startswith("ERR"):
                        ndepth[0] -= 1
                    elif "X" in rd.split():
                        ctx.broken("correspondence:depth-certificate", "a body of the real bytecode has no depth certificate (an instruction "
                                   "would pop below its frame header, or two paths reach an instruction at different heights): %s; model %s; %s"
                                   % (rd[:80], md[:80], ent["text"][:300]))
                    elif rd != md:
                        ctx.broken("correspondence:depth", "certified operand depths per code body differ: real bytecode %s, model generator %s: %s"
                                   % (rd[:80], md[:80], ent["text"][:300]))
            else:
                nunsupported += 1
        if not isloop:
            if ent.get("model_diff"):
                real, model = ent["model_diff"]
                # decide with the SPEC: the model sequence is tail_sites (theorem tail_calls_emitted); a CALL where the
                # SPEC has a tail site is a call in tail position that pushes a frame
                rs, ms = re.findall(r"\((\d) (\d+)\)", real), re.findall(r"\((\d) (\d+)\)", model)
                lost = len(rs) == len(ms) and any(a[0] == "0" and b[0] == "1" for a, b in zip(rs, ms))
                if lost:
                    ctx.violation("tail:call-at-tail-site:random", input=ent["text"],
                                  expected="call sequence per code body (1 = TAIL-CALL, R7RS 3.5 tail sites by the model generator / tail_sites): " + model[:600],
                                  observed=real[:600], replay=replay_fmt % sq(ent["text"]))
                else:
                    ctx.broken("correspondence:calls", "call sequence of the real bytecode differs from the model generator for %s: real %s model %s"
                               % (ent["text"][:300], real[:300], model[:300]))
            continue
        # the recursive calls inside the procedure bodies (the last form's own call of the loop is at top level: ignored),
        # per call SITE: the flag R7RS 3.5 gives the site in the surface program against the instruction of that site.
        # Only X is ever executed (sibling self-calls stand in never-executed slots), so the expected outcome of the run
        # (constant space or growth) is decided by X alone, whatever the flags of the other sites are.
        surf = surface_sites(small[idx][0][:-1])
        xkey = (ent["target"] or "loop", 0)
        xs = surf.get(xkey, [])
        if len(xs) != 1 or xs[0][0] is None or xs[0][1] is None or xs[0][0] != ent["tail"] or xs[0][1] != ent["tail"]:
            # self-check of the plugin: the context table (tail / non-tail context) against R7RS 3.5 walked over the program
            ctx.broken("context-table", "surface_sites finds %s for the call of the loop, the context table says %s: %s"
                       % (xs, ent["tail"], ent["text"][:300]))
            continue
        if ent["target"] is None:
            # local loop procedure (named let / internal define): call-sequence comparison and depth probe only
            if ent.get("model_diff"):
                bad_inner.append(ent)
            continue
        want, got, nx = [], [], 0
        for name in sorted(set(k[0] for k in surf)):
            for f in ent["forms"][:-1]:
                for mark, op in sites_real(f["bodies"], name):
                    flags = set(fl for fl, _ in surf.get((name, mark), [(None, None)]))
                    nx += (name, mark) == xkey
                    nsites += 1
                    if None in flags or len(flags) != 1:
                        continue                 # R7RS does not fix the instruction of this site
                    want.append("TAIL-CALL" if True in flags else "CALL")
                    got.append(op)
        if nx == 0 or want != got:
            ent["flag_diff"] = (want, got)
            bad_inner.append(ent)
        elif ent.get("model_diff"):
            bad_inner.append(ent)
    # sexp_bytecode_max_depth (the bound the generator computes, vm.c:145-150) must cover the certified depth of the body
    strict_depth = fix_present(DEPTH_FIX, DEPTH_FIX_SUBJECT)
    under, margin_hist, ncmp = [], {}, 0
    for i, lst in sorted(depth_at.items()):
        ent = plan[i]
        for name, j, k in lst:
            m = re.match(r"V \((\d+) (\d+) (\d+)\)$", K.impl_outcome(answers_all[k]))
            cert = ent["forms"][j].get("rdepths") if j < len(ent["forms"]) else None
            if not m or not cert or len(cert) < 2 or not cert[1].isdigit():
                continue
            ncmp += 1
            diff = int(m.group(1)) - int(cert[1])
            margin_hist[diff] = margin_hist.get(diff, 0) + 1
            # the STACK-REF 3 of a closure creation (vm.c generate_lambda) is a transient slot the generator does not
            # count: one slot, covered by the +64 of the stack check
            bodies = ent["forms"][j].get("bodies", [])
            tol = 1 if len(bodies) > 1 and any(ins[1] == "STACK-REF" for ins in bodies[1]) else 0
            if diff < -tol:
                under.append("%s: sexp_bytecode_max_depth %s, certified depth of the body %s: %s" % (name, m.group(1), cert[1], ent["text"][:300]))
    opdepth_report = dict(strict=strict_depth, procedures_compared=ncmp,
                          max_depth_minus_certified=dict((str(k), v) for k, v in sorted(margin_hist.items())))
    if under and strict_depth:
        ctx.broken("correspondence:max-depth", "sexp_bytecode_max_depth is smaller than the operand depth the body really reaches "
                   "(%d procedures; the stack check of make_call reserves max_depth+64 slots): %s" % (len(under), under[0]))
    elif under:
        opdepth_report["pending_finding"] = "F-C05-3"
    if ncmp < 100:
        ctx.broken("correspondence:max-depth", "only %d loop procedures could be compared with their certificates" % ncmp)
    if nmodel < 0.8 * (nmodel + nunsupported):
        ctx.broken("correspondence:coverage", "only %d of %d compiled forms are inside the modelled fragment" % (nmodel, nmodel + nunsupported))
    # ------------------------------------------------------------------ outer: depth probe
    N = 10 ** 6 if not ctx.thorough else 10 ** 7
    nbig = 24 if not ctx.thorough else 120
    NS = 3000
    # pass 1: every loop with a small N (the probe difference is exact, so growth shows at once); the first nbig
    # single-context programs with the large N
    lines, meta = [], []
    cand = [i for i in range(nloops) if cases[i][4] == "ctx" and cases[i][0][0][1]
            and cases[i][2] == (CALLEES + TOPLET)[CONTEXTS.index(cases[i][0][0]) % len(CALLEES + TOPLET)]]
    bigset = set(rng.sample(cand, min(nbig, len(cand))))
    for i in range(nloops):
        cs, sbs, callee, ek, fam = cases[i]
        tail = all(c[1] for c in cs)
        n = (N if i in bigset else NS) if tail else 2000
        forms, _ = loop_program(cs, callee, n, True, sbs, ek)
        lines.append("TOP " + " ".join(K.scm(f) for f in forms))
        meta.append((i, n, tail))
    mlines, mmeta = [], []
    for mi, ml in enumerate(MACRO_LOOPS):
        for n in ([NS, N] if (mi < 3 or ctx.thorough) else [NS]):
            forms, value = macro_loop_program(ml, n)
            mlines.append("TOP " + " ".join(K.scm(f) for f in forms))
            mmeta.append((ml[0], n, value))
    _, answers = h.run(lines + mlines, timeout=1500)
    for (name, n, value), line, ans in zip(mmeta, mlines, answers[len(lines):]):
        out = K.impl_outcome(ans)
        ctx.count(1, key=("outer", line), nontrivial=True)
        if out != "V (%s . 0)" % value:
            ctx.violation("tail:stack-grows:macro-loop:" + name, input=line[4:], expected="V (%s . 0)  (value, depth at a late iteration minus depth at the first = 0)" % value,
                          observed=out, replay="echo '%s' | %s %s/embed_c03" % (sq(line), runenv(d), d))
    answers = answers[:len(lines)]
    suspects = []
    results = {}
    for (i, n, tail), line, ans in zip(meta, lines, answers):
        ent = plan[i]
        out = K.impl_outcome(ans)
        ctx.count(1, key=("outer", line), nontrivial=True)
        m = re.match(r"V \((\d+) \. (-?\d+)\)$", out)
        if tail:
            ok = bool(m) and int(m.group(1)) == n and int(m.group(2)) == 0
            results[i] = (n, line, out, ok)
            if (not ok or ent in bad_inner) and n < N:
                suspects.append(i)
        else:
            # control: the probe must see the growth of a non-tail recursion (otherwise the probe is blind)
            if not m or int(m.group(2)) <= 0:
                ctx.broken("depth-probe", "probe did not see stack growth for non-tail loop %s: %s" % (ent["key"], out))
    # pass 2 (targeted): suspicious programs again with the large N, so that the replay shows the loop dying
    suspects.sort(key=lambda i: (len(cases[i][0]), i))
    lines2 = []
    for i in suspects[:40]:
        cs, sbs, callee, ek, fam = cases[i]
        forms, _ = loop_program(cs, callee, N, True, sbs, ek)
        lines2.append("TOP " + " ".join(K.scm(f) for f in forms))
    if lines2:
        _, answers2 = h.run(lines2, timeout=1500)
        for i, line, ans in zip(suspects[:40], lines2, answers2):
            out = K.impl_outcome(ans)
            m = re.match(r"V \((\d+) \. (-?\d+)\)$", out)
            ok = bool(m) and int(m.group(1)) == N and int(m.group(2)) == 0
            if not ok or not results[i][3]:
                results[i] = (N, line, out, False) if not ok else results[i]
    for i, (n, line, out, ok) in sorted(results.items()):
        if ok:
            continue
        ent = plan[i]
        sig = "tail:stack-grows:" + ent["key"].split("/")[1] + ":" + ent["key"].split("/")[0].split("+")[0]
        ctx.violation(sig, input=line[4:], expected="V (%d . 0)  (value, depth at iteration N-1 minus depth at iteration 1... = 0)" % n,
                      observed=out, siblings=ent["sib"],
                      replay="echo '%s' | %s %s/embed_c03" % (sq(line), runenv(d), d))
        ent["reported"] = True
    for ent in bad_inner:
        if ent.get("reported"):
            continue
        if ent.get("flag_diff"):
            ctx.broken("correspondence:tail-flag", "calls of the loop procedures compiled as %s, R7RS 3.5 says %s (per call site, code order) for %s siblings %s (the executed call %s: no unexpected stack growth observed): %s"
                       % (ent["flag_diff"][1], ent["flag_diff"][0], ent["key"], ent["sib"],
                          "is a tail call" if ent["tail"] else "is not a tail call", ent["text"][:400]))
        else:
            ctx.broken("correspondence:calls", "call sequence of the real bytecode differs from the model generator for %s: real %s model %s"
                       % (ent["text"][:300], ent["model_diff"][0][:300], ent["model_diff"][1][:300]))
    # ------------------------------------------------------------------ deep recursion and stack growth
    maxs = hdr.get("max-stack", 1024000)
    inits = hdr.get("init-stack", 1024)
    if maxs != 1024000 or inits != 1024:
        ctx.broken("constants", "SEXP_MAX_STACK_SIZE / SEXP_INIT_STACK_SIZE of the tree (%s / %s) differ from coq/C05/Model.v (1024000 / 1024)"
                   % (hdr.get("max-stack"), hdr.get("init-stack")))
    deep_report = deep_recursion(ctx, h, exe, d, maxs, inits, rng)
    apply_report = apply_sessions(ctx, h, exe, d, maxs, inits, rng)
    # long argument lists applied deep in a recursion: growth by more than doubling (ASan + poisoned free chunks)
    try:
        da = ctx.build("asan")
    except B.BuildError:
        da = os.path.join(B.SCRATCH, "asan-" + B.source_hash())
        if not os.path.exists(os.path.join(da, "libchibi-scheme.so")):
            raise
    ha = K.Harness(da)
    big = ["TOP (define (mk n) (let lp ((i 0) (acc (quote ()))) (if (= i n) acc (lp (+ i 1) (cons 1 acc)))))",
           "TOP (define (deepapply d k) (if (= d 0) (apply + (mk k)) (+ 1 (deepapply (- d 1) k))))"]
    grid = [(100, 2000), (150, 2500), (10, 3000), (60, 1500), (120, 5000), (0, 4000)]
    if ctx.thorough:
        grid += [(rng.randrange(0, 160), rng.randrange(900, 9000)) for _ in range(60)]
    # every case in a fresh process: the first one that corrupts the heap would hide the others
    for dd, kk in grid:
        _, answers = ha.run(big + ["TOP (deepapply %d %d)" % (dd, kk), "TOP (+ 1 2)"], timeout=300,
                            extra_env={"ASAN_OPTIONS": "detect_leaks=0:abort_on_error=0:exitcode=97"})
        o = [K.impl_outcome(a) for a in answers]
        ctx.count(1, key=("deepapply", dd, kk), nontrivial=True)
        if o[2] != "V %d" % (dd + kk) or o[3] != "V 3":
            ctx.violation("stack:ensure-min-size", input="(deepapply %d %d)  ; apply of a %d-element list %d frames deep" % (dd, kk, kk, dd),
                          expected="V %d, then V 3" % (dd + kk), observed="%s, %s" % (o[2][:300], o[3][:100]),
                          replay="printf '%%s\\n' '%s' '%s' 'TOP (deepapply %d %d)' | ASAN_OPTIONS=detect_leaks=0 %s %s/embed_c03" % (big[0], big[1], dd, kk, runenv(da), da))
    operand_depth(ctx, ha, da, strict_depth, opdepth_report, h, exe, pair_type)
    # model of the growth arithmetic: the repaired policy always leaves room (spot check of the extracted function)
    reqs = []
    for top, n, ln in [(600, 2064, 1024), (1000, 100, 1024), (1023990, 100, 1024000), (10, 5000, 1024), (500000, 600000, 524288)]:
        reqs.append("ensure 1 %d %d %d" % (top, n, ln))
    mo = ctx.run_model(exe, reqs)
    for q, a in zip(reqs, mo):
        f = q.split()
        top, n, ln = int(f[2]), int(f[3]), int(f[4])
        if a.startswith("ENOUGH"):
            if not (top + n < int(a.split()[1]) <= maxs):
                ctx.broken("model:ensure_stack", "extracted ensure_stack contradicts its theorem on %s: %s" % (q, a))
        elif top + n < maxs:
            ctx.broken("model:ensure_stack", "extracted ensure_stack gives OOS although the request fits: %s" % q)
    dist, fams = {}, {}
    for cs, sbs, callee, ek, fam in cases:
        dist[callee] = dist.get(callee, 0) + 1
        fams[fam] = fams.get(fam, 0) + 1
    ctx.cov["generator_distribution"] = dict(loop_programs=len(cases), by_callee=dist, by_family=fams, tail_contexts=len(tails),
                                             siblings=len(SIBLINGS), non_tail_controls=len(CONTEXTS) - len(tails),
                                             random_typed_programs=nrand, forms_compared_with_model=nmodel,
                                             forms_outside_model=nunsupported, call_sites_flag_checked=nsites,
                                             forms_real_bytecode_depth_certified=ndepth[0], operand_depth=opdepth_report, iterations_big=N,
                                             programs_with_big_N=len([m for m in meta if m[1] == N]), iterations_small=NS,
                                             deep=deep_report, apply_sessions=apply_report, deepapply_grid=len(grid))
    ctx.sample(dict(kind="loop", program=texts[0], outcome=plan[0]["out"]))
    ctx.sample(dict(kind="loop", program=lines[0][:400], outcome=results.get(0, (0, "", None, 0))[2]))
    k = [i for i in range(nloops) if cases[i][4] == "spine"]
    if k:
        ctx.sample(dict(kind="spine", program=texts[k[0]][:600], outcome=plan[k[0]]["out"], siblings=plan[k[0]]["sib"]))
    ctx.assume("tail_loop_space_bounded_partial: the run relation asks at every TAIL-CALL that the procedure entered has a certified "
               "code body; every body the generator emits has one (theorem generated_code_certified; the extracted checker also runs on "
               "the real bytecode of every program), but that every procedure value reachable at run time is generator output is not "
               "proved; CALL / RET are not part of the run relation (non-tail calls inside a loop iteration are validated by the depth probe)")
    ctx.assume("C recursion inside analyze / equal? / write on deep data is outside this check")
    ctx.assume("oos_leaves_context_usable speaks about sexp_apply with fixes/C05-apply-exit-top.patch; on a tree without it the "
               "finding F-C05-2 is recorded as a note (theorem apply_exit_pinned_refuted), not enforced")
    ctx.trust("harness/embed_c03.c (verif-top = sexp_context_top published by the VM before a foreign call; verif-stack-length; DEPTH = sexp_bytecode_max_depth), props/C03.py wire_code (real bytecode dump -> the model's code form, for the depth certificates), harness/embed_c05_apply.c (sexp_apply on one context), props/C05.py context table and surface_sites (which surface positions are tail positions, from R7RS 3.5; the two are cross-checked against each other on every program)")


DEEP_FAMILIES = [
    # name, definition (probe of the top in the innermost frame), call with depth %d, arguments pushed per call
    ("deep", "(define (deep n) (if (= n 0) (begin (set! t0 (verif-top)) 0) (+ 1 (deep (- n 1)))))", "(deep %d)", 1),
    ("deep3", "(define (deep3 n a b) (if (= n 0) (begin (set! t0 (verif-top)) 0) (+ 1 (deep3 (- n 1) b a))))", "(deep3 %d 1 2)", 3),
    ("deeprest", "(define (deeprest n . r) (if (= n 0) (begin (set! t0 (verif-top)) 0) (+ (car r) (deeprest (- n 1) 1 2))))", "(deeprest %d 1 2)", 3),
]


def deep_recursion(ctx, h, exe, d, maxs, inits, rng):
    """non-tail recursion: the real outcome and final stack length at depths sampled over the whole range against the
    extracted model (deep_outcome = one ensure_stack per pending call).  Every TOP request is evaluated by sexp_eval,
    i.e. in a fresh context with a fresh stack of SEXP_INIT_STACK_SIZE slots."""
    SLACK = 1024
    report = {}
    for fi, (name, defn, callfmt, npush) in enumerate(DEEP_FAMILIES):
        pre = ["TOP (define t0 0)", "TOP " + defn]
        cal = ["DEPTH " + name] + ["TOP (let ((r %s)) (cons t0 (verif-stack-length)))" % (callfmt % k) for k in (0, 1, 2)]
        _, ans = h.run(pre + cal, timeout=120)
        outs = [K.impl_outcome(a) for a in ans[2:]]
        m0 = re.match(r"V \((\d+) (\d+) (\d+)\)$", outs[0])
        tops = [re.match(r"V \((\d+) \. (\d+)\)$", o) for o in outs[1:]]
        if not m0 or not all(tops):
            ctx.broken("deep-recursion:calibration", "no probe values for %s: %s" % (name, outs))
            continue
        n = int(m0.group(1)) + 64                    # vm.c:1409 sexp_ensure_stack(max_depth(callee)+64)
        t = [int(x.group(1)) for x in tops]
        per = t[1] - t[0]
        c0 = t[0] + npush + 1                        # top at the stack check: arguments and operator pushed
        if per <= 0 or t[2] - t[1] != per or per > n:
            ctx.broken("deep-recursion:calibration", "frame size of %s not constant / not in (0, n]: tops %s, n %d" % (name, t, n))
            continue

        def k_for(limit):
            """smallest depth whose deepest stack check reaches `limit`: c0 + (k-1)*per + n >= limit"""
            return max(1, ceil_div(limit - n - c0, per) + 1)
        kmax = k_for(maxs)
        depths = set()
        L = inits
        while L < maxs:
            if fi == 0 or L * 4 > maxs:
                depths |= {k_for(L) - 1, k_for(L)}
            L *= 2
        depths |= {kmax - 2, kmax - 1, kmax, kmax + 1, 2 * kmax, 3 * maxs}
        depths.add(kmax - ceil_div(SLACK + 8, per) - 1)     # the deepest depth that is judged by the SPEC alone
        khalf = k_for(L // 2)                         # L/2 = the last doubling below the maximum
        for fr in ((0.1, 0.5, 0.9) if fi == 0 else (0.5,)):
            depths.add(int(khalf + fr * (kmax - khalf)))
        if fi == 0:
            depths |= {1, 1000, 100000, 150000, 200000}
        nr = (2 if fi == 0 else 1) if not ctx.thorough else 25
        for _ in range(nr):
            depths.add(rng.randrange(khalf, kmax))
            depths.add(rng.randrange(1, kmax + 1000))
        depths = sorted(k for k in depths if k >= 1)
        reqs = []
        for k in depths:
            reqs += ["TOP (let ((r %s)) (list r t0 (verif-stack-length)))" % (callfmt % k), "TOP (+ 1 2)", "TOP " + callfmt % 1000]
        _, ans = h.run(pre + reqs, timeout=900)
        outs = [K.impl_outcome(a) for a in ans[2:]]
        mo = ctx.run_model(exe, ["deep %d %d %d %d %d" % (k, c0, per, n, inits) for k in depths])
        hist = {}
        for j, k in enumerate(depths):
            r, after1, after2 = outs[3 * j: 3 * j + 3]
            model = mo[j]
            ctx.count(1, key=("deep", name, k), nontrivial=True)
            ctx.cov["traces_validated_against_impl"] += 1
            replay = "printf '%%s\\n' 'TOP (define t0 0)' 'TOP %s' 'TOP (let ((r %s)) (list r t0 (verif-stack-length)))' 'TOP (+ 1 2)' | %s %s/embed_c03" % (defn, callfmt % k, runenv(d), d)
            need = c0 + (k - 1) * per                  # top at the deepest stack check
            val = (k if name != "deeprest" else k)
            m = re.match(r"V \((\d+) (\d+) (\d+)\)$", r)
            exp = ("E out-of-stack" if model == "OOS" else "V (%d %d %s)" % (val, t[0] + k * per, model.split()[-1]))
            what = "%s  ; %d pending calls of %d slots, deepest stack check at top %d asking for %d more; initial stack %d, maximum %d" % (callfmt % k, k, per, need, n, inits, maxs)
            hist[model.split()[0]] = hist.get(model.split()[0], 0) + 1
            if r == "E out-of-stack":
                if model != "OOS":
                    if need + n + SLACK < maxs:
                        ctx.violation("deep-recursion:outcome", input=what, expected=exp + "  (within the configured maximum: must succeed by growing the stack)",
                                      observed=r, replay=replay)
                    else:
                        ctx.broken("correspondence:ensure-stack", "out-of-stack boundary moved by less than %d slots: %s gives %s, model %s" % (SLACK, what, r, model))
            elif m:
                if int(m.group(1)) != val:
                    ctx.violation("deep-recursion:outcome", input=what, expected=exp, observed=r, replay=replay)
                elif model == "OOS":
                    if need >= maxs or int(m.group(3)) > maxs:
                        ctx.violation("deep-recursion:outcome", input=what, expected=exp + "  (beyond the configured maximum)", observed=r, replay=replay)
                    else:
                        ctx.broken("correspondence:ensure-stack", "out-of-stack boundary moved: %s gives %s, model %s" % (what, r, model))
                else:
                    ln, top = int(m.group(3)), int(m.group(2))
                    if ln > maxs or ln <= top:
                        ctx.violation("deep-recursion:stack-shape", input=what, expected="deepest top < stack length <= %d (model: %s)" % (maxs, exp), observed=r, replay=replay)
                    elif top != t[0] + k * per or ln != int(model.split()[1]):
                        ctx.broken("correspondence:grow-stack", "stack length / top after %s: real %s, model %s" % (what, r, exp))
            else:
                ctx.violation("deep-recursion:outcome", input=what, expected=exp, observed=r, replay=replay)
                continue
            if after1 != "V 3" or after2 != "V 1000":
                ctx.violation("deep-recursion:context-unusable", input="%s then (+ 1 2), %s" % (callfmt % k, callfmt % 1000), expected="V 3, V 1000",
                              observed="%s, %s" % (after1, after2), replay=replay)
        report[name] = dict(slots_per_call=per, first_check_top=c0, request=n, depths=len(depths), oos_from_depth=kmax, model_outcomes=hist)
        if fi == 0:
            ctx.sample(dict(kind="deep", depths=depths[:12] + depths[-8:], outcomes=[outs[3 * j][:40] for j in list(range(12)) + list(range(len(depths) - 8, len(depths)))]))
    return report


DEPTH_FIX = os.path.join(os.path.dirname(os.path.dirname(os.path.abspath(__file__))), "fixes", "C05-global-ref-depth.patch")
DEPTH_FIX_SUBJECT = "counts the stack slot of a global variable reference"

# operand kinds: what fills the operand stack of every pending call.  (kind, definitions, operand text)
OPERAND_KINDS = [
    ("global-ref", ["(define g 1)"], "g"),
    ("literal", [], "7"),
    ("quoted", [], "(quote sym)"),
    ("local-ref", [], "n"),
    ("closure-ref", [], "c"),
    ("lambda", [], "(lambda () 0)"),
    ("closure", [], "(lambda () n)"),
    ("call", ["(define (one) 1)"], "(one)"),
    ("opcode", [], "(car p)"),
    ("boxed-local", [], "p"),
]
OPERAND_SHAPES = [
    # name, template of the pending expression: %(rec)s the recursive call (first operand, pushed last), %(ops)s the operands
    ("call", "(h %(rec)s %(ops)s)"),
    ("add", "(+ %(rec)s %(ops)s)"),
]


def operand_program(kind, opnd, shape, width):
    ops = " ".join([opnd] * width)
    rec = "(f (- n 1) p)"
    pend = dict(OPERAND_SHAPES)[shape] % dict(rec=rec, ops=ops)
    if shape == "add" and kind not in ("global-ref", "literal", "local-ref", "closure-ref", "call", "opcode"):
        return None
    if shape == "call":
        body = "(if (= n 0) 0 (+ 1 %s))" % pend
    else:
        body = "(if (= n 0) 0 (+ 1 (- %s (+ %s))))" % (pend, ops)
    inner = "(lambda (n p) %s)" % body
    if kind == "boxed-local":
        inner = "(lambda (n p) (set! p (cons n p)) %s)" % body      # the parameter p is assigned: boxed, read by LOCAL-REF; CDR
    if kind == "closure-ref":
        return "(define f (let ((c 5)) (set! c 6) %s))" % inner
    return "(define f %s)" % inner


def operand_depth(ctx, ha, da, strict, report, h, exe, pair_type):
    """The generator's operand-depth bound against the stack: non-tail recursion whose every pending call holds WIDTH
    operands of one kind (global / local / closure reference, literal, lambda, call result ..) on its operand stack,
    under ASan with poisoned free chunks, one process per kind.  make_call reserves sexp_bytecode_max_depth+64 slots; an
    operand the generator does not count is written past that reservation (F-C05-3: global references).  The same
    programs on the default build: sexp_bytecode_max_depth of f against the certified depth of its real bytecode (wide
    bodies: a bound that saturates or drifts shows here although the +64 still hides it from the run)."""
    defs0 = ["(define (h a . r) a)"]
    progs = []
    for kind, defs, opnd in OPERAND_KINDS:
        for shape, tmpl in OPERAND_SHAPES:
            for width in ([300, 1500] if (kind, shape) in (("local-ref", "call"), ("literal", "call"), ("global-ref", "call")) else [300]):
                prog = operand_program(kind, opnd, shape, width)
                if prog is not None:
                    progs.append((kind, shape, width, defs, opnd, prog))
    # inner: max_depth of f vs the certificate of its real code
    reqs, at = ["TOP " + x for x in defs0], []
    for kind, shape, width, defs, opnd, prog in progs:
        reqs += ["TOP " + x for x in defs]
        at.append(len(reqs))
        reqs += ["PROG " + prog, "DEPTH f"]
    _, ans = h.run(reqs, timeout=600)
    names = K.Names()
    mreq, midx = [], []
    for n, k in enumerate(at):
        bl = [t for tag, t in ans[k]["lines"] if tag == "B"] if k < len(ans) else []
        try:
            mreq.append("rdepths " + K.sx_str(K.wire_code(K.sx_parse(bl[-1]), names, pair_type)))
            midx.append(n)
        except (K.Unsupported, ValueError, IndexError):
            pass
    mo = ctx.run_model(exe, mreq) if mreq else []
    ntie, short = 0, []
    for n, line in zip(midx, mo):
        kind, shape, width, defs, opnd, prog = progs[n]
        m = re.match(r"V \((\d+) (\d+) (\d+)\)$", K.impl_outcome(ans[at[n] + 1])) if at[n] + 1 < len(ans) else None
        rd = line.split()
        if not m or len(rd) < 2 or not all(x.isdigit() for x in rd[1:]):
            if "X" in rd:
                ctx.broken("correspondence:depth-certificate", "real bytecode of the operand-kind program %s/%s has no depth certificate: %s" % (kind, shape, line[:80]))
            continue
        ntie += 1
        cert = max(int(x) for x in rd[1:])
        if int(m.group(1)) < cert - 1:
            short.append((kind, "%s/%s width %d: sexp_bytecode_max_depth %s, certified depth of the real body %d" % (kind, shape, width, m.group(1), cert)))
    report["operand_kind_bodies_compared"] = ntie
    # on a tree without the F-C05-3 fix every global reference - the operator of each call included - is uncounted, so a
    # shortfall of any kind of body can be that finding: enforced only in strict mode (the runs below are enforced per kind)
    hard = [t for k, t in short if strict]
    if short and not strict:
        report["pending_finding"] = "F-C05-3"
    if hard:
        ctx.broken("correspondence:max-depth", "sexp_bytecode_max_depth is smaller than the operand depth the body really reaches "
                   "(the stack check of make_call reserves max_depth+64 slots): " + "; ".join(hard[:4]))
    if ntie < len(progs) // 2:
        ctx.broken("correspondence:max-depth", "only %d of %d operand-kind bodies could be compared with their certificates" % (ntie, len(progs)))
    # outer: the runs
    nrun, pending = 0, []
    for kind, shape, width, defs, opnd, prog in progs:
        pre = ["TOP " + x for x in defs0 + defs + [prog]]
        depths = [3, 10, 200] if width < 1000 else [2, 40]
        calls = ["TOP (f %d (quote (1)))" % k for k in depths] + ["TOP (+ 1 2)"]
        _, answers = ha.run(pre + calls, timeout=300, extra_env={"ASAN_OPTIONS": "detect_leaks=0:abort_on_error=0:exitcode=97"})
        o = [K.impl_outcome(a).split("\n")[0][:120] for a in answers[len(pre):]]
        nrun += 1
        ctx.count(1, key=("operand-depth", kind, shape, width), nontrivial=True)
        want = ["V %d" % k for k in depths] + ["V 3"]
        if o == want:
            continue
        bad = [j for j in range(len(want)) if j >= len(o) or o[j] != want[j]][0]
        short_prog = prog.replace(" ".join([opnd] * width), " ".join([opnd] * 3) + " ..x%d.. " % width)
        call = calls[min(bad, len(calls) - 1)][4:]
        replay = "printf '%%s\\n' %s | ASAN_OPTIONS=detect_leaks=0 %s %s/embed_c03" % (" ".join("'%s'" % sq(q) for q in pre + calls), runenv(da), da)
        if not strict and kind == "global-ref":
            pending.append("%s %s: expected %s observed %s" % (short_prog, call, want[bad], (o + ["CRASH"])[bad]))
            continue
        ctx.violation("stack:operand-depth:%s:%s" % (kind, shape), input=short_prog + " " + call + "  ; every pending call holds %d operands of kind %s" % (width, kind),
                      expected=", ".join(want), observed=", ".join(o) or "CRASH", replay=replay)
    report["operand_kind_runs"] = nrun
    if pending:
        report["pending_finding"] = "F-C05-3"
        ctx.note("F-C05-3 (not enforced: fixes/C05-global-ref-depth.patch is not part of the tree under test): the code generator does "
                 "not count the stack slot of a global variable reference (generate_ref), so sexp_bytecode_max_depth is too small "
                 "and make_call's stack check reserves too little: a call with many global operands writes past the stack object.  "
                 "First case: " + pending[0][:900])


def fix_present(patch, subject):
    """is a repair part of the tree under test?  (the patch is applied in the working tree, or a commit with the proposed
    subject is in its history - then a later change that undoes it is a regression, not the known finding)"""
    try:
        r = subprocess.run(["git", "-C", B.REPO, "apply", "--reverse", "--check", patch], capture_output=True, timeout=60)
        if r.returncode == 0:
            return True
        r = subprocess.run(["git", "-C", B.REPO, "log", "--oneline", "-F", "--grep", subject], capture_output=True, text=True, timeout=60)
        return bool(r.stdout.strip())
    except (OSError, subprocess.TimeoutExpired):
        return False


APPLY_FIX = os.path.join(os.path.dirname(os.path.dirname(os.path.abspath(__file__))), "fixes", "C05-apply-exit-top.patch")
APPLY_FIX_SUBJECT = "sexp_apply restores the context's stack top"


def apply_fix_present():
    """is the repair of F-C05-2 part of the tree under test?  (the patch is applied in the working tree, or a commit with
    the proposed subject is in its history - then a later change that undoes it is a regression, not the known finding)"""
    try:
        r = subprocess.run(["git", "-C", B.REPO, "apply", "--reverse", "--check", APPLY_FIX], capture_output=True, timeout=60)
        if r.returncode == 0:
            return True
        r = subprocess.run(["git", "-C", B.REPO, "log", "--oneline", "-F", "--grep", APPLY_FIX_SUBJECT], capture_output=True, text=True, timeout=60)
        return bool(r.stdout.strip())
    except (OSError, subprocess.TimeoutExpired):
        return False


def apply_sessions(ctx, h, exe, d, maxs, inits, rng):
    """"leaving the context usable": sexp_apply called again and again on ONE context (harness/embed_c05_apply.c; sexp_eval
    would hide everything behind a fresh child stack).  Sequences of non-tail recursions of chosen depths, out-of-stack
    failures and ordinary errors in between; after every call the outcome, the context's stack top and the stack length
    must be those of the extracted model [session_z] with the repaired exit (theorem oos_leaves_context_usable)."""
    exe_h = B.cc_embed(d, os.path.join(os.path.dirname(APPLY_FIX), "..", "harness", "embed_c05_apply.c"), os.path.join(d, "embed_c05_apply"))
    defs = ["DEF (define t0 0)",
            "DEF (define (deep n) (if (= n 0) (begin (set! t0 (verif-top)) 0) (+ 1 (deep (- n 1)))))",
            "DEF (define (bad n) (if (= n 0) (car 0) (+ 1 (bad (- n 1)))))"]

    def run(reqs):
        try:
            r = subprocess.run([exe_h], input="\n".join(defs + reqs) + "\n", capture_output=True, text=True, env=B.chibi_env(d), timeout=600)
            out, rc = r.stdout, r.returncode
        except subprocess.TimeoutExpired as e:
            out, rc = (e.stdout.decode(errors="replace") if isinstance(e.stdout, bytes) else (e.stdout or "")), "TIMEOUT"
        ans = [l for l in out.split("\n") if l and l != "END" and not l.startswith("READY")]
        res = []
        for l in ans[len(defs):]:
            m = re.match(r"(V -?\d+|E out-of-stack|E other) top=(-?\d+) len=(\d+) t0=(-?\d+)$", l)
            res.append((m.group(1), int(m.group(2)), int(m.group(3)), int(m.group(4))) if m else (l[:80], -1, -1, -1))
        while len(res) < len(reqs):
            res.append(("CRASH rc=%s" % rc, -1, -1, -1))
        return res
    strict = apply_fix_present()
    # calibration: frame size, top at the first recursive call's stack check, request size (as deep_recursion)
    _, ans = h.run(["TOP " + defs[0][4:], "TOP " + defs[1][4:], "DEPTH deep"], timeout=120)
    m0 = re.match(r"V \((\d+) (\d+) (\d+)\)$", K.impl_outcome(ans[2]))
    cal = run(["APPLY deep 0", "APPLY deep 1", "APPLY deep 2"])
    if not m0 or any(c[0] != "V %d" % i or c[1] != 0 for i, c in enumerate(cal)):
        ctx.broken("apply-session:calibration", "no probe values: %s %s" % (K.impl_outcome(ans[2]), cal))
        return {}
    n = int(m0.group(1)) + 64
    t = [c[3] for c in cal]
    per, c0 = t[1] - t[0], t[0] + 2
    if per <= 0 or t[2] - t[1] != per or per > n:
        ctx.broken("apply-session:calibration", "frame size not constant / not in (0, n]: tops %s, n %d" % (t, n))
        return {}
    kmax = max(1, ceil_div(maxs - n - c0, per) + 1)          # smallest depth that runs out of stack from top 0
    sessions = [[10, 1000, 3 * maxs, 10, 200000, kmax - 1, kmax, 5, 2 * kmax, 1000],
                [kmax, 1, kmax - 1, kmax + 1, kmax - 2],
                [("bad", 1000), 10, ("bad", 2000), ("bad", 5), kmax - 1]]
    for _ in range(2 if not ctx.thorough else 20):
        sessions.append([rng.choice([rng.randrange(1, 2000), rng.randrange(kmax - 50, kmax + 50), rng.randrange(kmax, 4 * kmax),
                                     rng.randrange(1, kmax), ("bad", rng.randrange(1, 3000))]) for _ in range(rng.randrange(3, 9))])
    report = dict(strict=strict, sessions=len(sessions), calls=0, frame=per, first_check=c0, request=n, oos_from_depth=kmax)
    pending = []
    for ss in sessions:
        reqs = ["APPLY %s %d" % (("bad", x[1]) if isinstance(x, tuple) else ("deep", x)) for x in ss]
        real = run(reqs)
        # an ordinary error at depth k: the model knows it as a call that fails without touching the length beyond the
        # growth of its k stack checks; with the repaired exit the top is the entry top again in both cases
        ks = [x[1] if isinstance(x, tuple) else x for x in ss]
        mo = ctx.run_model(exe, ["session %d %d %d %d 0 %d %s" % (fx, c0, per, n, inits, " ".join(str(k) for k in ks)) for fx in (1, 0)])
        models = [[tuple(int(v) for v in part.split()) for part in line.split(" ; ")] for line in mo]
        text = "; ".join("(sexp_apply %s %d)" % (("bad", x[1]) if isinstance(x, tuple) else ("deep", x)) for x in ss)
        replay = "printf '%%s\\n' %s | %s %s" % (" ".join("'%s'" % q for q in defs + reqs), runenv(d), exe_h)
        ctx.count(1, key=("apply-session", tuple(reqs)), nontrivial=True)
        report["calls"] += len(reqs)
        ctx.cov["traces_validated_against_impl"] += 1
        top_expected, hist = 0, []
        for j, (x, r) in enumerate(zip(ss, real)):
            isbad = isinstance(x, tuple)
            k = x[1] if isbad else x
            ok_m, top_m, len_m = models[0][j]
            want = ("E other" if ok_m else "E out-of-stack") if isbad else ("V %d" % k if ok_m else "E out-of-stack")
            hist.append("%s -> %s top=%d len=%d" % (reqs[j][6:], r[0], r[1], r[2]))
            same = r[0] == want and r[1] == top_m and r[2] == len_m
            if same:
                continue
            what = "%s  ; call %d of the session; model (repaired exit): %s top=%d len=%d" % (text, j + 1, want, top_m, len_m)
            obs = " | ".join(hist)
            if not strict:
                # the tree does not contain fixes/C05-apply-exit-top.patch: F-C05-2 is expected, anything else is not
                ok_p, top_p, len_p = models[1][j]
                want_p = ("E other" if ok_p else "E out-of-stack") if isbad else ("V %d" % k if ok_p else "E out-of-stack")
                if (r[0] == want_p and r[2] == len_p and (isbad or r[1] == top_p)) or (isbad and r[0] in ("E other", "E out-of-stack")):
                    pending.append(what + "  observed " + obs)
                    break
            if r[0] == "E out-of-stack" and want != "E out-of-stack" and top_m + c0 + (k - 1) * per + n + 1024 < maxs:
                ctx.violation("apply:context-unusable-after-error", input=what, expected="%s, context top %d" % (want, top_m), observed=obs, replay=replay)
            elif r[0] == want and r[1] != top_m:
                ctx.violation("apply:context-top-after-error", input=what, expected="context top %d after the call (the entry top)" % top_m, observed=obs, replay=replay)
            elif r[0].startswith("CRASH") or (r[0].startswith("V ") and want.startswith("V ") and r[0] != want):
                ctx.violation("apply:wrong-result", input=what, expected=want, observed=obs, replay=replay)
            else:
                ctx.broken("correspondence:apply-session", "sexp_apply session differs from session_z: %s observed %s" % (what, obs))
            break
    if pending:
        report["pending_finding"] = "F-C05-2"
        ctx.note("F-C05-2 (not enforced: fixes/C05-apply-exit-top.patch is not part of the tree under test): sexp_apply leaves the "
                 "context's stack top at the depth of an uncaught error; after out-of-stack every later sexp_apply on the context "
                 "fails (theorem apply_exit_pinned_refuted).  First case: " + pending[0][:900])
    return report


def replay(ctx, j):
    """./check C05 --replay evidence/replay/C05-n.json : run the recorded shell replay of each failing case"""
    ctx.build("default")
    still = 0
    for c in j.get("failing_cases", []):
        r = subprocess.run(c.get("replay", "true"), shell=True, capture_output=True, text=True, timeout=900)
        out = (r.stdout + r.stderr)[-1500:]
        exp = str(c.get("expected", "")).split("  ")[0]
        last = [l for l in r.stdout.split("\n") if l.startswith(("V ", "E "))]
        if c.get("sig", "").startswith("apply:"):
            # a session of sexp_apply calls on one context: every call must leave the context top at the entry top (0)
            tops = re.findall(r"^(V -?\d+|E [a-z-]+) top=(-?\d+) len=", r.stdout, re.M)
            bad = not tops or any(int(t) != 0 for _, t in tops) or "CRASH" in out
        elif c.get("sig", "").startswith("stack:operand-depth"):
            # definitions answer V #<undef>; the calls must answer exactly the expected values, in order
            want = [x.strip() for x in str(c.get("expected", "")).split(",")]
            bad = [x.strip() for x in last if "#<undef>" not in x][-len(want):] != want
        elif c.get("sig", "").startswith("tail:call-at-tail-site"):
            real = [l for l in r.stdout.split("\n") if l.startswith("B ")]
            try:
                got = " ".join(calls_string(code_bodies(K.sx_parse(b[2:]), [])) for b in real)
            except (ValueError, IndexError):
                got = "?"
            bad = got not in exp and exp.split(": ")[-1] not in got
        else:
            bad = not last or (exp.startswith(("V ", "E ")) and exp.split(",")[0].strip() not in [x.strip() for x in last])
        still += bad
        print("%s\n   expected %s\n   output: %s\n   %s" % (str(c.get("input"))[:400], c.get("expected"), out.strip()[-600:], "STILL FAILS" if bad else "passes now"))
    for u in j.get("no_longer_checks", []):
        print("no failing input recorded: %s: %s" % (u.get("name"), str(u.get("reason"))[:400]))
        still += 1
    return 1 if still else 0
