"""C05 — tail calls run in constant space; deep recursion ends cleanly.
   (T) coq/Properties_C05.v (generator emits TAIL-CALL exactly at R7RS 3.5 tail sites; TAIL-CALL reuses the frame;
       chains of tail calls keep the frame base for all n; stack growth arithmetic).
   (K-inner) loop programs built by composing every tail context of R7RS 3.5 (derived forms included, i.e. through
       the macros of init-7.scm): (a) in the real bytecode the recursive call is TAIL-CALL exactly when the surface
       context is a tail context, (b) the CALL/TAIL-CALL sequence of every code body equals the one the extracted
       model generator produces from the same analysed AST.
   (K-outer) the same loops run 10^6 (quick) / 10^7 (thorough) iterations under a foreign probe of sexp_context_top:
       depth at the first and at a late iteration must be equal; non-tail recursion of depth 1 .. beyond the maximum
       gives the value or the out-of-stack error and leaves the context usable; long argument lists applied deep in
       a recursion (stack growth by more than doubling) run under ASan with poisoned free heap chunks."""
import os, subprocess, re
from vlib import build as B
from props import C03 as K

X = "@X@"


def fill(t, x):
    if t == X:
        return x
    if isinstance(t, list):
        return [fill(y, x) for y in t]
    return t


# (name, is a tail context by R7RS 3.5, template); inside the template i > 0 holds
CONTEXTS = [
    ("if-else", True, ["if", ["<", "i", 0], 0, X]),
    ("if-then", True, ["if", [">", "i", 0], X, 0]),
    ("cond-clause", True, ["cond", [["<", "i", 0], 0], [[">", "i", 0], X], ["else", 0]]),
    ("cond-else", True, ["cond", [["<", "i", 0], 0], ["else", X]]),
    ("case-clause", True, ["case", ["if", [">", "i", 0], 1, 2], [[1], X], ["else", 0]]),
    ("case-else", True, ["case", 5, [[1, 2], 0], ["else", X]]),
    ("and-last", True, ["and", True, [">", "i", 0], X]),
    ("or-last", True, ["or", False, ["<", "i", 0], X]),
    ("when-last", True, ["when", [">", "i", 0], 1, X]),
    ("unless-last", True, ["unless", ["<", "i", 0], 1, X]),
    ("let-body", True, ["let", [["t", 1]], X]),
    ("let*-body", True, ["let*", [["t", 1], ["u", "t"]], X]),
    ("letrec-body", True, ["letrec", [["t", ["lambda", [], 1]]], X]),
    ("letrec*-body", True, ["letrec*", [["t", 1], ["u", ["lambda", [], "t"]]], X]),
    ("named-let-exit", True, ["let", "lp2", [["k", 0]], ["if", ["<", "k", 1], ["lp2", ["+", "k", 1]], X]]),
    ("begin-last", True, ["begin", 1, X]),
    ("lambda-body", True, [["lambda", ["t"], X], 1]),
    ("internal-define-body", True, [["lambda", [], ["define", "t", 1], X]]),
    ("do-result", True, ["do", [["k", 0, ["+", "k", 1]]], [[">", "k", 0], X]]),
    # negative controls: not tail contexts
    ("operand", False, ["+", 0, X]),
    ("let-init", False, ["let", [["t", X]], "t"]),
    ("begin-nonlast", False, ["begin", X, "acc"]),
    ("if-test", False, ["if", X, "acc", "acc"]),
    ("and-nonlast", False, ["and", X, "acc"]),
]

CALLEES = ["fixed", "rest-used", "rest-unused", "mutual", "apply"]


def loop_program(ctxs, callee, n, probe):
    """returns (forms, names of the procedures whose recursive call is inspected)"""
    rec = {"fixed": ["loop", ["-", "i", 1], ["+", "acc", 1]],
           "rest-used": ["loop", ["-", "i", 1], ["+", ["car", "r"], 1]],
           "rest-unused": ["loop", ["-", "i", 1], ["+", "acc", 1], 0, 0],
           "mutual": ["pong", ["-", "i", 1], ["+", "acc", 1]],
           "apply": ["apply", "loop", ["list", ["-", "i", 1], ["+", "acc", 1]]]}[callee]
    body = rec
    for _, _, t in reversed(ctxs):
        body = fill(t, body)
    head = {"fixed": ["loop", "i", "acc"], "rest-used": ["loop", "i", ".", "r"], "rest-unused": ["loop", "i", "acc", ".", "r"],
            "mutual": ["loop", "i", "acc"], "apply": ["loop", "i", "acc"]}[callee]
    acc = ["car", "r"] if callee == "rest-used" else "acc"
    pre = [["note", "i"]] if probe else []
    forms = []
    if probe:
        forms += [["define", "top-first", 0], ["define", "top-late", 0],
                  ["define", ["note", "i"], ["if", ["=", "i", n], ["set!", "top-first", ["verif-top"]],
                                             ["if", ["<", "i", 3], ["set!", "top-late", ["verif-top"]], False]]]]
    if callee == "rest-used":
        body = ["let", [["acc", ["car", "r"]]], body] if any(c[0] in ("begin-nonlast", "if-test", "and-nonlast") for c in ctxs) else body
    forms.append(["define", head] + pre + [["if", ["=", "i", 0], acc, body]])
    if callee == "mutual":
        forms.append(["define", ["pong", "i", "acc"], ["if", ["=", "i", 0], "acc", ["loop", ["-", "i", 1], ["+", "acc", 1]]]])
    # same number of surplus arguments as the recursive call: with an unused rest parameter they stay in the frame
    call = ["loop", n, 0, 0, 0] if callee == "rest-unused" else ["loop", n, 0]
    # the loop must run before the probes are read: operands are evaluated right to left
    forms.append(["let", [["res", call]], ["cons", "res", ["-", "top-late", "top-first"]]] if probe else call)
    target = {"mutual": "pong", "apply": "apply"}.get(callee, "loop")
    return forms, target


def code_bodies(c, out):
    """harness (code len (off NAME args..)..) -> list of bodies in code order, each a list of instructions"""
    ins = c[2:]
    out.append(ins)
    for i in ins:
        if i[1] == "PUSH" and isinstance(i[2], list) and i[2] and i[2][0] == "proc":
            code_bodies(i[2][3], out)
        elif i[1] == "MAKE-PROCEDURE":
            code_bodies(i[4], out)
    return out


def calls_string(bodies):
    return " ".join("(" + " ".join("(%d %s)" % (1 if i[1] == "TAIL-CALL" else 0, i[2]) for i in b if i[1] in ("CALL", "TAIL-CALL")) + ")"
                    for b in bodies)


def calls_to(bodies, target):
    """opcodes of the calls whose operator is the global `target`"""
    ops = []
    for b in bodies:
        for k, i in enumerate(b):
            if i[1] in ("CALL", "TAIL-CALL") and k > 0 and b[k - 1][1] in ("GLOBAL-REF", "GLOBAL-KNOWN-REF") and b[k - 1][2] == target:
                ops.append(i[1])
    return ops


def run(ctx):
    ctx.cov["rule"] = ("loop programs = composition of R7RS 3.5 tail contexts (19 tail contexts + 5 non-tail controls, nesting 1-2 "
                       "quick / up to 3 thorough) x callee kind {fixed arity, rest used, rest unused with surplus args, mutual "
                       "recursion, apply}; each is compiled (bytecode inspected, call sequence compared with the model generator) "
                       "and run for N iterations with a stack-depth probe; plus non-tail recursion at depths around the stack "
                       "maximum and long apply argument lists deep in a recursion; distinct by program text, all non-trivial")
    ctx.coq_obligations("Properties_C05")
    try:
        d = ctx.build("default")
    except B.BuildError:
        # a broken VM can make the tree's own build fail (it runs chibi-scheme on its .stub files); if the core library
        # was linked, go on with it so that a concrete failing loop is found
        d = os.path.join(B.SCRATCH, "default-" + B.source_hash())
        if not os.path.exists(os.path.join(d, "libchibi-scheme.so")):
            raise
        ctx.note("build of the tree failed after libchibi-scheme was linked; continued with the core library only")
    exe = ctx.extract("C05")
    if exe is None:
        return
    h = K.Harness(d)
    rng = ctx.rng
    tails = [c for c in CONTEXTS if c[1]]
    combos = [[c] for c in CONTEXTS]
    pairs = [[a, b] for a in tails for b in CONTEXTS]
    if ctx.thorough:
        combos += pairs
        triples = [[a, b, c] for a in tails for b in tails for c in CONTEXTS]
        combos += [triples[i] for i in sorted(rng.sample(range(len(triples)), 600))]
    else:
        combos += [pairs[i] for i in sorted(rng.sample(range(len(pairs)), 40))]
    cases = []
    for n, cs in enumerate(combos):
        for callee in (CALLEES if len(cs) == 1 else [CALLEES[n % len(CALLEES)]]):
            cases.append((cs, callee))
    # ------------------------------------------------------------------ inner: bytecode
    small = [loop_program(cs, callee, 5, False) for cs, callee in cases]
    texts = [" ".join(K.scm(f) for f in forms) for forms, _ in small]
    hdr, answers = h.run(["PROG " + t for t in texts])
    pair_type = hdr.get("pair-type", 6)
    names = K.Names()
    mreq, plan = [], []
    for (cs, callee), (forms, target), text, ans in zip(cases, small, texts, answers):
        tail = all(c[1] for c in cs)
        key = "+".join(c[0] for c in cs) + "/" + callee
        ent = dict(key=key, tail=tail, text=text, target=target, out=K.impl_outcome(ans), forms=[])
        plan.append(ent)
        for a2, b in zip([t for tag, t in ans["lines"] if tag == "A2"], [t for tag, t in ans["lines"] if tag == "B"]):
            try:
                bodies = code_bodies(K.sx_parse(b), [])
            except (ValueError, IndexError) as e:
                ctx.broken("harness-output", "unparsable bytecode dump for %s: %s" % (text[:200], e))
                continue
            f = dict(bodies=bodies)
            try:
                w = K.wire_ast(K.sx_parse(a2), names)
                f["req"] = len(mreq)
                mreq.append("calls " + K.sx_str(w))
            except (K.Unsupported, ValueError, IndexError) as e:
                f["unsupported"] = str(e)
            ent["forms"].append(f)
    mout = ctx.run_model(exe, mreq) if mreq else []
    replay_fmt = "echo 'PROG %s' | LD_LIBRARY_PATH=" + d + " " + d + "/embed_c03 | grep -E '^(B|V|E) '"
    bad_inner = []
    for ent in plan:
        ctx.count(1, key=("inner", ent["text"]), nontrivial=True)
        if (ent["tail"] and ent["out"] != "V 5") or not ent["out"].startswith("V "):
            ctx.violation("tail:wrong-result:" + ent["key"].split("/")[1], input=ent["text"], expected="V 5", observed=ent["out"],
                          replay=replay_fmt % ent["text"].replace("'", "'\\''"))
            continue
        ops = []
        for f in ent["forms"]:
            ops += calls_to(f["bodies"], ent["target"])
            if "req" in f:
                ctx.cov["traces_validated_against_impl"] += 1
                real, model = calls_string(f["bodies"]), mout[f["req"]]
                if real != model:
                    ent["model_diff"] = (real, model)
        # the recursive call inside the loop body (the last form's own call of loop is at top level: ignore CALL/TAIL there)
        inner_ops = []
        for f in ent["forms"][:-1]:
            inner_ops += calls_to(f["bodies"], ent["target"])
        want = "TAIL-CALL" if ent["tail"] else "CALL"
        if not inner_ops or any(o != want for o in inner_ops):
            ent["flag_diff"] = (want, inner_ops)
            bad_inner.append(ent)
        elif ent.get("model_diff"):
            bad_inner.append(ent)
    # ------------------------------------------------------------------ outer: depth probe
    N = 10 ** 6 if not ctx.thorough else 10 ** 7
    nbig = 24 if not ctx.thorough else 120
    order = list(range(len(cases)))
    # programs whose bytecode disagreed are run first and always with the large N (targeted search)
    order.sort(key=lambda i: (0 if plan[i] in bad_inner else 1, i))
    lines, meta = [], []
    for rank, i in enumerate(order):
        cs, callee = cases[i]
        tail = all(c[1] for c in cs)
        n = (N if rank < nbig or plan[i] in bad_inner else 20000) if tail else 2000
        forms, _ = loop_program(cs, callee, n, True)
        lines.append("TOP " + " ".join(K.scm(f) for f in forms))
        meta.append((i, n, tail))
    _, answers = h.run(lines, timeout=1500)
    for (i, n, tail), line, ans in zip(meta, lines, answers):
        ent = plan[i]
        out = K.impl_outcome(ans)
        ctx.count(1, key=("outer", line), nontrivial=True)
        replay = "echo '%s' | LD_LIBRARY_PATH=%s %s/embed_c03" % (line.replace("'", "'\\''"), d, d)
        m = re.match(r"V \((\d+) \. (-?\d+)\)$", out)
        if tail:
            if not m or int(m.group(1)) != n or int(m.group(2)) != 0:
                ctx.violation("tail:stack-grows:" + ent["key"].split("/")[1] + ":" + ent["key"].split("/")[0].split("+")[0],
                              input=line[4:], expected="V (%d . 0)  (value, depth at iteration N-1 minus depth at iteration 1... = 0)" % n,
                              observed=out, replay=replay)
                ent["reported"] = True
        else:
            # control: the probe must see the growth of a non-tail recursion (otherwise the probe is blind)
            if not m or int(m.group(2)) <= 0:
                ctx.broken("depth-probe", "probe did not see stack growth for non-tail loop %s: %s" % (ent["key"], out))
    for ent in bad_inner:
        if ent.get("reported"):
            continue
        if ent.get("flag_diff"):
            ctx.broken("correspondence:tail-flag", "recursive call compiled as %s, R7RS 3.5 says %s for %s (no stack growth observed): %s"
                       % (ent["flag_diff"][1], ent["flag_diff"][0], ent["key"], ent["text"][:300]))
        else:
            ctx.broken("correspondence:calls", "call sequence of the real bytecode differs from the model generator for %s: real %s model %s"
                       % (ent["text"][:300], ent["model_diff"][0][:300], ent["model_diff"][1][:300]))
    # ------------------------------------------------------------------ deep recursion and stack growth
    maxs = hdr.get("max-stack", 1024000)
    if hdr.get("max-stack") != 1024000 or hdr.get("init-stack") != 1024:
        ctx.broken("constants", "SEXP_MAX_STACK_SIZE / SEXP_INIT_STACK_SIZE of the tree (%s / %s) differ from coq/C05/Model.v (1024000 / 1024)"
                   % (hdr.get("max-stack"), hdr.get("init-stack")))
    deep = ["TOP (define (deep n) (if (= n 0) 0 (+ 1 (deep (- n 1)))))"]
    depths = [1, 1000, 100000, maxs // 8, maxs, 3 * maxs]
    for k in depths:
        deep += ["TOP (deep %d)" % k, "TOP (+ 1 2)", "TOP (deep 1000)", "TOP (cons (verif-top) (verif-stack-length))"]
    _, answers = h.run(deep, timeout=900)
    outs = [K.impl_outcome(a) for a in answers]
    for n, k in enumerate(depths):
        r, after1, after2, shape = outs[1 + 4 * n: 5 + 4 * n]
        ctx.count(1, key=("deep", k), nontrivial=True)
        replay = "printf 'TOP (define (deep n) (if (= n 0) 0 (+ 1 (deep (- n 1)))))\\nTOP (deep %d)\\nTOP (+ 1 2)\\n' | LD_LIBRARY_PATH=%s %s/embed_c03" % (k, d, d)
        if r not in ("V %d" % k, "E out-of-stack") or (k <= 100000 and r != "V %d" % k) or (k >= maxs and r != "E out-of-stack"):
            ctx.violation("deep-recursion:outcome", input="(deep %d)" % k, expected="V %d or the out-of-stack error (error iff the frames cannot fit in %d slots)" % (k, maxs),
                          observed=r, replay=replay)
        elif after1 != "V 3" or after2 != "V 1000":
            ctx.violation("deep-recursion:context-unusable", input="(deep %d) then (+ 1 2), (deep 1000)" % k, expected="V 3, V 1000",
                          observed="%s, %s" % (after1, after2), replay=replay)
        else:
            m = re.match(r"V \((\d+) \. (\d+)\)$", shape)
            if not m or not (int(m.group(1)) < int(m.group(2)) <= maxs):
                ctx.violation("deep-recursion:stack-shape", input="(deep %d)" % k, expected="top < stack length <= %d" % maxs, observed=shape, replay=replay)
    ctx.sample(dict(kind="deep", depths=depths, outcomes=[outs[1 + 4 * n] for n in range(len(depths))]))
    # long argument lists applied deep in a recursion: growth by more than doubling (ASan + poisoned free chunks)
    try:
        da = ctx.build("asan")
    except B.BuildError:
        da = os.path.join(B.SCRATCH, "asan-" + B.source_hash())
        if not os.path.exists(os.path.join(da, "libchibi-scheme.so")):
            raise
    ha = K.Harness(da)
    big = ["TOP (define (mk n) (let lp ((i 0) (acc (quote ()))) (if (= i n) acc (lp (+ i 1) (cons 1 acc)))))",
           "TOP (define (deepapply d k) (if (= d 0) (apply + (mk k)) (+ 1 (deepapply (- d 1) k))))"]
    grid = [(100, 2000), (150, 2500), (10, 3000), (60, 1500), (120, 5000), (0, 4000)]
    if ctx.thorough:
        grid += [(rng.randrange(0, 160), rng.randrange(900, 9000)) for _ in range(60)]
    # every case in a fresh process: the first one that corrupts the heap would hide the others
    for dd, kk in grid:
        _, answers = ha.run(big + ["TOP (deepapply %d %d)" % (dd, kk), "TOP (+ 1 2)"], timeout=300,
                            extra_env={"ASAN_OPTIONS": "detect_leaks=0:abort_on_error=0:exitcode=97"})
        o = [K.impl_outcome(a) for a in answers]
        ctx.count(1, key=("deepapply", dd, kk), nontrivial=True)
        if o[2] != "V %d" % (dd + kk) or o[3] != "V 3":
            ctx.violation("stack:ensure-min-size", input="(deepapply %d %d)  ; apply of a %d-element list %d frames deep" % (dd, kk, kk, dd),
                          expected="V %d, then V 3" % (dd + kk), observed="%s, %s" % (o[2][:300], o[3][:100]),
                          replay="printf '%%s\\n' '%s' '%s' 'TOP (deepapply %d %d)' | ASAN_OPTIONS=detect_leaks=0 LD_LIBRARY_PATH=%s %s/embed_c03" % (big[0], big[1], dd, kk, da, da))
    # model of the growth arithmetic: the repaired policy always leaves room (spot check of the extracted function)
    reqs, exp = [], []
    for top, n, ln in [(600, 2064, 1024), (1000, 100, 1024), (1023990, 100, 1024000), (10, 5000, 1024), (500000, 600000, 524288)]:
        reqs.append("ensure 1 %d %d %d" % (top, n, ln))
    mo = ctx.run_model(exe, reqs)
    for q, a in zip(reqs, mo):
        f = q.split()
        top, n, ln = int(f[2]), int(f[3]), int(f[4])
        if a.startswith("ENOUGH"):
            if not (top + n < int(a.split()[1]) <= maxs):
                ctx.broken("model:ensure_stack", "extracted ensure_stack contradicts its theorem on %s: %s" % (q, a))
        elif top + n < maxs:
            ctx.broken("model:ensure_stack", "extracted ensure_stack gives OOS although the request fits: %s" % q)
    dist = {}
    for cs, callee in cases:
        dist[callee] = dist.get(callee, 0) + 1
    ctx.cov["generator_distribution"] = dict(loop_programs=len(cases), by_callee=dist, tail_contexts=len(tails),
                                             non_tail_controls=len(CONTEXTS) - len(tails), iterations_big=N, programs_with_big_N=nbig,
                                             deep_depths=depths, deepapply_grid=len(grid))
    ctx.sample(dict(kind="loop", program=texts[0], outcome=plan[0]["out"]))
    ctx.sample(dict(kind="loop", program=lines[0][:400], outcome=K.impl_outcome(answers[0]) if answers else None))
    ctx.assume("chain_step's 'quiet' steps (fp and frame header unchanged by instructions other than calls/returns) are a stated premise of tail_loop_bounded, validated only by the depth probe")
    ctx.assume("C recursion inside analyze / equal? / write on deep data is outside this check")
    ctx.trust("harness/embed_c03.c (verif-top = sexp_context_top published by the VM before a foreign call), props/C05.py context table (which surface contexts are tail contexts, from R7RS 3.5)")


def replay(ctx, j):
    """./check C05 --replay evidence/replay/C05-n.json : run the recorded shell replay of each failing case"""
    ctx.build("default")
    still = 0
    for c in j.get("failing_cases", []):
        r = subprocess.run(c.get("replay", "true"), shell=True, capture_output=True, text=True, timeout=900)
        out = (r.stdout + r.stderr)[-1500:]
        exp = str(c.get("expected", "")).split("  ")[0]
        last = [l for l in r.stdout.split("\n") if l.startswith(("V ", "E "))]
        bad = not last or (exp.startswith("V ") and exp.split(",")[0].strip() not in [x.strip() for x in last])
        still += bad
        print("%s\n   expected %s\n   output: %s\n   %s" % (str(c.get("input"))[:400], c.get("expected"), out.strip()[-600:], "STILL FAILS" if bad else "passes now"))
    for u in j.get("no_longer_checks", []):
        print("no failing input recorded: %s: %s" % (u.get("name"), str(u.get("reason"))[:400]))
        still += 1
    return 1 if still else 0
