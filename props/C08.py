"""C08 — external representations round-trip; both reader/writer pairs agree.
   (G) gen/c08_tables.py + gen/c08_leaf.py regenerate the tables and leaf functions of sexp.c
   (T) coq/Properties_C08.v
   (K) generated data: model writer text == native write text byte for byte; native write -> native
       read, native write -> (scheme read), (scheme write) -> native read, (scheme write) -> (scheme
       read) all give the datum back (flonums by bit pattern); cyclic/shared graphs through datum
       labels; mutated texts: model reader == native reader == (scheme read)."""
import os, struct, subprocess, tempfile, math
from vlib import build as B

HERE = os.path.dirname(os.path.abspath(__file__))
PRELUDE = os.path.join(HERE, "..", "harness", "c08_driver.scm")
CORPUS = os.path.join(HERE, "..", "corpus", "C08")

# ----------------------------------------------------------------------------- data
# ('I', z) ('D', bits) ('C', cp) ('S', bytes) ('Y', bytes) ('T',) ('F',) ('N',) ('P', a, d) ('V', [..]) ('B', bytes)


def enc(d):
    k = d[0]
    if k == 'I':
        return "I" + (("-%x" % -d[1]) if d[1] < 0 else "%x" % d[1])
    if k == 'D':
        return "D%x" % d[1]
    if k == 'C':
        return "C%x" % d[1]
    if k in 'SYB':
        return k + bytes(d[1]).hex()
    if k in 'TFN':
        return k
    if k == 'Q':
        return "Q%s/%x" % (("-%x" % -d[1]) if d[1] < 0 else "%x" % d[1], d[2])
    if k == 'X':
        return "X " + enc(d[1]) + " " + enc(d[2])
    if k == 'P':
        return "P " + enc(d[1]) + " " + enc(d[2])
    if k == 'V':
        return " ".join(["V%d" % len(d[1])] + [enc(x) for x in d[1]])
    raise ValueError(d)


def bv(bs):
    return "(bytevector%s)" % "".join(" %d" % b for b in bs)


def scm(d):
    k = d[0]
    if k == 'I':
        return ("(- #x%x)" % -d[1]) if d[1] < 0 else "#x%x" % d[1]
    if k == 'D':
        return "(flo #x%x)" % d[1]
    if k == 'C':
        return "(integer->char %d)" % d[1]
    if k == 'S':
        return "(utf8->string %s)" % bv(d[1])
    if k == 'Y':
        return "(string->symbol (utf8->string %s))" % bv(d[1])
    if k == 'T':
        return "#t"
    if k == 'F':
        return "#f"
    if k == 'N':
        return "'()"
    if k == 'Q':
        return "(/ %s #x%x)" % (scm(('I', d[1])), d[2])
    if k == 'X':
        return "(make-rectangular %s %s)" % (scm(d[1]), scm(d[2]))
    if k == 'P':
        return "(cons %s %s)" % (scm(d[1]), scm(d[2]))
    if k == 'V':
        return "(vector%s)" % "".join(" " + scm(x) for x in d[1])
    if k == 'B':
        return bv(d[1])
    raise ValueError(d)


def leaves(d, path=""):
    k = d[0]
    if k == 'P':
        yield from leaves(d[1], path + "a")
        yield from leaves(d[2], path + "d")
    elif k == 'V':
        for i, x in enumerate(d[1]):
            yield from leaves(x, path + "[%d]" % i)
    else:
        yield d


def klass(d):
    return {'I': 'integer', 'D': 'flonum', 'C': 'char', 'S': 'string', 'Y': 'symbol', 'T': 'boolean', 'F': 'boolean',
            'N': 'null', 'Q': 'ratio', 'X': 'complex', 'P': 'pair', 'V': 'vector', 'B': 'bytevector'}[d[0]]


# ----------------------------------------------------------------------------- generators
SYM_ALPHA = "+-.#|\\'`,@0123456789einafINAF x(){}[];\"\t\nλbcdXYZ!$%&*/:<=>?^_~"
WIDTH_EDGES = [0, 1, 7, 8, 9, 10, 13, 27, 31, 32, 33, 34, 39, 40, 41, 48, 57, 59, 92, 96, 120, 124, 126, 127, 128, 129, 0xA0, 0xFF, 0x100, 0x3BB,
               0x7FD, 0x7FE, 0x7FF, 0x800, 0x801, 0x802, 0xFFF, 0x1000, 0xD7FE, 0xD7FF, 0xE000, 0xE001, 0xFFFD, 0xFFFE, 0xFFFF,
               0x10000, 0x10001, 0x10002, 0x1F600, 0xFFFFF, 0x100000, 0x10FFFD, 0x10FFFE, 0x10FFFF]


def scalar(rng):
    r = rng.random()
    if r < 0.35:
        return rng.choice(WIDTH_EDGES)
    if r < 0.55:
        return rng.randrange(0, 128)
    if r < 0.7:
        return rng.randrange(128, 0x800)
    if r < 0.85:
        c = rng.randrange(0x800, 0x10000)
        return c if not (0xD800 <= c < 0xE000) else 0xE000 + (c - 0xD800)
    return rng.randrange(0x10000, 0x110000)


def gen_symbol_bytes(rng):
    r = rng.random()
    if r < 0.12:   # number-like prefixes, the case split of the quoting predicate
        head = rng.choice([b"+", b"-", b".", b"", b"+.", b"-.", b"+i", b"-I", b"+inf.0", b"-INF.0", b"+Inf.0", b"+nan.0", b"-NaN.0",
                           b"+nan", b"+na", b"1", b"9", b"`", b"'", b",", b",@", b"#", b"..", b"...", b"+in", b"-inf.", b"+inf.0i", b"1+", b"-i", b"+I"])
        tail = "".join(rng.choice(SYM_ALPHA) for _ in range(rng.choice([0, 0, 0, 1, 1, 2, 3])))
        return head + tail.encode("utf-8")
    n = rng.choice([0, 1, 1, 2, 2, 3, 3, 4, 5, 6, 8, 12])
    if r < 0.8:
        return "".join(rng.choice(SYM_ALPHA) for _ in range(n)).encode("utf-8")
    return "".join(chr(scalar(rng)) for _ in range(n)).encode("utf-8")


def gen_string_bytes(rng):
    n = rng.choice([0, 1, 1, 2, 3, 4, 6, 10, 20, 140, 300]) if rng.random() < 0.9 else rng.randrange(120, 140)
    out = []
    for _ in range(n):
        r = rng.random()
        if r < 0.3:
            out.append(chr(rng.choice([0, 1, 7, 8, 9, 10, 11, 12, 13, 14, 27, 31, 32, 34, 59, 92, 120, 124, 127, 128, 0xA0])))
        else:
            out.append(chr(scalar(rng)))
    return "".join(out).encode("utf-8")


def double_bits(rng, seeds):
    r = rng.random()
    if r < 0.25:
        return rng.choice(seeds)
    if r < 0.35:     # widened half-precision pattern
        h = rng.randrange(0, 1 << 16)
        return struct.unpack("<Q", struct.pack("<d", struct.unpack("<e", struct.pack("<H", h))[0]))[0] if ((h >> 10) & 31) != 31 else rng.choice(seeds)
    if r < 0.5:      # subnormals and the smallest normals
        return (rng.getrandbits(1) << 63) | rng.choice([rng.getrandbits(52), rng.getrandbits(rng.randrange(1, 53)), (1 << 52) + rng.getrandbits(8)])
    if r < 0.65:     # short decimals
        v = float("%d.%de%d" % (rng.randrange(0, 1000), rng.randrange(0, 1000), rng.randrange(-30, 30))) * rng.choice([1, -1])
        return struct.unpack("<Q", struct.pack("<d", v))[0]
    b = rng.getrandbits(64)
    if ((b >> 52) & 0x7FF) == 0x7FF:
        b &= ~(1 << 62)
    return b


def float_seeds():
    s = set()
    def add(v):
        s.add(struct.unpack("<Q", struct.pack("<d", v))[0])
    for v in [0.0, -0.0, 1.0, -1.0, 0.1, 0.5, 1e23, 1.2345678901234569e+23, 123456789012345678901234.0, 5e-324, 2.2250738585072014e-308,
              2.225073858507201e-308, 1.7976931348623157e308, 9007199254740992.0, 9007199254740993.0, 4.35, 1e21, 1e22, 1e15, 1e16, 1e17,
              123456789012345.0, 1234567890123456.0, 12345678901234567.0, 0.000123, 1e-5, 1e-4, 0.001, 100.0, 1e100, 1e-100, 8.41e21, 2e-323,
              float("inf"), float("-inf")]:
        add(v)
    for k in range(-340, 310, 7):
        try:
            add(float("1e%d" % k)); add(float("9.999999999999999e%d" % k))
        except (OverflowError, ValueError):
            pass
    for k in list(range(-1074, -1060)) + list(range(-1030, -1015)) + list(range(-5, 70)) + list(range(1010, 1024)):
        add(math.ldexp(1.0, k))
        if k > -1070:
            add(math.ldexp(1.0, k) * (1 + 2.0 ** -52)); add(math.ldexp(1.0, k) * (1 - 2.0 ** -53))
    s.add(0x7FF8000000000000)      # NaN
    return sorted(s)


def gen_atom(rng, seeds):
    r = rng.random()
    if r < 0.22:
        return ('Y', gen_symbol_bytes(rng))
    if r < 0.38:
        return ('S', gen_string_bytes(rng))
    if r < 0.52:
        return ('C', scalar(rng))
    if r < 0.62:
        z = rng.choice([0, 1, -1, 9, 10, 255, 256, (1 << 62) - 1, 1 << 62, -(1 << 62), -(1 << 62) - 1, (1 << 64) - 1, 1 << 64, 10 ** 18, 10 ** 19, -10 ** 19,
                        rng.getrandbits(rng.choice([4, 16, 61, 62, 63, 64, 65, 130])) * rng.choice([1, -1])])
        return ('I', z)
    if r < 0.66:
        return gen_ratio(rng)
    if r < 0.70:
        return gen_complex(rng, seeds)
    if r < 0.86:
        return ('D', double_bits(rng, seeds))
    if r < 0.92:
        return rng.choice([('T',), ('F',), ('N',)])
    n = rng.choice([0, 1, 2, 3, 8])
    return ('B', bytes(rng.choice([0, 1, 9, 10, 15, 16, 127, 128, 255, rng.randrange(256)]) for _ in range(n)))


def gen_int(rng):
    return rng.choice([0, 1, -1, 9, 10, 255, 256, (1 << 62) - 1, 1 << 62, -(1 << 62), -(1 << 62) - 1, (1 << 63), -(1 << 63), (1 << 64) - 1, 1 << 64, -(1 << 64),
                       1 << 70, -(1 << 70), 10 ** 18, 10 ** 19, -10 ** 19, rng.getrandbits(rng.choice([4, 16, 61, 62, 63, 64, 65, 130])) * rng.choice([1, -1])])


def gen_ratio(rng):
    """exact non-integer rational in lowest terms; numerators at the fixnum/bignum boundary (+-2^62, +-2^63, +-2^64 and
    multiples that reduce to them), small and huge denominators"""
    while True:
        num = gen_int(rng) * rng.choice([1, 1, 1, 2, 3, 6])
        den = rng.choice([2, 3, 5, 6, 7, 10, 12, (1 << 62) - 1, (1 << 62) + 1, (1 << 64) + 1, 3 ** 40, rng.getrandbits(rng.choice([3, 8, 62, 63, 70])) + 2])
        g = math.gcd(num, den)
        num, den = num // g, den // g
        if den != 1 and num != 0:
            return ('Q', num, den)


def gen_complex(rng, seeds):
    """rectangular complex: both parts exact (integers/ratios, imaginary part non-zero) or both inexact"""
    if rng.random() < 0.5:
        def part(nonzero):
            while True:
                x = gen_ratio(rng) if rng.random() < 0.5 else ('I', gen_int(rng))
                if not (nonzero and x == ('I', 0)):
                    return x
        return ('X', part(False), part(True))

    def fpart():
        return ('D', double_bits(rng, seeds) if rng.random() < 0.7 else rng.choice([0x7FF0000000000000, 0xFFF0000000000000, 0x7FF8000000000000, 0x8000000000000000, 0, 0x3FF0000000000000, 0xBFF0000000000000]))
    return ('X', fpart(), fpart())


def is_exact_qx(x):
    """a top-level exact ratio, or a complex number whose parts are exact (what C08/Numbers.v models)"""
    if x[0] == 'Q':
        return True
    return x[0] == 'X' and all(p[0] in 'IQ' for p in x[1:3]) and x[2] != ('I', 0)


def is_nan_bits(b):
    return ((b >> 52) & 0x7FF) == 0x7FF and (b & ((1 << 52) - 1)) != 0


def has(d, pred):
    if pred(d):
        return True
    if d[0] in 'PX':
        return has(d[1], pred) or has(d[2], pred)
    if d[0] == 'V':
        return any(has(x, pred) for x in d[1])
    return False


def gen_themed_atom(rng, seeds, theme):
    """atoms of one family: the token-boundary cases of the compound theorem (what follows a character, a bytevector,
    a string or a number inside lists / vectors / before a dotted tail)"""
    if theme == 'char':
        r = rng.random()
        if r < 0.75:
            # characters whose text ends in a character that matters to the tokenizer: ( ) ; " | space x . # digits, named, hex-written
            return ('C', rng.choice([40, 41, 59, 34, 124, 32, 120, 88, 46, 35, 92, 39, 96, 44, 48, 57, 97, 102, 0, 7, 8, 9, 10, 13, 27, 127, 1, 31, 128, 0xFF, 0x100,
                                     0xFFFF, 0x10000, 0x10FFFF, scalar(rng)]))
        return ('S', gen_string_bytes(rng)) if r < 0.9 else ('N',)
    if theme == 'bytes':
        r = rng.random()
        if r < 0.7:
            n = rng.choice([0, 1, 2, 3, 5, 8, 17])
            return ('B', bytes(rng.choice([0, 1, 9, 10, 15, 16, 127, 128, 160, 170, 171, 175, 186, 255, rng.randrange(256)]) for _ in range(n)))
        return ('I', rng.choice([0, 8, 255, 256, -1])) if r < 0.85 else ('C', scalar(rng))
    if theme == 'num':
        r = rng.random()
        if r < 0.45:
            return ('D', double_bits(rng, seeds))
        if r < 0.8:
            return ('I', gen_int(rng))
        return ('Y', rng.choice([b"e5", b"+", b"-", b"...", b"1+", b"+.a", b"-e", b"x10", b"inf.0", b"nan.0", b".e1"]))
    return gen_atom(rng, seeds)


def gen_tree(rng, seeds, depth, theme=None):
    atom = (lambda: gen_themed_atom(rng, seeds, theme)) if theme else (lambda: gen_atom(rng, seeds))
    if depth <= 0 or rng.random() < 0.35:
        return atom()
    r = rng.random()
    n = rng.choice([0, 1, 1, 2, 2, 3, 4])
    if r < 0.55:      # list, sometimes dotted (the tail may be any non-list datum, vectors included)
        t = rng.random()
        tail = ('N',) if t < 0.7 else atom() if t < 0.93 else ('V', [gen_tree(rng, seeds, depth - 1, theme) for _ in range(rng.choice([0, 1, 2]))])
        if n == 0:
            return tail
        d = tail
        for _ in range(n):
            d = ('P', gen_tree(rng, seeds, depth - 1, theme), d)
        return d
    return ('V', [gen_tree(rng, seeds, depth - 1, theme) for _ in range(n)])


# ----------------------------------------------------------------------------- running chibi
def run_scheme(d, forms, timeout=900, chunk=3000):
    """forms: list of (id, text of one top-level form).  Returns {id: [fields]}; a crash marks the next id."""
    res = {}
    prelude = open(PRELUDE).read()
    os.makedirs(B.SCRATCH, exist_ok=True)

    def run(part):
        with tempfile.NamedTemporaryFile("w", suffix=".scm", dir=B.SCRATCH, delete=False) as fh:
            fh.write(prelude + "\n" + "\n".join(f for _, f in part) + "\n(write-string \"DONE\")(newline)\n")
            path = fh.name
        try:
            try:
                r = B.run_chibi(d, [path], timeout=timeout, text=False)
                out, err, rc = r.stdout, r.stderr, r.returncode
            except subprocess.TimeoutExpired as e:
                out, err, rc = e.stdout or b"", b"", "TIMEOUT"
        finally:
            os.unlink(path)
        done = False
        for line in out.decode("utf-8", "replace").split("\n"):
            if line == "DONE":
                done = True
            elif line:
                f = line.split("\t")
                if f[0].isdigit():
                    res[int(f[0])] = f[1:]
        if not done:
            ids = [i for i, _ in part]
            missing = [i for i in ids if i not in res or len(res[i]) < 2]
            if missing:
                bad = missing[0]
                res[bad] = ["CRASH rc=%s %s" % (rc, err.decode("utf-8", "replace")[-300:].replace("\n", " | "))]
                k = ids.index(bad)
                if k + 1 < len(part):
                    run(part[k + 1:])
    for lo in range(0, len(forms), chunk):
        run(forms[lo:lo + chunk])
    return res


def bits_to_float(b):
    return struct.unpack("<d", struct.pack("<Q", b))[0]


def ulp_distance(a, b):
    def key(x):
        return x if x < (1 << 63) else -(x - (1 << 63))
    return abs(key(a) - key(b))


def compare(expected_tokens, got):
    """-> (ok, kind) kind: '' | 'nan' ok | 'flonum-near' | 'flonum-far' | 'other'"""
    if got == expected_tokens:
        return True, ""
    if got == expected_tokens + " !NE":
        return False, "not-equal"
    if got.endswith(" !NE"):
        got = got[:-4]
    e, g = expected_tokens.split(" "), got.split(" ")
    if len(e) != len(g):
        return False, "other"
    worst = ""
    for x, y in zip(e, g):
        if x == y:
            continue
        if x[0] == "D" and y[0] == "D":
            bx, by = int(x[1:], 16), int(y[1:], 16)
            nanx = ((bx >> 52) & 0x7FF) == 0x7FF and (bx & ((1 << 52) - 1))
            nany = ((by >> 52) & 0x7FF) == 0x7FF and (by & ((1 << 52) - 1))
            if nanx and nany:
                continue            # NaN payload/sign is not preserved by any textual syntax
            if nanx or nany:
                return False, "flonum-far"
            worst = "flonum-far" if (ulp_distance(bx, by) > 4 or worst == "flonum-far") else "flonum-near"
        else:
            return False, "other"
    return (worst == ""), worst


REPLAY_TMPL = ("cat > /tmp/c08-replay.scm <<'EOF'\n(import (rename (chibi) (write native-write) (read native-read)) (scheme base) (prefix (scheme write) r7:) (prefix (scheme read) r7:) (scheme bytevector))\n"
               "(define (flo bits) (let ((bv (make-bytevector 8 0))) (do ((i 0 (+ i 1)) (b bits (quotient b 256))) ((= i 8)) (bytevector-u8-set! bv i (remainder b 256))) (bytevector-ieee-double-native-ref bv 0)))\n"
               "(define x %s)\n(define o (open-output-string)) (%s x o) (define t (get-output-string o))\n(native-write t) (newline)\n"
               "(define y (%s (open-input-string t))) (native-write y) (newline) (native-write (equal? x y)) (newline)\nEOF\n"
               "chibi-scheme /tmp/c08-replay.scm   # the datum, its written text, what reads back, equal?")


def run(ctx):
    quick = not ctx.thorough
    n_trees = 6000 if quick else 40000
    n_floats = 6000 if quick else 100000
    n_chars = 600 if quick else 0          # thorough: every scalar value
    ctx.cov["rule"] = ("data trees (depth <= 6) over symbols from an alphabet biased to + - . # | \\ ' ` , @ digits e i n a f and number-like prefixes, "
                       "strings/chars at every UTF-8 width boundary and every escape class, fixnum/bignum boundary integers, doubles (boundary seeds, widened "
                       "half-precision patterns, subnormals, short decimals, random bit patterns), bytevectors, dotted lists, vectors; each datum is built without "
                       "the reader, written by native write and by (scheme write), each text read by native read and by (scheme read); the native text is "
                       "compared byte for byte with the extracted model writer; distinct by datum, non-trivial when the datum is not a boolean/null/small fixnum; "
                       "graphs with cycles/sharing through datum labels; mutated texts through model reader, native reader and (scheme read); round 3: char-, "
                       "bytevector- and number-heavy trees with vector tails after the dot; (scheme write) character text vs its model; the libc hypotheses of the "
                       "flonum theorem on every generated finite double; the compound theorem's instance (fuel height+2) on every modelled datum in the extracted "
                       "model; exact ratio/complex tokens (writer text + mutations) through the extracted read_num_token and the native reader; round 4: the text of (scheme write) "
                       "of every modelled datum vs the extracted model swrite of lib/srfi/38.scm's wr-one byte for byte, and the scheme_write_roundtrip / writers_agree "
                       "instances in the extracted model; escaped-chars of 38.scm and the constants of the reader's strtod path regenerated")
    # ------------------------------------------------------------------ (G)
    d = ctx.build("default")
    from gen import c08_tables
    c08_tables.regen(ctx, d)
    # round 4: the library writer's character-name table (lib/srfi/38.scm) and the constants of the reader's strtod path (sexp.c)
    from gen import c08_lib38
    c08_lib38.regen(ctx, d, getattr(ctx, "c08_char_names", []))
    # ------------------------------------------------------------------ (T)
    ctx.coq_obligations("Properties_C08")
    exe = ctx.extract("C08")
    if exe is None:
        return
    rng = ctx.rng
    seeds = float_seeds()
    data = []
    # corpus first
    if os.path.isdir(CORPUS):
        for fn in sorted(os.listdir(CORPUS)):
            if fn.endswith(".enc"):
                for line in open(os.path.join(CORPUS, fn)):
                    line = line.strip()
                    if line and not line.startswith("#"):
                        data.append(parse_enc(line.split(" "))[0])
    # directed: the known defect witnesses and every case-split boundary of the symbol predicate
    for s in [b".5", b"`a", b"+Inf.0", b"-INF.0", b"+I", b"-i", b"+i", b"+inf.0", b"-inf.0", b"+nan.0", b"+NaN.0", b"", b".", b"..", b"...", b"+", b"-", b"+a",
              b"-.", b"+.", b"+.5", b"1", b"1a", b"a1", b"+1", b"-1", b"a b", b"a|b", b"a\\b", b"#a", b"a#", b"'a", b",a", b",@a", b"`", b"a`b", b"@", b"{", b"}", b"[",
              b"]", b"a;b", b"\"", b"\x7f", b"\x00", b"a\x00b", "λ".encode(), "\U0001F600".encode(), b"+nan", b"-nanx", b"+na", b".5e3", b".e", b"-..", b"+e", b"1e5", b"e5"]:
        data.append(('Y', s))
    for c in WIDTH_EDGES + list(range(0, 160)):
        data.append(('C', c))
    # directed: exact rationals / complex numbers at the fixnum-bignum boundary (negation of 2^62 in the reader), bignum ratios as complex parts
    M = 1 << 62
    for num, den in [(-M, 3), (M, 3), (-M, 5), (-(1 << 63), 3), (-(M - 1), 2), (-(1 << 70), 3), (1 << 70, 7), (1, 3), (-1, 2), (M - 1, M + 1), (-(M + 1), M - 1)]:
        data.append(('Q', num, den))
    for re_, im_ in [(('Q', -(1 << 70), 3), ('I', 1)), (('I', 1), ('Q', -(1 << 70), 3)), (('Q', 1 << 70, 3), ('Q', 1 << 70, 7)), (('I', -M), ('I', 1)), (('I', 1), ('I', -M)),
                     (('Q', -M, 3), ('Q', -M, 5)), (('I', 0), ('I', -M)), (('I', 0), ('Q', -M, 3)), (('I', 1 << 64), ('I', -1)), (('I', 1), ('I', 1)), (('Q', 1, 2), ('Q', -3, 4)),
                     (('D', 0x3FF8000000000000), ('D', 0xC000000000000000)), (('D', 0x7FF0000000000000), ('D', 0xFFF0000000000000)), (('D', 0), ('D', 0x7FF0000000000000)),
                     (('D', 0x3FF0000000000000), ('D', 0x7FF8000000000000)), (('D', 0x7FF8000000000000), ('D', 0x3FF0000000000000)), (('D', 0x3FB999999999999A), ('D', 0x8000000000000000))]:
        data.append(('X', re_, im_))
    # round 4, directed: LONG lists / vectors / bytevectors / strings / symbols (loop bounds, the growth points of the reader's string and
    # symbol buffers: 128 * 2^k bytes with an escape or a multi-byte character across the boundary, string-port buffers) and deep nesting
    long_all = ctx.thorough or bool(os.environ.get("C08_DIRECTED_ALL"))     # the thorough tier's directed sizes in a quick run (for validation)
    def mk_list(items, tail=('N',)):
        for it in reversed(items):
            tail = ('P', it, tail)
        return tail
    for n in [15, 16, 17, 31, 32, 33, 63, 64, 65, 100, 127, 128, 129, 255, 256, 257] + ([600] if long_all else []):
        items = [('I', i) for i in range(n)]
        data.append(mk_list(items))
        data.append(mk_list(items, ('I', n)))
        data.append(('V', items))
        data.append(('V', [('C', 0x3BB + i) for i in range(n)]))
        data.append(('B', bytes(i % 256 for i in range(n))))
    for n in ([62, 63, 64, 123, 124, 125, 126, 127, 128, 129, 130, 252, 253, 254, 255, 256, 257, 510, 511, 512, 513, 1022, 1023, 1024, 1025] if not long_all else
              [60, 61, 62, 63, 64, 120, 121, 122, 123, 124, 125, 126, 127, 128, 129, 130, 250, 251, 252, 253, 254, 255, 256, 257, 508, 509, 510, 511, 512, 513,
               1020, 1021, 1022, 1023, 1024, 1025]) + ([2044, 2045, 2046, 2047, 2048, 2049, 4090, 4091, 4092, 4093, 4094, 4095, 4096, 4097, 8190, 8191, 8192, 8193] if long_all else []):
        data.append(('S', b"a" * n))
        data.append(('S', b"a" * (n - 1) + b"\n"))                    # an escape as the last character before the boundary
        data.append(('S', b"a" * (n - 2) + "\u20ac".encode("utf-8")))   # a 3-byte character across it
        data.append(('S', b"a" * (n - 1) + b"\x01" + b"b" * 5))        # \x1; across it
        data.append(('Y', b"s" * n))
        data.append(('Y', b"s" * (n - 1) + b"|" + b"t" * 3))           # barred, an escaped bar across it
        data.append(('Y', b"s" * (n - 2) + "\u03bb".encode("utf-8") + b"t"))
    for depth in [10, 50] + ([200] if long_all else []):
        a, v, m = ('I', 1), ('Y', b"x"), ('S', b"s")
        for k in range(depth):
            a = ('P', a, ('N',))
            v = ('V', [v])
            m = ('P', ('V', [m, ('C', 40 + k % 80)]), ('I', k)) if k % 2 else ('V', [('P', m, ('N',))])
        data += [a, v, m]
    for b in seeds:
        data.append(('D', b))
    for _ in range(n_chars):
        data.append(('C', scalar(rng)))
    for _ in range(n_floats):
        data.append(('D', double_bits(rng, seeds)))
    for _ in range(n_trees):
        data.append(gen_tree(rng, seeds, rng.choice([0, 0, 1, 2, 3, 6])))
    # char-heavy, bytevector-heavy and number-heavy trees: the token boundaries the compound theorem is about
    for _ in range(n_trees // 8):
        data.append(gen_tree(rng, seeds, rng.choice([1, 2, 3, 5]), rng.choice(['char', 'char', 'bytes', 'num'])))
    if ctx.thorough:
        for c in list(range(0, 0xD800)) + list(range(0xE000, 0x110000)):
            data.append(('C', c))
    check_trees(ctx, d, exe, data)
    check_graphs(ctx, d, 400 if quick else 10000, exe)
    check_label_texts(ctx, d, exe, 600 if quick else 20000)
    check_texts(ctx, d, exe, data, 3000 if quick else 15000)
    check_number_texts(ctx, d, exe, data, 500 if quick else 10000)
    big = (not quick) or bool(os.environ.get("C08_DIRECTED_ALL"))      # thorough volumes of the round-4 streams (also in a quick run, for validation)
    check_variant_texts(ctx, d, data, 10000 if big else 800)
    check_sread_texts(ctx, d, exe, data, 4000 if big else 300)
    ctx.assume("readers_agree_quoted_partial: the library reader works on characters (read-char / write-char on UTF-8 ports); its model passes bytes >= 0x80 "
               "outside an escape through unchanged, which is what decoding and re-encoding a valid UTF-8 sequence does (the port decoder is C12's subject); "
               "the (K) runs only feed valid UTF-8 texts")
    ctx.assume("hypotheses of flonum_roundtrip_given / datum_roundtrip_flonums (record libc_flonum, coq/C08/FloProofs.v): printf %.{15,16,17}lg of a finite double "
               "has the shape [-]digits[.digits][e(+|-)digits] with '-' iff the sign bit is set and an integer part that (double)long + %.0f reproduce; sscanf %lg "
               "agrees with strtod on such texts; strtod(-u) = -strtod(u) and strtod(u) has the sign bit clear; strtod is a function of the decimal number denoted "
               "(digits e k vs w.fr e+dd); strtod(printf %.17lg x) = x.  Each is tested on every generated finite double with the libc behind the OCaml driver (request flohyp)")
    ctx.assume("sscanf(\"%lg\") and strtod are both instantiated by OCaml's float_of_string in the driver; glibc's snprintf/strtod in chibi itself")
    ctx.assume("C locale (LC_NUMERIC); the writer's locale patching (sexp.c:2265-2280) is outside the model")
    ctx.assume("nesting depth below SEXP_DEFAULT_WRITE_BOUND (10000); ports/buffering, fold-case mode and non-default feature flags are outside the model")


def parse_enc(toks):
    t = toks[0]
    k, a = t[0], t[1:]
    if k == 'I':
        return ('I', int(a, 16)), toks[1:]
    if k == 'D':
        return ('D', int(a, 16)), toks[1:]
    if k == 'C':
        return ('C', int(a, 16)), toks[1:]
    if k in 'SYB':
        return (k, bytes.fromhex(a)), toks[1:]
    if k in 'TFN':
        return (k,), toks[1:]
    if k == 'Q':
        n, dd = a.split("/")
        return ('Q', int(n, 16), int(dd, 16)), toks[1:]
    if k == 'X':
        x, r = parse_enc(toks[1:])
        y, r = parse_enc(r)
        return ('X', x, y), r
    if k == 'P':
        x, r = parse_enc(toks[1:])
        y, r = parse_enc(r)
        return ('P', x, y), r
    if k == 'V':
        out, r = [], toks[1:]
        for _ in range(int(a)):
            x, r = parse_enc(r)
            out.append(x)
        return ('V', out), r
    raise ValueError(t)


def trivial(dt):
    return dt[0] in 'TFN' or (dt[0] == 'I' and abs(dt[1]) < 10)


NAN_COMPLEX_SIG = "native-write:complex:nan-part-unreadable"


def _known_sigs():
    import json
    try:
        kf = json.load(open(os.path.join(HERE, "..", "known_findings.json")))
        return {f["sig"] for f in kf.get("findings", []) if f.get("property") == "C08"}
    except Exception:
        return set()


def check_trees(ctx, d, exe, data):
    encs = [enc(x) for x in data]
    # ratios and complex numbers are outside the model writer (bignum.c / sexp_write_one's SEXP_RATIO, SEXP_COMPLEX arms): (K outer) only
    modelled = [not has(x, lambda t: t[0] in 'QX') for x in data]
    mt = ctx.run_model(exe, ["write " + e for e, m in zip(encs, modelled) if m])
    it = iter(mt)
    model_text = [next(it) if m else None for m in modelled]
    known = _known_sigs()
    # (K inner, round 3) the model of (scheme write)'s character arm; the hypotheses of flonum_roundtrip_given on this libc, one
    # finite double at a time; the compound theorem's instance on every modelled datum (model reader with fuel height+2 on the
    # model writer's text followed by ")")
    # round 4: the model of the WHOLE library writer (C08/Model4.v swrite = lib/srfi/38.scm wr-one on a tree) on every modelled datum
    sw_idx = [i for i, m in enumerate(modelled) if m]
    swrite_text = dict(zip(sw_idx, ctx.run_model(exe, ["swrite " + encs[i] for i in sw_idx])))
    flo_idx = [i for i, x in enumerate(data) if x[0] == 'D' and ((x[1] >> 52) & 0x7FF) != 0x7FF]
    for i, a in zip(flo_idx, ctx.run_model(exe, ["flohyp " + encs[i] for i in flo_idx])):
        if a != "OK":
            ctx.broken("hypothesis:libc_flonum:" + a.split(" ")[1] if a.startswith("FAIL ") else "hypothesis:libc_flonum",
                       "a hypothesis of flonum_roundtrip_given does not hold for this libc on double %s: %s" % (encs[i], a))
            break
    # exact ratios / exact complex numbers at token level (C08/Numbers.v): model text of write_xnum vs sexp_write_one
    num_idx = [i for i, x in enumerate(data) if is_exact_qx(x)]
    num_text = dict(zip(num_idx, ctx.run_model(exe, ["nwrite " + encs[i] for i in num_idx])))
    rt_idx = [i for i, m in enumerate(modelled) if m]
    for i, a in zip(rt_idx, ctx.run_model(exe, ["rt " + encs[i] for i in rt_idx])):
        if a != "OK":
            ctx.broken("model:compound-roundtrip", "extracted model reader does not read back the model writer's text of %s: %s" % (encs[i], a))
            break
    nan_complex_seen = 0
    forms = [(i, "(verif-case %d %s)" % (i, scm(x))) for i, x in enumerate(data)]
    out = run_scheme(d, forms)
    names = ["native-write->native-read", "native-write->scheme-read", "scheme-write->native-read", "scheme-write->scheme-read"]
    sampled = 0
    for i, x in enumerate(data):
        ctx.count(1, key=encs[i], nontrivial=not trivial(x))
        f = out.get(i)
        cls = klass(x)
        rp = lambda w, r: REPLAY_TMPL % (scm(x), w, r)
        if f is None or len(f) < 7:
            ctx.violation("harness:%s:%s" % ("crash" if f and f[0].startswith("CRASH") else "no-answer", cls), input=encs[i], expected="a result line",
                          observed=(f[0] if f else None), replay=rp("native-write", "native-read"))
            continue
        t1, r11, r12, t2, r21, r22, xe = f[:7]
        ctx.cov["traces_validated_against_impl"] += 1
        want = encs[i]
        if xe != encs[i]:
            if not modelled[i] and has(x, lambda t: t[0] == 'X'):
                want = xe        # make-rectangular may collapse (inexact zero imaginary part ...): the datum as built is the reference
            else:
                # the datum built by the harness is not the one we meant (e.g. utf8->string or integer->char differ): not a C08 matter
                ctx.broken("harness:datum-construction", "datum built in Scheme differs from the intended one: %s vs %s" % (encs[i], xe))
                continue
        results = [r11, r12, r21, r22]
        if has(x, lambda t: t[0] == 'D' and is_nan_bits(t[1])):
            results = [r[:-4] if r.endswith(" !NE") else r for r in results]     # NaN is not equal? to itself
            if has(x, lambda t: t[0] == 'X' and any(p[0] == 'D' and is_nan_bits(p[1]) for p in t[1:3])):
                # a complex number with a NaN part has no readable external representation (writer emits 1++nan.0i, the reader has
                # no syntax for NaN parts): recorded finding, see notes/C08.md
                if not all(compare(want, r)[0] for r in results):
                    nan_complex_seen += 1
                    if NAN_COMPLEX_SIG in known:
                        ctx.violation(NAN_COMPLEX_SIG, input=encs[i], scheme=scm(x), written_text=_txt(t1), observed=r11, replay=rp("native-write", "native-read"))
                continue
        verdicts = [compare(want, r) for r in results]
        # ---- writer: model text vs native text
        if model_text[i] is not None and model_text[i] != t1:
            if verdicts[0][0] and verdicts[1][0]:
                ctx.broken("correspondence:writer:" + cls, "model writer and sexp_write_one differ but the text still reads back: datum %s model=%s impl=%s" % (encs[i], model_text[i], t1))
            else:
                ctx.violation("native-write:%s" % cls, input=encs[i], scheme=scm(x), expected_text_hex=model_text[i], observed_text_hex=t1,
                              read_back=r11, replay=rp("native-write", "native-read"))
                continue
        # ---- exact ratios / complex: model text of write_xnum vs native text
        if i in num_text and num_text[i] != t1 and xe == encs[i]:
            if verdicts[0][0] and verdicts[1][0]:
                ctx.broken("correspondence:writer:" + cls, "model write_xnum and sexp_write_one differ but the text still reads back: datum %s model=%s impl=%s" % (encs[i], num_text[i], t1))
            else:
                ctx.violation("native-write:%s" % cls, input=encs[i], scheme=scm(x), expected_text_hex=num_text[i], observed_text_hex=t1,
                              read_back=r11, replay=rp("native-write", "native-read"))
                continue
        # ---- library writer, characters: model text of lib/srfi/38.scm's character arm vs (scheme write)
        if i in swrite_text and swrite_text[i] != t2:
            if verdicts[2][0] and verdicts[3][0]:
                ctx.broken("correspondence:scheme-writer:" + cls, "model of (scheme write) (lib/srfi/38.scm wr-one) and the library differ but the text still reads back: "
                           "datum %s model=%s impl=%s" % (encs[i], swrite_text[i], t2))
            else:
                ctx.violation("scheme-write:%s" % cls, input=encs[i], scheme=scm(x), expected_text_hex=swrite_text[i], observed_text_hex=t2,
                              read_back=r21, replay=rp("r7:write", "native-read"))
                continue
        # ---- the four round trips
        for nm, r, (ok, kind), w, rd in zip(names, results, verdicts, ["native-write", "native-write", "r7:write", "r7:write"],
                                             ["native-read", "r7:read", "native-read", "r7:read"]):
            if ok:
                continue
            bad = [l for l in leaves(x)]
            lc = cls if cls not in ("pair", "vector") else "nested"
            if kind.startswith("flonum"):
                sig = "%s:flonum:%s" % (nm, "off-by-few-ulp" if kind == "flonum-near" else "wrong-value")
            elif kind == "not-equal":
                sig = "%s:%s:same-value-not-equal?" % (nm, lc)
            else:
                sig = "%s:%s" % (nm, lc)
            ctx.violation(sig, input=encs[i], scheme=scm(x), written_text=bytes.fromhex(t1 if w == "native-write" else t2).decode("utf-8", "replace") if "ERR" not in (t1, t2) else "ERR",
                          expected=want, observed=r, replay=rp(w, rd))
        if sampled < 6 and not trivial(x) and i % 997 == 0:
            sampled += 1
            ctx.sample(dict(datum=encs[i], native_text=bytes.fromhex(t1).decode("utf-8", "replace"), model_text_equal=(model_text[i] == t1), read_back=r11))
    if nan_complex_seen and NAN_COMPLEX_SIG not in known:
        ctx.note("recorded finding (proposed known_findings.json entry, sig %s): %d generated complex numbers with a NaN part have no readable external representation "
                 "(e.g. (make-rectangular 1 +nan.0) is written 1++nan.0i; neither reader has a syntax for NaN parts); not reported as a violation until the entry exists" % (NAN_COMPLEX_SIG, nan_complex_seen))


# ----------------------------------------------------------------------------- graphs with sharing / cycles (datum labels)
def gen_graph(rng, seeds):
    """-> (scheme let*-expression building the graph, expected graph encoding).  Nodes n0..nk are pairs or
    vectors whose slots hold atoms or references to any node (forward, backward or itself)."""
    k = rng.choice([1, 1, 2, 2, 3, 4, 6])
    kinds = [rng.choice("PPV") for _ in range(k)]
    sizes = [2 if kinds[i] == "P" else rng.choice([1, 2, 3]) for i in range(k)]
    slots = []
    for i in range(k):
        row = []
        for j in range(sizes[i]):
            if rng.random() < 0.55:
                row.append(("n", rng.randrange(k)))
            else:
                a = gen_atom(rng, seeds)
                while has(a, lambda t: t[0] == 'D' and is_nan_bits(t[1])):     # NaN (also as a complex part: recorded finding) is kept to the tree stream
                    a = gen_atom(rng, seeds)
                row.append(("a", a))
        slots.append(row)
    lines = []
    for i in range(k):
        lines.append("(n%d %s)" % (i, "(cons #f #f)" if kinds[i] == "P" else "(make-vector %d #f)" % sizes[i]))
    sets = []
    for i in range(k):
        for j, sl in enumerate(slots[i]):
            v = "n%d" % sl[1] if sl[0] == "n" else scm(sl[1])
            if kinds[i] == "P":
                sets.append("(%s n%d %s)" % ("set-car!" if j == 0 else "set-cdr!", i, v))
            else:
                sets.append("(vector-set! n%d %d %s)" % (i, j, v))
    expr = "(let* (%s) %s n0)" % (" ".join(lines), " ".join(sets))
    # expected encoding: DFS from n0, numbering nodes at first visit
    seen, out = {}, []

    def walk(i):
        if i in seen:
            out.append("R%d" % seen[i])
            return
        seen[i] = len(seen)
        out.append("P" if kinds[i] == "P" else "V%d" % sizes[i])
        for sl in slots[i]:
            if sl[0] == "n":
                walk(sl[1])
            else:
                out.append(enc(sl[1]))
    walk(0)
    cyclic_only_ok = None
    return expr, " ".join(out)


# ---- graphs with MANY labels (the reader's label table: 24 slots, doubled at 24, 48, 96, ...)
LABEL_COUNTS = [0, 1, 2, 3, 7, 15, 16, 17, 21, 22, 23, 24, 25, 26, 27, 30, 40, 45, 46, 47, 48, 49, 50, 51, 60, 93, 94, 95, 96, 97, 98, 99, 101, 130, 190, 191, 192, 193, 194, 210]


def graph_normal_form(kinds, slots):
    """what write-with-shared-structure does: count visits (extract-shared-objects), then the depth-first walk that numbers the
    shared nodes at their first visit.  -> (first-visit encoding for the harness, wire form D<n>/R<n>/P/V<n>/A<k>/N for the model
    writer or None when an atom is not a small natural, number of labels)"""
    import sys
    sys.setrecursionlimit(max(sys.getrecursionlimit(), 20000))
    visits = {}

    def find(i):
        visits[i] = visits.get(i, 0) + 1
        if visits[i] > 1:
            return
        for sl in slots[i]:
            if sl[0] == "n":
                find(sl[1])
    find(0)
    seen, out = {}, []

    def walk(i):
        if i in seen:
            out.append("R%d" % seen[i])
            return
        seen[i] = len(seen)
        out.append("P" if kinds[i] == "P" else "V%d" % len(slots[i]))
        for sl in slots[i]:
            if sl[0] == "n":
                walk(sl[1])
            else:
                out.append(enc(sl[1]))
    walk(0)
    label, wire, simple = {}, [], [True]

    def atom(a):
        if a[0] == 'I' and 0 <= a[1] < 10 ** 9:
            wire.append("A%d" % a[1])
        elif a[0] == 'N':
            wire.append("N")
        else:
            simple[0] = False
            wire.append("A0")

    def emit(i):
        if i in label:
            wire.append("R%d" % label[i])
            return
        if visits[i] > 1:
            label[i] = len(label)
            wire.append("D%d" % label[i])
        wire.append("P" if kinds[i] == "P" else "V%d" % len(slots[i]))
        for sl in slots[i]:
            if sl[0] == "n":
                emit(sl[1])
            else:
                atom(sl[1])
    emit(0)
    return " ".join(out), (" ".join(wire) if simple[0] else None), len(label)


def graph_expr(kinds, slots):
    k = len(kinds)
    lines = ["(n%d %s)" % (i, "(cons #f #f)" if kinds[i] == "P" else "(make-vector %d #f)" % len(slots[i])) for i in range(k)]
    sets = []
    for i in range(k):
        for j, sl in enumerate(slots[i]):
            v = "n%d" % sl[1] if sl[0] == "n" else scm(sl[1])
            if kinds[i] == "P":
                sets.append("(%s n%d %s)" % ("set-car!" if j == 0 else "set-cdr!", i, v))
            else:
                sets.append("(vector-set! n%d %d %s)" % (i, j, v))
    return "(let* (%s) %s n0)" % (" ".join(lines), " ".join(sets))


def gen_label_graph(rng, shape, k):
    """graphs whose written form has about k labels, with references to every label after all later ones are defined"""
    A = lambda z: ("a", ('I', z))
    if k == 0:
        return ["V"], [[A(1), A(2)]]
    kinds, slots = ["V"], [[]]
    if shape == "flat":        # #(#0=(1) #1=(2) ... #0# #1# ...): leaves labelled, references after all definitions
        for i in range(1, k + 1):
            kinds.append("P")
            slots.append([A(i), ("a", ('N',))])
        order = list(range(1, k + 1))
        how = rng.choice(["fwd", "rev", "rnd"])
        if how == "rev":
            order.reverse()
        elif how == "rnd":
            rng.shuffle(order)
        slots[0] = [("n", i) for i in range(1, k + 1)] + [("n", i) for i in order]
    elif shape == "interleaved":   # a reference to an earlier label after each definition, then the last labels again
        row = []
        for i in range(1, k + 1):
            kinds.append(rng.choice("PV"))
            slots.append([A(i), ("a", ('N',))] if kinds[-1] == "P" else [A(i)])
            row.append(("n", i))
            row.append(("n", rng.choice([i, max(1, i - 1), rng.randrange(1, i + 1)])))
        row += [("n", i) for i in range(1, k + 1) if rng.random() < 0.5 or i >= k - 2]
        slots[0] = row
    elif shape == "nested":    # #(#0=(#1=(#2=(... . #2#) . #0#) . #0#) #0# #1# ...): definitions open while later ones are made
        for i in range(1, k + 1):
            kinds.append("P")
            nxt = ("n", i + 1) if i < k else A(0)
            back = ("n", rng.choice([i, i, rng.randrange(1, i + 1), 1]))
            slots.append([nxt, back])
        slots[0] = [("n", 1)] + [("n", i) for i in range(1, k + 1)]
    elif shape == "tails":     # shared list tails inside shared list tails: (0 . #0=(1 . #1=(2 ...)))
        for i in range(1, k + 2):
            kinds.append("P")
            slots.append([A(i), ("n", i + 1) if i < k + 1 else ("a", ('N',))])
        order = list(range(1, k + 2))
        if rng.random() < 0.5:
            rng.shuffle(order)
        slots[0] = [("n", i) for i in order]
    return kinds, slots


def gen_label_text(rng):
    """token list of a text with datum labels made directly (not by a writer): gaps in the numbering (the reader accepts a new
    label up to 16 above the highest one seen), references to undefined / open / closed labels, self references, labels on atoms,
    around the growth boundaries of the label table.  -> (tokens, writer_form)"""
    k = rng.choice(LABEL_COUNTS[:32])
    lab = rng.choice([0, 0, 0, 0, 1, 5, 15, 16, 17])
    writer_form = (lab == 0)
    toks, defined = ["#("], []
    for i in range(k):
        r = rng.random()
        if r < 0.55:
            toks += ["#%d=" % lab, "(", str(i), ")"]
        elif r < 0.7:
            toks += ["#%d=" % lab, "#(", str(i), "#%d#" % lab, ")"]
        elif r < 0.8:
            toks += ["#%d=" % lab, "(", str(i), ".", "#%d#" % rng.choice(defined + [lab]), ")"]
        elif r < 0.86:
            toks += ["#%d=" % lab, str(i)]
            writer_form = False
        elif r < 0.9 and defined:
            toks += ["#%d=" % lab, "#%d#" % rng.choice(defined)]
            writer_form = False
        elif r < 0.92:
            toks += ["#%d=" % lab, "#%d#" % lab]
            writer_form = False
        else:
            toks += ["#%d=" % lab, "(", "#%d=" % (lab + 1), "(", str(i), "#%d#" % lab, ")", "#%d#" % (lab + 1), ")"]
            defined.append(lab)
            lab += 1
        defined.append(lab)
        if rng.random() < 0.35:
            toks.append("#%d#" % rng.choice(defined))
        if rng.random() < 0.03:
            toks.append("#%d#" % rng.choice([lab + 1, lab + 2, 22, 23, 24, 46, 47, 48, 95, 96, 500]))
            writer_form = writer_form and toks[-1] in ["#%d#" % x for x in defined]
        g = 1 if rng.random() < 0.85 else rng.choice([2, 3, 8, 15, 16, 17, 18, 30, 100, 500])
        if g != 1:
            writer_form = False
        lab += g
    for x in (defined if rng.random() < 0.7 else defined[-3:]):
        toks.append("#%d#" % x)
    toks.append(")")
    return toks, writer_form


def render_tokens(toks):
    out = []
    for t in toks:
        if out and not (out[-1].endswith("=") or out[-1].endswith("(")) and t != ")":
            out.append(" ")
        out.append(t)
    return "".join(out)


def check_label_texts(ctx, d, exe, n):
    rng = ctx.rng
    cases = [gen_label_text(rng) for _ in range(n)]
    model = ctx.run_model(exe, ["lread " + " ".join(t) for t, _ in cases])
    texts = [render_tokens(t).encode() for t, _ in cases]
    out = run_scheme(d, [(i, '(verif-text %d "%s")' % (i, t.hex())) for i, t in enumerate(texts)])
    for i, (toks, wf) in enumerate(cases):
        ctx.count(1, key=("label-text", texts[i]), nontrivial=True)
        f, m = out.get(i), model[i]
        rp = "printf '%%s' '%s' | xxd -r -p > /tmp/c08-text; chibi-scheme -p '(call-with-input-file \"/tmp/c08-text\" read)'   # model reader: %s" % (texts[i].hex(), m)
        if f is None or len(f) < 2:
            ctx.violation("labels:reader-%s" % ("crash" if f and f[0].startswith("CRASH") else "no-answer"), input=texts[i].decode(), observed=(f[0] if f else None), replay=rp)
            continue
        ctx.cov["traces_validated_against_impl"] += 1
        if m.startswith("ERR Unmodelled") or m.startswith("ERR OutOfFuel") or m.startswith("ERR enc"):
            continue
        mm = "ERR" if m.startswith("ERR") else ("TRAIL" if m.endswith(" TRAIL") else m)
        if mm != f[0]:
            if wf:
                # a text in the form write-shared emits (labels 0,1,2,... in order, references to labels already met): the round trip is at stake
                ctx.violation("labels:native-read:writer-form-text", input=texts[i].decode(), expected=mm, observed=f[0], replay=rp)
            else:
                ctx.violation("labels:native-read:label-table", input=texts[i].decode(), expected=mm, observed=f[0], replay=rp)
        elif wf and mm not in ("ERR", "TRAIL") and f[1] != f[0]:
            ctx.violation("labels:readers-disagree:writer-form-text", input=texts[i].decode(), expected=f[0], observed=f[1], replay=rp)


def check_graphs(ctx, d, n, exe=None):
    rng = ctx.rng
    seeds = float_seeds()
    cases = [gen_graph(rng, seeds) + (None,) for _ in range(n)]
    # many labels, every growth boundary of the reader's table
    many = []
    counts = LABEL_COUNTS if not ctx.thorough else LABEL_COUNTS + [rng.randrange(0, 260) for _ in range(200)] + [383, 384, 385, 386, 500]
    for k in counts:
        for shape in ("flat", "interleaved", "nested", "tails"):
            kinds, slots = gen_label_graph(rng, shape, k)
            want, wire, nl = graph_normal_form(kinds, slots)
            many.append((graph_expr(kinds, slots), want, wire))
    cases[:0] = many
    # classic shapes first
    cases[:0] = [("(let* ((n0 (list 1 2 3))) (set-cdr! (cddr n0) n0) n0)", "P I1 P I2 P I3 R0"),
                 ("(let* ((n0 (vector 1 #f))) (vector-set! n0 1 n0) n0)", "V2 I1 R0"),
                 ("(let* ((n1 (list 1)) (n0 (list n1 n1))) n0)", "P P I1 N P R1 N"),
                 ("(let* ((n0 (cons #f #f))) (set-car! n0 n0) (set-cdr! n0 n0) n0)", "P R0 R0")]
    cases = [c if len(c) == 3 else c + (None,) for c in cases]
    wires = [c[2] for c in cases]
    model_texts = {}
    if exe is not None:
        idx = [i for i, w in enumerate(wires) if w is not None]
        for i, t in zip(idx, ctx.run_model(exe, ["lwrite " + wires[i] for i in idx])):
            model_texts[i] = t
    forms = [(i, "(verif-graph %d %s)" % (i, e)) for i, (e, _, _) in enumerate(cases)]
    out = run_scheme(d, forms)
    for i, (e, want, _) in enumerate(cases):
        ctx.count(1, key=("graph", want), nontrivial=True)
        f = out.get(i)
        rp = ("cat > /tmp/c08-replay.scm <<'EOF'\n(import (scheme base) (scheme write) (scheme read) (srfi 38))\n(define x %s)\n(define o (open-output-string)) (write/ss x o) (define t (get-output-string o))\n"
              "(write-string t) (newline) (write/ss (read/ss (open-input-string t))) (newline)\nEOF\nchibi-scheme /tmp/c08-replay.scm   # the two lines must show the same graph") % e
        if f is None or len(f) < 7:
            ctx.violation("labels:harness-%s" % ("crash" if f and f[0].startswith("CRASH") else "no-answer"), input=e, observed=(f[0] if f else None), replay=rp)
            continue
        t1, r11, r12, t2, r21, r22, xe = f[:7]
        ctx.cov["traces_validated_against_impl"] += 1
        if xe != want:
            ctx.broken("harness:graph-construction", "graph built in Scheme differs from the intended one: %s vs %s" % (want, xe))
            continue
        # the srfi 38 text must be the model writer's text for the graph's normal form (label assignment, spacing, dotted labelled tails)
        if wires[i] is not None and model_texts.get(i) is not None and _txt(t1) != model_texts[i]:
            ok_back = compare(want, r11)[0] and compare(want, r12)[0]
            if ok_back:
                ctx.broken("correspondence:write-shared", "model writer and write-shared differ but the text reads back: %s: model %r impl %r" % (e[:200], model_texts[i][:300], _txt(t1)[:300]))
            else:
                ctx.violation("labels:write-shared-text", input=e, expected_text=model_texts[i], written_text=_txt(t1), read_back=r11, replay=rp)
                continue
        # write-shared labels every shared node: the graph must come back isomorphic through both readers
        for nm, r in (("write-shared->native-read", r11), ("write-shared->scheme-read", r12)):
            ok, kind = compare(want, r)
            if not ok:
                ctx.violation("labels:%s" % nm, input=e, expected=want, observed=r, written_text=_txt(t1), replay=rp)
        # (scheme write) write labels cycles only: reading back gives a graph that *unfolds* to the same tree;
        # compare when the written text has labels exactly where write-shared has them (then it is the same text)
        if t2 == t1:
            for nm, r in (("write->native-read", r21), ("write->scheme-read", r22)):
                ok, kind = compare(want, r)
                if not ok:
                    ctx.violation("labels:%s" % nm, input=e, expected=want, observed=r, written_text=_txt(t2), replay=rp)
        else:
            # fewer labels: the two readers must at least agree with each other on it
            if r21 != r22 and "ERR" not in (r21, r22):
                ctx.violation("labels:readers-disagree", input=e, expected=r22, observed=r21, written_text=_txt(t2), replay=rp)
            if "ERR" in (r21, r22) or "TRAIL" in (r21, r22):
                ctx.violation("labels:write-cyclic-only-unreadable", input=e, expected="a datum", observed="%s / %s" % (r21, r22), written_text=_txt(t2), replay=rp)
    ctx.sample(dict(kind="graph", build=cases[0][0], encoding=cases[0][1]))


def _txt(h):
    try:
        return bytes.fromhex(h).decode("utf-8", "replace")
    except ValueError:
        return h


# ----------------------------------------------------------------------------- mutated texts: three readers on the same bytes
import re as _re
_BIG_MANTISSA = _re.compile(rb"[0-9]{18,}[eE]")


def check_texts(ctx, d, exe, data, n):
    rng = ctx.rng
    pool = [x for x in data if not trivial(x) and not has(x, lambda t: t[0] in 'QX')]
    base = ctx.run_model(exe, ["write " + enc(x) for x in rng.sample(pool, min(len(pool), n // 3 + 1))])
    texts = []
    alphabet = b" ()#\\|\".;'`,@+-eE0123456789xaif\n"
    for h in base:
        t = bytearray(bytes.fromhex(h))
        if len(t) > 60 or not t:
            continue
        for _ in range(3):
            u = bytearray(t)
            for _ in range(rng.choice([1, 1, 2])):
                op = rng.random()
                pos = rng.randrange(len(u) + 1)
                if op < 0.4 and u:
                    u[min(pos, len(u) - 1)] = rng.choice(alphabet)
                elif op < 0.7:
                    u.insert(pos, rng.choice(alphabet))
                elif u:
                    del u[min(pos, len(u) - 1)]
            try:
                u.decode("utf-8")
            except UnicodeDecodeError:
                continue
            if b"#;" in u or b"#|" in u or b"#!" in u:
                continue
            if _BIG_MANTISSA.search(bytes(u)):
                continue      # sexp_read_bignum's exponent arm (exact result, see notes r2): outside the model, never written
            texts.append(bytes(u))
    texts = sorted(set(texts))[:n]
    model = ctx.run_model(exe, ["read " + t.hex() for t in texts])
    forms = [(i, '(verif-text %d "%s")' % (i, t.hex())) for i, t in enumerate(texts)]
    out = run_scheme(d, forms)
    for i, t in enumerate(texts):
        m = model[i]
        f = out.get(i)
        ctx.count(1, key=("text", t), nontrivial=True)
        rp = "printf '%%s' '%s' | xxd -r -p > /tmp/c08-text; chibi-scheme -e '(import (chibi io) (scheme read))' -p '(call-with-input-file \"/tmp/c08-text\" read)'" % t.hex()
        if f is None or len(f) < 2:
            ctx.violation("text:reader-%s" % ("crash" if f and f[0].startswith("CRASH") else "no-answer"), input=t.hex(), text=t.decode("utf-8", "replace"), observed=(f[0] if f else None), replay=rp)
            continue
        nat, r7 = f[0], f[1]
        ctx.cov["traces_validated_against_impl"] += 1
        if m.startswith("ERR Unmodelled") or m.startswith("ERR OutOfFuel"):
            continue      # outside the model: nothing claimed
        mm = "ERR" if (m.startswith("ERR") or m == "EOF") else ("TRAIL" if m.endswith(" TRAIL") else m)
        ok, kind = compare(mm, nat) if mm not in ("ERR", "TRAIL") else (mm == nat, "other")
        if not ok:
            # model reader and native reader differ on this text: is the text one the model writer can produce?
            # (then the round trip is at stake) otherwise only the correspondence is
            ctx.broken("correspondence:reader", "model reader and sexp_read_raw differ on text %r (hex %s): model=%s native=%s" % (t.decode("utf-8", "replace"), t.hex(), m, nat))
    ctx.note("mutated texts: the model reader is compared with the native reader only ((scheme read) differs from it on malformed input by design: error kinds, .5 inside lists, #\\x names); %d texts" % len(texts))


# ----------------------------------------------------------------------------- round 4: other spellings of the same datum (R7RS 7.1), both readers
PLAIN_SYM = _re.compile(rb"^[a-z!$%&*/:<=>?^_~][a-z0-9!$%&*/:<=>?^_~+.@-]*$")
CHAR_NAMES_R7RS = {7: "alarm", 8: "backspace", 127: "delete", 27: "escape", 10: "newline", 0: "null", 13: "return", 32: "space", 9: "tab"}
STR_MNEMONIC = {7: "\\a", 8: "\\b", 9: "\\t", 10: "\\n", 13: "\\r", 34: "\\\"", 92: "\\\\", 124: "\\|"}


def variant_text(rng, d, feats):
    """another R7RS external representation of the datum d (None when d has a leaf this writer does not spell).  The value every
    reader must produce is d itself: the oracle is R7RS section 7.1 / 2.x, not either implementation."""
    def ws(must):
        r = rng.random()
        if r < 0.55:
            return " " if must else ""
        if r < 0.7:
            feats.add("spaces"); return rng.choice(["  ", "\t", "\n", " \n ", "\r\n"])
        if r < 0.8:
            feats.add("line-comment"); return " ; c ) \" | #\n"
        if r < 0.9:
            feats.add("block-comment"); return " #| x #| y |# ) |# "       # '#' is not a delimiter: a space before it
        feats.add("datum-comment"); return " #;(1 . \"a\") "
    def hexs(n):
        h = "%x" % n
        r = rng.random()
        if r < 0.3:
            h = h.upper(); feats.add("hex-upper")
        elif r < 0.45:
            h = "00" + h; feats.add("hex-leading-zeros")
        return h
    def chars_of(bs):
        try:
            return [ord(c) for c in bytes(bs).decode("utf-8")]
        except UnicodeDecodeError:
            return None
    def delimited(cps, q):
        out = []
        for c in cps:
            r = rng.random()
            if q == '"' and c not in (32, 9) and rng.random() < 0.08:
                # \<intraline white space><line ending><intraline white space> stands for nothing (R7RS 6.7); the next character is not white space
                feats.add("line-continuation"); out.append(rng.choice(["\\\n", "\\ \t\n   ", "\\\n\t "]))
            if c in STR_MNEMONIC and not (q == "|" and c in (34, 92)) and (c in (34, 92, 124) and r < 0.6 or r < 0.4):     # R7RS: no \\ or \" inside |...|
                out.append(STR_MNEMONIC[c]); feats.add("mnemonic-escape")
            elif r < 0.25 or c == 92 or c == ord(q) or c < 32 or c == 127:
                out.append("\\x%s;" % hexs(c)); feats.add("hex-escape")
            else:
                out.append(chr(c))
        return q + "".join(out) + q
    k = d[0]
    if k == 'T':
        feats.add("long-boolean"); return rng.choice(["#t", "#true"])
    if k == 'F':
        feats.add("long-boolean"); return rng.choice(["#f", "#false"])
    if k == 'N':
        return "(" + ws(False) + ")"
    if k == 'I':
        n, r = d[1], rng.random()
        sg = "-" if n < 0 else ("+" if rng.random() < 0.3 else "")
        if r < 0.4:
            return sg + "%d" % abs(n)
        if r < 0.55:
            feats.add("#d"); return "#d" + sg + "%d" % abs(n)
        if r < 0.75:
            feats.add("#x"); return "#x" + sg + hexs(abs(n))
        if r < 0.85:
            feats.add("#b"); return "#b" + sg + bin(abs(n))[2:]
        if r < 0.93:
            feats.add("#o"); return "#o" + sg + oct(abs(n))[2:]
        feats.add("#e"); return "#e" + sg + "%d" % abs(n)
    if k == 'C':
        c, r = d[1], rng.random()
        if c in CHAR_NAMES_R7RS and r < 0.5:
            feats.add("char-name"); return "#\\" + CHAR_NAMES_R7RS[c]
        if (r < 0.75 and (c > 32 and c != 127)) and not (0xD800 <= c < 0xE000):
            feats.add("char-raw"); return "#\\" + chr(c)
        feats.add("char-hex"); return "#\\x" + hexs(c)
    if k == 'S':
        cps = chars_of(d[1])
        return None if cps is None else delimited(cps, '"')
    if k == 'Y':
        cps = chars_of(d[1])
        if cps is None:
            return None
        if PLAIN_SYM.match(bytes(d[1])) and rng.random() < 0.5:
            return bytes(d[1]).decode()
        feats.add("bar-symbol"); return delimited(cps, "|")
    if k == 'B':
        def el(b):
            r = rng.random()
            if r < 0.5:
                return "%d" % b
            if r < 0.8:
                return "#x" + hexs(b)
            return rng.choice(["#d%d" % b, "#b" + bin(b)[2:], "#o" + oct(b)[2:], "+%d" % b])
        return "#u8(" + ws(False) + "".join(el(b) + ws(True) for b in d[1]) + ")"
    if k == 'V':
        items = [variant_text(rng, x, feats) for x in d[1]]
        if any(i is None for i in items):
            return None
        return "#(" + ws(False) + "".join(i + ws(True) for i in items) + ")"
    if k == 'P':
        if d[1] == ('Y', b"quote") and d[2][0] == 'P' and d[2][2] == ('N',) and rng.random() < 0.7:
            inner = variant_text(rng, d[2][1], feats)
            feats.add("quote-abbreviation")
            return None if inner is None else "'" + inner
        items, t = [], d
        while t[0] == 'P' and (not items or rng.random() < 0.85):
            items.append(variant_text(rng, t[1], feats)); t = t[2]
        if any(i is None for i in items):
            return None
        body = "(" + ws(False) + "".join(i + ws(True) for i in items)
        if t == ('N',) and rng.random() < 0.8:
            return body + ")"
        tail = variant_text(rng, t, feats)       # also (a . (b c)) and (a . ())
        if tail is None:
            return None
        if t[0] in 'PN':
            feats.add("dot-before-list")
        return body + ". " + ws(False) + tail + ws(False) + ")"
    return None


def check_variant_texts(ctx, d, data, n):
    """(K outer, spec oracle) 'the native reader and (scheme read) accept the same texts and yield equal data' beyond the texts the
    two writers emit: other R7RS spellings of generated data (long booleans, radix / exactness prefixes, explicit +, character
    names / raw / x-hex with upper case and leading zeros, string and |symbol| hex and mnemonic escapes, white space, line / block /
    datum comments between tokens, a dot before a list tail, 'x) must read as that datum in BOTH readers."""
    rng = ctx.rng
    pool = [x for x in data if not has(x, lambda t: t[0] in 'DQX')]
    directed = [('P', ('Y', b"quote"), ('P', ('Y', b"a"), ('N',))), ('T',), ('F',), ('P', ('T',), ('P', ('F',), ('N',))), ('V', [('T',), ('F',)]),
                ('C', 120), ('C', 88), ('C', 0x41), ('C', 0x3BB), ('C', 0x10FFFF), ('C', 32), ('C', 127), ('S', b"a\nb\tc\\d\"e|"), ('Y', b"a b|c\\d"), ('Y', b""),
                ('B', bytes([0, 1, 127, 128, 255])), ('I', 0), ('I', -1), ('I', 255), ('I', 1 << 62), ('I', -(1 << 62)), ('I', (1 << 64) + 1), ('I', -(1 << 70)),
                ('P', ('I', 1), ('P', ('I', 2), ('I', 3))), ('P', ('C', 40), ('P', ('C', 41), ('P', ('C', 59), ('N',)))),
                # every UTF-8 width boundary inside a string / a symbol (hex escapes are re-encoded by the native reader: sexp_read_string)
                ('S', "\x7f\x80\u07ff\u0800\uffff\U00010000\U0010ffff".encode("utf-8")), ('Y', "\x7f\x80\u07ff\u0800\uffff\U00010000\U0010ffff".encode("utf-8")),
                ('S', "\x80".encode("utf-8")), ('S', "\u0800".encode("utf-8")), ('S', "\U00010000".encode("utf-8")), ('Y', "\x80".encode("utf-8"))]
    cases, seen = [], set()
    for x in directed * 6 + [rng.choice(pool) for _ in range(n)]:
        feats = set()
        t = variant_text(rng, x, feats)
        if t is None or len(t) > 400:
            continue
        tb = t.encode("utf-8")
        if tb in seen:
            continue
        seen.add(tb)
        cases.append((x, tb, feats))
    out = run_scheme(d, [(i, '(verif-text %d "%s")' % (i, tb.hex())) for i, (_, tb, _) in enumerate(cases)])
    for i, (x, tb, feats) in enumerate(cases):
        ctx.count(1, key=("variant", tb), nontrivial=not trivial(x))
        f = out.get(i)
        rp = ("printf '%%s' '%s' | xxd -r -p > /tmp/c08-text; chibi-scheme -e '(import (chibi io))' -p '(call-with-input-file \"/tmp/c08-text\" read)'; "
              "chibi-scheme -e '(import (chibi io) (scheme read))' -p '(call-with-input-file \"/tmp/c08-text\" read)'   # expected both: %s" % (tb.hex(), scm(x)))
        if f is None or len(f) < 2:
            ctx.violation("variant-text:reader-%s" % ("crash" if f and f[0].startswith("CRASH") else "no-answer"), input=tb.hex(), text=tb.decode("utf-8", "replace"),
                          observed=(f[0] if f else None), replay=rp)
            continue
        ctx.cov["traces_validated_against_impl"] += 1
        lc = klass(x) if klass(x) not in ("pair", "vector") else "nested"
        for who, got in (("native-read", f[0]), ("scheme-read", f[1])):
            if not compare(enc(x), got)[0]:
                ctx.violation("variant-text:%s:%s" % (who, lc), input=tb.hex(), text=tb.decode("utf-8", "replace"), features=sorted(feats), expected=enc(x), observed=got,
                              other_reader=(f[1] if who == "native-read" else f[0]), replay=rp)


# ----------------------------------------------------------------------------- round 4: the library reader's string / |symbol| arm (C08/SRead.v) vs (scheme read)
def check_sread_texts(ctx, d, exe, data, n):
    """(K inner) extracted sread_quoted (model of lib/srfi/38.scm read-delimited / read-escape-sequence / read-number 16) against
    (scheme read) on (1) the native writer's text of generated strings and symbols that need bars, (2) other spellings of them (hex and
    mnemonic escapes), (3) synthetic quoted texts over an alphabet aimed at the case split of the model: every escape letter, x / X,
    label characters (digits, a-f, A-F, i, + -), one or two '/' and '@', '#' at the start of the digits, missing ';', empty digits,
    values at 0x7F/0x80, the surrogate range and 0x10FFFF/0x110000, the other quote character, a terminal missing."""
    rng = ctx.rng
    texts, origin = [], {}
    pool = [x for x in data if x[0] in 'SY']
    for x in (pool if len(pool) <= n else rng.sample(pool, n)):
        try:
            bytes(x[1]).decode("utf-8")
        except UnicodeDecodeError:
            continue
        for _ in range(2):
            t = variant_text(rng, x, set())
            if t is not None and t[:1] in ('"', '|') and "\\\n" not in t:
                texts.append(t.encode("utf-8"))
    pieces = ["a", "\\", "\"", "|", "\\x", "\\X", ";", "0", "4", "1", "b", "f", "F", "g", "i", "+", "-", "/", "@", "#", "\\n", "\\t", "\\a", "\\b", "\\r", " ", "e", "λ",
              "\\x41;", "\\x7f;", "\\x80;", "\\x7ff;", "\\x800;", "\\xd7ff;", "\\xd800;", "\\xdfff;", "\\xe000;", "\\xffff;", "\\x10000;", "\\x10ffff;", "\\x110000;", "\\x;",
              "\\x#x41;", "\\x4/1;", "\\x4/1/2;", "\\x4@1;", "\\x+41;", "\\x-1;", "\\xi;", "\\x41", "\\x41 ;", "\\\\", "\\\"", "\\|", "\\q", "\\(", "\;"]
    for _ in range(n):
        q = rng.choice(['"', '"', '|'])
        body = "".join(rng.choice(pieces) for _ in range(rng.choice([1, 2, 3, 5, 8])))
        texts.append((q + body + (q if rng.random() < 0.9 else "")).encode("utf-8"))
    # the character arm (C08/SReadChar.v): the native writer's text of generated characters, other spellings, synthetic #\... texts
    cpool = [x for x in data if x[0] == 'C']
    csample = cpool if len(cpool) <= n else rng.sample(cpool, n)
    for h in ctx.run_model(exe, ["write " + enc(x) for x in csample]):
        texts.append(bytes.fromhex(h))
    for x in csample:
        t = variant_text(rng, x, set())
        if t is not None:
            texts.append(t.encode("utf-8"))
    cpieces = ["x", "X", "4", "1", "f", "F", "g", "a", "l", "r", "m", " ", "\n", "(", ")", ";", "\"", "|", "{", "}", "+", "-", "/", "i", "#", "\\", "λ", "alarm", "ALARM", "Space", "nul",
               "null", "newline", "NewLine", "tab", "x41", "X41", "x110000", "x10ffff", "xd7ff", "xd800", "xdfff", "xe000", "x0", "x00041", "xg", "x4g", "delete", "del", "escape", "return", "backspace", "altmode", "linefeed"]
    for _ in range(n):
        texts.append(("#\\" + "".join(rng.choice(cpieces) for _ in range(rng.choice([1, 1, 2, 3])))).encode("utf-8"))
    texts = sorted(set(texts))
    model = ctx.run_model(exe, ["sreadq " + t.hex() for t in texts])
    out = run_scheme(d, [(i, '(verif-text %d "%s")' % (i, t.hex())) for i, t in enumerate(texts)])
    compared = 0
    for i, t in enumerate(texts):
        m, f = model[i], out.get(i)
        ctx.count(1, key=("sread", t), nontrivial=True)
        rp = "printf '%%s' '%s' | xxd -r -p > /tmp/c08-text; chibi-scheme -e '(import (chibi io) (scheme read))' -p '(call-with-input-file \"/tmp/c08-text\" read)'" % t.hex()
        if f is None or len(f) < 2:
            ctx.violation("sread-text:reader-%s" % ("crash" if f and f[0].startswith("CRASH") else "no-answer"), input=t.hex(), text=t.decode("utf-8", "replace"),
                          observed=(f[0] if f else None), replay=rp)
            continue
        ctx.cov["traces_validated_against_impl"] += 1
        if m.startswith("ERR Unmodelled"):
            continue
        compared += 1
        mm = "ERR" if m.startswith("ERR") else ("TRAIL" if m.endswith(" TRAIL") else m)
        if mm != f[1]:
            ctx.broken("correspondence:scheme-reader:" + ("char" if t[:2] == b"#\\" else "quoted"), "model sread_atom (lib/srfi/38.scm read-delimited / #\\ arm) and (scheme read) differ on text %r (hex %s): model=%s library=%s native=%s"
                       % (t.decode("utf-8", "replace"), t.hex(), m, f[1], f[0]))
    ctx.note("library reader's string / |symbol| / character arms: %d texts, %d inside the model" % (len(texts), compared))


# ----------------------------------------------------------------------------- exact number tokens: model of sexp_read_number's ratio / complex arms vs native reader
def check_number_texts(ctx, d, exe, data, n):
    """(K inner) texts of exact ratios / exact complex numbers / integers as written by the model (write_xnum) and 1-2 edit
    mutations of them over the alphabet of numeric tokens, through the extracted read_num_token (C08/Numbers.v) and the native
    reader.  Mantissas are kept below the fixnum range in the mutated texts: sexp_read_bignum has its own copies of the '/' and
    complex tails (abstracted to one code path in the model); the unmutated writer texts include bignum-sized parts."""
    rng = ctx.rng
    pool = sorted({enc(x) for x in data if is_exact_qx(x)})
    small = []
    for _ in range(n // 4):
        def part():
            z = rng.choice([0, 1, -1, 2, 3, 10, -7, 12, 255, rng.randrange(-10 ** 6, 10 ** 6), (1 << 61) + rng.randrange(100)])
            if rng.random() < 0.4:
                dn = rng.choice([2, 3, 7, 10, 12, 100, 9973])
                g = math.gcd(z, dn)
                if dn // g != 1:
                    return ('Q', z // g, dn // g)
            return ('I', z)
        im = part()
        small.append(enc(('X', part(), im)) if im != ('I', 0) and rng.random() < 0.7 else enc(part()))
    base = pool[:] if len(pool) <= n // 4 else rng.sample(pool, n // 4)
    exact = ctx.run_model(exe, ["nwrite " + e for e in base + small])
    texts = set()
    alphabet = b"+-/i0123456789 )"
    for k, h in enumerate(exact):
        t = bytes.fromhex(h)
        texts.add(t)
        if k < len(base):
            continue          # bignum-sized parts: only the writer's own text
        for _ in range(3):
            u = bytearray(t)
            for _ in range(rng.choice([1, 1, 2])):
                op = rng.random()
                pos = rng.randrange(len(u) + 1)
                if op < 0.4 and u:
                    u[min(pos, len(u) - 1)] = rng.choice(alphabet)
                elif op < 0.75:
                    u.insert(pos, rng.choice(alphabet))
                elif len(u) > 1:
                    del u[min(pos, len(u) - 1)]
            if _re.search(rb"[0-9]{18,}", bytes(u)):
                continue
            texts.add(bytes(u))
    texts = sorted(texts)[:n]
    model = ctx.run_model(exe, ["nread " + t.hex() for t in texts])
    forms = [(i, '(verif-text %d "%s")' % (i, t.hex())) for i, t in enumerate(texts)]
    out = run_scheme(d, forms)
    compared = 0
    for i, t in enumerate(texts):
        m = model[i]
        f = out.get(i)
        ctx.count(1, key=("numtext", t), nontrivial=True)
        rp = "printf '%%s' '%s' | xxd -r -p > /tmp/c08-text; chibi-scheme -e '(import (chibi io))' -p '(call-with-input-file \"/tmp/c08-text\" read)'" % t.hex()
        if f is None or len(f) < 2:
            ctx.violation("numtext:reader-%s" % ("crash" if f and f[0].startswith("CRASH") else "no-answer"), input=t.hex(), text=t.decode("utf-8", "replace"), observed=(f[0] if f else None), replay=rp)
            continue
        nat = f[0]
        ctx.cov["traces_validated_against_impl"] += 1
        if m.startswith("ERR Unmodelled") or m.startswith("ERR OutOfFuel"):
            continue
        compared += 1
        mm = "ERR" if m.startswith("ERR") else ("TRAIL" if m.endswith(" TRAIL") else m)
        ok, kind = compare(mm, nat) if mm not in ("ERR", "TRAIL") else (mm == nat, "other")
        if not ok:
            if t in {bytes.fromhex(h) for h in exact}:
                # a text the writer emits for an exact number does not read back as that number
                ctx.violation("native-read:exact-number-token", input=t.hex(), text=t.decode("utf-8", "replace"), expected=m, observed=nat, replay=rp)
            else:
                ctx.broken("correspondence:number-reader", "model read_num_token and sexp_read_number differ on text %r: model=%s native=%s" % (t.decode("utf-8", "replace"), m, nat))
    ctx.note("exact number tokens: %d texts, %d inside the model of sexp_read_number's ratio/complex arms" % (len(texts), compared))
