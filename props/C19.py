"""C19 — codec libraries invert each other and are total on hostile input.
   (T) coq/Properties_C19.v
   (K-outer) the Scheme API of (chibi base64), (chibi quoted-printable), (chibi uri), (chibi json),
   (scheme bytevector) vs the extracted Gallina models, byte for byte, plus decode(encode x) = x on the
   implementation itself and an independent Python oracle used to judge disagreements;
   (hostile) mutated encodings under the asan build: a value or a Scheme error, never a crash / hang."""
import base64 as pyb64, os, subprocess, sys
sys.setrecursionlimit(20000)
from vlib import build as B, scm

IMPORTS = "(import (chibi base64) (scheme bytevector) (chibi json) (chibi quoted-printable) (chibi uri))"

PRELUDE = r"""
(define (hexval c) (let ((i (char->integer c))) (if (< i 58) (- i 48) (- i 87))))
(define (hx s)   ; hex string -> bytevector ("_" = empty); linear time (string ports, no indexing)
  (if (equal? s "_") (bytevector)
      (let ((in (open-input-string s)) (out (open-output-bytevector)))
        (let lp ()
          (let ((a (read-char in)))
            (if (eof-object? a) (get-output-bytevector out)
                (let ((b (read-char in)))
                  (write-u8 (+ (* 16 (hexval a)) (hexval b)) out)
                  (lp))))))))
(define hexdigits "0123456789abcdef")
(define (xh bv)  ; bytevector -> symbol x<hex> (_ when empty); anything else -> the symbol not-a-bytevector
  (cond ((not (bytevector? bv)) 'not-a-bytevector)
        ((zero? (bytevector-length bv)) '_)
        (else
         (let ((n (bytevector-length bv)) (out (open-output-string)))
           (write-char #\x out)
           (do ((i 0 (+ i 1))) ((= i n) (string->symbol (get-output-string out)))
             (let ((b (bytevector-u8-ref bv i)))
               (write-char (string-ref hexdigits (quotient b 16)) out)
               (write-char (string-ref hexdigits (remainder b 16)) out)))))))
(define (cps . l) (list->string (map integer->char l)))
(define (join-semi ls) (if (null? ls) "" (let lp ((ls (cdr ls)) (acc (car ls))) (if (null? ls) acc (lp (cdr ls) (string-append acc ";" (car ls)))))))
(define (bvhex bv) (let ((s (symbol->string (xh bv)))) (if (equal? s "_") s (substring s 1 (string-length s)))))
(define (jshow v)
  (cond ((eq? v 'null) "n") ((eq? v #t) "t") ((eq? v #f) "f")
        ((and (number? v) (exact? v) (integer? v)) (string-append "i" (number->string v 16)))
        ((number? v) "d")
        ((string? v) (string-append "s" (bvhex (string->utf8 v))))
        ((symbol? v) (string-append "s" (bvhex (string->utf8 (symbol->string v)))))
        ((vector? v) (string-append "a(" (join-semi (map jshow (vector->list v))) ")"))
        ((null? v) "o()")
        ((pair? v) (string-append "o(" (join-semi (map (lambda (kv) (if (pair? kv) (string-append (jshow (car kv)) "=" (jshow (cdr kv))) "?")) v)) ")"))
        (else "?")))
(define (jread-hex h) (string->symbol (string-append "V" (jshow (string->json (utf8->string (hx h)))))))
"""


def _bigstack():
    import resource
    soft, hard = resource.getrlimit(resource.RLIMIT_STACK)
    want = 1 << 30
    if hard != resource.RLIM_INFINITY:
        want = min(want, hard)
    resource.setrlimit(resource.RLIMIT_STACK, (want, hard))


def run_model(exe, lines, timeout=1200):
    """like ctx.run_model, but the extracted (non tail recursive) list functions get a 1 GB stack;
    the implementation under test keeps the default limit"""
    r = subprocess.run([exe], input="\n".join(lines) + "\n", capture_output=True, text=True, timeout=timeout, preexec_fn=_bigstack)
    if r.returncode != 0:
        raise RuntimeError("model driver failed: " + r.stderr[-2000:])
    return r.stdout.split("\n")[:-1] if r.stdout.endswith("\n") else r.stdout.split("\n")


def hexs(bs):
    return bs.hex() if bs else "_"


def xs(bs):
    """how the Scheme helper xh shows a bytevector (a symbol: x + hex digits, _ when empty)"""
    return "x" + bs.hex() if bs else "_"


def mx(m):
    """model hex answer -> the xh form"""
    return m if m == "_" else "x" + m


def unhex(s):
    return b"" if s == "_" else bytes.fromhex(s)


def bad(impl):
    return impl is None or impl.startswith("CRASH") or impl == "TIMEOUT"


# ------------------------------------------------------------------------------------------ generators
def byte_strings(rng, thorough):
    """every length 0..100, then seeded lengths up to 4096 covering all classes mod 3 and mod 4; all byte values"""
    out = [bytes(range(256)), bytes(range(255, -1, -1))]
    for n in range(0, 101):
        out.append(bytes(rng.getrandbits(8) for _ in range(n)))
    for n in (1, 2, 3, 4, 5, 6, 7):
        out.append(b"\x00" * n)
        out.append(b"\xff" * n)
    big = [4096, 4095, 4094, 4093, 3072, 3073, 2048, 2049, 1000, 255, 256, 257, 513, 766, 767, 768]
    for _ in range(24 if not thorough else 400):
        big.append(rng.randrange(101, 4097))
    for n in big:
        mode = rng.random()
        if mode < 0.6:
            out.append(bytes(rng.getrandbits(8) for _ in range(n)))
        elif mode < 0.8:     # text-like
            out.append(bytes(rng.choice(b"abcXYZ 019=?_\r\n\t.,;") for _ in range(n)))
        else:                # few distinct values, long runs
            a, b = rng.getrandbits(8), rng.getrandbits(8)
            out.append(bytes(rng.choice((a, a, a, b)) for _ in range(n)))
    return out


def mutate(rng, enc, alphabet):
    """hostile variants of an encoding: bit flips, truncation, bad padding, junk insertion, duplication"""
    b = bytearray(enc)
    k = rng.randrange(7)
    if k == 0 and b:
        for _ in range(rng.randrange(1, 4)):
            b[rng.randrange(len(b))] ^= 1 << rng.randrange(8)
    elif k == 1 and b:
        del b[rng.randrange(len(b)):]
    elif k == 2:
        pos = rng.randrange(len(b) + 1)
        b[pos:pos] = bytes(rng.choice(alphabet) for _ in range(rng.randrange(1, 4)))
    elif k == 3:
        pos = rng.randrange(len(b) + 1)
        b[pos:pos] = bytes(rng.getrandbits(8) for _ in range(rng.randrange(1, 5)))
    elif k == 4 and b:
        pos = rng.randrange(len(b))
        del b[pos:pos + rng.randrange(1, 4)]
    elif k == 5:
        b += bytes(rng.choice(alphabet) for _ in range(rng.randrange(1, 3)))
    else:
        b = bytearray(rng.getrandbits(8) for _ in range(rng.randrange(0, 40)))
    return bytes(b)


# ------------------------------------------------------------------------------------------ base64
B64_OUTSIDE = bytes(c for c in range(256) if c not in b"ABCDEFGHIJKLMNOPQRSTUVWXYZabcdefghijklmnopqrstuvwxyz0123456789+/-_~=")


def check_base64(ctx, d, exe, strings):
    rng = ctx.rng
    # ---- encoder: implementation = model byte for byte; decoder(encoder x) = x on the implementation
    exprs, reqs = [], []
    for bs in strings:
        exprs.append('(let* ((x (hx "%s")) (e (base64-encode-bytevector x))) (list (xh e) (xh (base64-decode-bytevector e))))' % hexs(bs))
        reqs.append("b64enc " + hexs(bs))
    mo = run_model(exe, reqs)
    io = scm.run_cases(d, exprs, prelude_extra=PRELUDE, imports=IMPORTS, timeout=150, chunk=1000)
    encs = []
    for bs, m, i in zip(strings, mo, io):
        ctx.count(1, key=("b64enc", bs), nontrivial=len(bs) > 0)
        want = "(%s %s)" % (mx(m), xs(bs))
        encs.append(unhex(m))
        if i != want:
            ref = xs(pyb64.b64encode(bs))
            rp = "echo '(import (scheme base) (scheme write) (chibi base64)) (let ((e (base64-encode-bytevector (bytevector %s)))) (write e) (write (base64-decode-bytevector e)))' | chibi-scheme /dev/stdin" % " ".join(map(str, bs))
            if bad(i) or not i.startswith("(") or i.split()[0][1:] != ref or i.split()[1][:-1] != xs(bs):
                ctx.violation("base64:encode-roundtrip:len%%3=%d" % (len(bs) % 3), input=hexs(bs), expected=want, observed=i,
                              oracle_rfc4648=ref, replay=rp)
            else:
                ctx.broken("correspondence:base64-encode", "model and implementation differ but the implementation is right: %s model=%s impl=%s" % (hexs(bs), m, i))
    ctx.sample(dict(kind="base64-encode", input=hexs(strings[5]), model=mo[5], impl=io[5]))
    # ---- decoder on valid text with outside characters interleaved, and on hostile text
    texts, kinds = [], []
    for e in encs:
        if rng.random() < 0.5:
            t = bytearray()
            for j, c in enumerate(e):
                if rng.random() < 0.08:
                    t += bytes(rng.choice(B64_OUTSIDE) for _ in range(rng.randrange(1, 3)))
                if j and j % 76 == 0:
                    t += b"\r\n"
                t.append(c)
            texts.append(bytes(t)); kinds.append("interleaved")
        texts.append(mutate(rng, e[:rng.choice([4, 8, 12, 40, len(e)])], b"AZaz09+/=-_~ \n")); kinds.append("hostile")
    for t in (b"A", b"AA", b"AAA", b"AAAA", b"AAAAA", b"=", b"A=", b"AA=", b"AAA=", b"AA==", b"AA==AA", b"====", b"A===", b"\xff\xfe", b"QQ=Q", b"QUJD\nRA=="):
        texts.append(t); kinds.append("boundary")
    exprs = ['(xh (base64-decode-bytevector (hx "%s")))' % hexs(t) for t in texts]
    reqs = ["b64dec " + hexs(t) for t in texts]
    mo = run_model(exe, reqs)
    io = scm.run_cases(d, exprs, prelude_extra=PRELUDE, imports=IMPORTS, timeout=150, chunk=1000)
    for t, k, m, i in zip(texts, kinds, mo, io):
        ctx.count(1, key=("b64dec", t), nontrivial=True)
        if i != mx(m):
            rp = "echo '(import (scheme base) (scheme write) (chibi base64)) (write (base64-decode-bytevector (bytevector %s)))' | chibi-scheme /dev/stdin" % " ".join(map(str, t))
            if bad(i) or i.startswith("ERR") or i == "not-a-bytevector":
                ctx.violation("base64:decode-not-total", input=hexs(t), kind=k, expected=m, observed=i, replay=rp)
            else:
                # oracle: strip everything outside the (liberal) alphabet, cut at the first '=', RFC 4648 on whole quanta
                ctx.violation("base64:decode-" + k, input=hexs(t), kind=k, expected=m, observed=i, replay=rp,
                              why="decoder output differs from the proved model (leftover sextets / skipped characters / padding)")
    ctx.sample(dict(kind="base64-decode", input=hexs(texts[0]), model=mo[0], impl=io[0]))


# ------------------------------------------------------------------------------------------ quoted-printable
def qp_lines_ok(enc):
    return all(len(l) <= 76 for l in enc.split(b"\r\n")) and all(33 <= c <= 126 or c in (13, 10) for c in enc)


def check_qp(ctx, d, exe, strings):
    import quopri
    rng = ctx.rng
    # long runs of bytes that need escaping put the soft breaks at every column class
    extra = [bytes([255]) * n for n in (23, 24, 25, 26, 49, 50, 73, 74, 75, 76, 77)] + [b"a" * n for n in (72, 73, 74, 75, 76, 77, 146, 147, 148)] \
        + [b"a" * k + b"\xff" * 3 + b"b" * 80 for k in range(68, 77)] + [b"=" * 30, b"?_" * 40, b" \t" * 40, b"\r\n" * 30]
    cases = [(bs, 0) for bs in strings + extra] + [(bs, col) for bs in extra[:6] + strings[3:12] for col in (1, 5, 72, 73, 75)]
    exprs, reqs = [], []
    for bs, col in cases:
        exprs.append('(let* ((x (hx "%s")) (e (quoted-printable-encode-bytevector x %d))) (list (xh e) (xh (quoted-printable-decode-bytevector e))))' % (hexs(bs), col))
        reqs.append("qpenc %d %s" % (col, hexs(bs)))
    mo = run_model(exe, reqs)
    io = scm.run_cases(d, exprs, prelude_extra=PRELUDE, imports=IMPORTS, timeout=150, chunk=1000)
    encs = []
    for (bs, col), m, i in zip(cases, mo, io):
        ctx.count(1, key=("qpenc", col, bs), nontrivial=len(bs) > 0)
        encs.append(unhex(m))
        want = "(%s %s)" % (mx(m), xs(bs))
        if i != want:
            rp = "echo '(import (scheme base) (scheme write) (chibi quoted-printable)) (let ((e (quoted-printable-encode-bytevector (bytevector %s) %d))) (write (utf8->string e)) (write (quoted-printable-decode-bytevector e)))' | chibi-scheme /dev/stdin" % (" ".join(map(str, bs[:400])), col)
            f = i[1:-1].split(" ") if (i and i.startswith("(") and not bad(i)) else None
            if f and len(f) == 2 and f[0] not in ("not-a-bytevector",):
                enc = unhex(f[0][1:] if f[0] != "_" else "_")
                lines_ok = qp_lines_ok(enc)
                back_ok = f[1] == xs(bs)
                rfc_ok = quopri.decodestring(enc) == bs
                if lines_ok and back_ok and rfc_ok:
                    ctx.broken("correspondence:qp-encode", "model and implementation differ but the implementation is right: %s" % hexs(bs)[:200])
                    continue
                why = ",".join(w for w, ok in (("line>76-or-bad-char", lines_ok), ("decode(encode)!=id", back_ok), ("not-rfc2045", rfc_ok)) if not ok)
            else:
                why = "no-result"
            ctx.violation("qp:encode:" + why + (":start-col" if col else ""), input=hexs(bs)[:2000], start_col=col, expected=want[:2000], observed=(i or "")[:2000], replay=rp)
    ctx.sample(dict(kind="qp-encode", input=hexs(cases[len(strings) + 3][0]), model=mo[len(strings) + 3], impl=io[len(strings) + 3]))
    # decoder: hostile text
    texts = [b"a=", b"a=4", b"a=41", b"=", b"==", b"=\n", b"=\r\n", b"a=\nb", b"a=\r\nb", b"a=\rb", b"a =\r\n b", b"a ", b"a \t", b"a \nb", b"a \r\nb", b"a \rb", b"a b", b"a_b", b"=zz", b"=4z", b"=a1", b"=A1x",
             b" ", b"\t\t", b"x=\r", b"x=3D=", b"=3D=3D", b"=\n=\n", b"  \r"]
    for e in encs[:200 if not ctx.thorough else 2000]:
        texts.append(mutate(rng, e[:rng.choice([6, 20, 80, len(e)])], b"=0123456789ABCDEFabcdef \t\r\n_?"))
    exprs = ['(xh (quoted-printable-decode-bytevector (hx "%s")))' % hexs(t) for t in texts]
    reqs = ["qpdec " + hexs(t) for t in texts]
    mo = run_model(exe, reqs)
    io = scm.run_cases(d, exprs, prelude_extra=PRELUDE, imports=IMPORTS, timeout=150, chunk=1000)
    for t, m, i in zip(texts, mo, io):
        ctx.count(1, key=("qpdec", t), nontrivial=True)
        rp = "echo '(import (scheme base) (scheme write) (chibi quoted-printable)) (write (quoted-printable-decode-bytevector (bytevector %s)))' | chibi-scheme /dev/stdin" % " ".join(map(str, t[:400]))
        if bad(i):
            ctx.violation("qp:decode-crash", input=hexs(t), expected=m, observed=i, replay=rp)
        elif m == "N":
            if not (i == "not-a-bytevector" or i.startswith("ERR")):
                ctx.violation("qp:decode-value-where-model-has-none", input=hexs(t), expected="no bytevector (the loop falls off its cond)", observed=i, replay=rp)
        elif i != mx(m[2:]):
            ctx.violation("qp:decode-value", input=hexs(t), expected=m, observed=i, replay=rp)
    ctx.sample(dict(kind="qp-decode", input=hexs(texts[7]), model=mo[7], impl=io[7]))


# ------------------------------------------------------------------------------------------ URI escaping
URI_CPS = list(range(0, 0x80)) + [0x80, 0xa0, 0xa7, 0xd7, 0xe9, 0xf7, 0xff] + [0x3bb, 0x4e2d, 0x663, 0x10400]     # ASCII, Latin-1, letters/digits above
URI_BAD = [0x20ac, 0x2028, 0x3000, 0x100 + 0x7e, 0x1f600, 0xffff]                                                # not alphanumeric, >= U+0100


def cps_utf8(cps):
    return "".join(map(chr, cps)).encode("utf-8", "surrogatepass")


def cpl(cps):
    return ",".join("%x" % c for c in cps) if cps else "_"


def check_uri(ctx, d, exe):
    rng = ctx.rng
    # which non-ASCII characters does the implementation's uri-safe-char? let through (Unicode tables: a parameter of the theorem)
    probe = [c for c in URI_CPS + URI_BAD if c >= 128]
    io = scm.run_cases(d, ['(let ((s (cps %d))) (if (equal? (uri-encode s) s) 1 0))' % c for c in probe], prelude_extra=PRELUDE, imports=IMPORTS)
    ext = [c for c, i in zip(probe, io) if i == "f1"]
    strs = [[c] for c in URI_CPS + URI_BAD] + [[37, 50, 53], [43], [32], [97, 32, 43, 37], list(range(0x20, 0x7f))]
    for _ in range(150 if not ctx.thorough else 5000):
        pool = URI_CPS if rng.random() < 0.8 else URI_CPS + URI_BAD
        strs.append([rng.choice(pool) if rng.random() < 0.7 else rng.choice(b"az09-_.!~*'() %+/?&=#") for _ in range(rng.randrange(0, 12))])
    cases = [(s, plus) for s in strs for plus in (False, True)]
    exprs = ['(let* ((s (cps %s)) (e (uri-encode s %s)) (b (uri-decode e %s))) (list (xh (string->utf8 e)) (xh (string->utf8 b))))' % (" ".join(map(str, s)), "#t" if p else "#f", "#t" if p else "#f") for s, p in cases]
    reqs = ["urienc %d %s %s" % (p, cpl(ext), cpl(s)) for s, p in cases]
    mo = run_model(exe, reqs)
    io = scm.run_cases(d, exprs, prelude_extra=PRELUDE, imports=IMPORTS, timeout=150, chunk=1000)
    encs = []
    for (s, p), m, i in zip(cases, mo, io):
        ctx.count(1, key=("urienc", p, tuple(s)), nontrivial=len(s) > 0)
        menc = [] if m == "_" else [int(x, 16) for x in m.split(",")]
        encs.append(menc)
        above = [c for c in s if c >= 256 and c not in ext]
        want = "(%s %s)" % (xs(cps_utf8(menc)), xs(cps_utf8(s)))
        if i == want:
            continue
        rp = "echo '(import (scheme base) (scheme write) (chibi uri)) (let ((e (uri-encode (list->string (map integer->char (list %s))) %s))) (write e) (write (uri-decode e %s)))' | chibi-scheme /dev/stdin" % (" ".join(map(str, s)), "#t" if p else "#f", "#t" if p else "#f")
        f = i[1:-1].split(" ") if (i and i.startswith("(") and not bad(i) and not i.startswith("(ERR")) else None
        if f and len(f) == 2 and f[0] == xs(cps_utf8(menc)) and above:
            # encoder = model; the round trip fails exactly as uri_roundtrip_refuted says
            ctx.violation("uri:roundtrip:unsafe-char-above-latin1", input=cpl(s), plus=p, expected=want, observed=i, replay=rp)
        elif f and len(f) == 2 and f[1] == xs(cps_utf8(s)):
            ctx.broken("correspondence:uri-encode", "model and implementation differ on the escaped text but the round trip holds: %s model=%s impl=%s" % (cpl(s), m, i))
        else:
            ctx.violation("uri:roundtrip:" + ("plus" if p else "plain"), input=cpl(s), plus=p, expected=want, observed=i, replay=rp)
    ctx.sample(dict(kind="uri", input=cpl(cases[70][0]), model=mo[70], impl=io[70]))
    # hostile text for the decoder
    texts = [[37], [97, 37], [97, 37, 52], [37, 52, 49], [37, 122, 122], [37, 45, 49], [37, 43, 102], [37, 49, 46], [37, 35, 101], [37, 37, 37], [37, 37, 52, 49], [37, 52, 37, 52, 49],
             [37, 70, 70], [37, 102, 102], [37, 48, 48], [43, 37, 50, 98], [0x20ac, 37, 52, 49], [37, 0x20ac, 52]]
    for e in encs[:150 if not ctx.thorough else 3000]:
        t = list(e)
        for _ in range(rng.randrange(1, 3)):
            k = rng.randrange(4)
            if k == 0 and t:
                del t[rng.randrange(len(t))]
            elif k == 1:
                t.insert(rng.randrange(len(t) + 1), rng.choice([37, 37, 43, 48, 102, 71, 45, 46, 0x3bb]))
            elif k == 2 and t:
                t = t[:rng.randrange(len(t))]
            else:
                t.append(37)
        texts.append(t)
    cases = [(t, p) for t in texts for p in (False, True)]
    exprs = ['(xh (string->utf8 (uri-decode (cps %s) %s)))' % (" ".join(map(str, t)), "#t" if p else "#f") for t, p in cases]
    reqs = ["uridec %d %s" % (p, cpl(t)) for t, p in cases]
    mo = run_model(exe, reqs)
    io = scm.run_cases(d, exprs, prelude_extra=PRELUDE, imports=IMPORTS, timeout=150, chunk=1000)
    for (t, p), m, i in zip(cases, mo, io):
        ctx.count(1, key=("uridec", p, tuple(t)), nontrivial=True)
        rp = "echo '(import (scheme base) (scheme write) (chibi uri)) (write (uri-decode (list->string (map integer->char (list %s))) %s))' | chibi-scheme /dev/stdin" % (" ".join(map(str, t)), "#t" if p else "#f")
        if bad(i):
            ctx.violation("uri:decode-crash", input=cpl(t), expected=m, observed=i, replay=rp)
        elif m != "N":
            want = xs(cps_utf8([] if m[2:] == "_" else [int(x, 16) for x in m[2:].split(",")]))
            if i != want:
                ctx.violation("uri:decode-value", input=cpl(t), plus=p, expected=want, observed=i, replay=rp)
        # model None = an escape that is not two hex digits: the code raises or (sign, decimal point) returns some character; both are "value or error"


# ------------------------------------------------------------------------------------------ numeric accessors
def py_int_encode(w, big, v):
    return (v % (1 << (8 * w))).to_bytes(w, "big" if big else "little")


def acc_names(w, signed):
    us = "s" if signed else "u"
    if w == 1:
        return [("bytevector-%s8-ref" % us, "bytevector-%s8-set!" % us, None)]
    n = 8 * w
    return [("bytevector-%s%d-ref" % (us, n), "bytevector-%s%d-set!" % (us, n), True),      # takes an endianness
            ("bytevector-%s%d-native-ref" % (us, n), "bytevector-%s%d-native-set!" % (us, n), False)]


def zh(v):
    return ("-%x" % -v) if v < 0 else ("%x" % v)


def check_accessors(ctx, d, exe):
    rng = ctx.rng
    exprs, reqs, meta = [], [], []
    for w in (1, 2, 4, 8):
        for signed in (False, True):
            lo, hi = (-(1 << (8 * w - 1)), (1 << (8 * w - 1)) - 1) if signed else (0, (1 << (8 * w)) - 1)
            vals = sorted(set([lo, lo + 1, hi, hi - 1, 0, 1, -1 if signed else 2, hi // 2, hi // 2 + 1, 0x0102030405060708 & hi]
                              + [rng.randrange(lo, hi + 1) for _ in range(3 if not ctx.thorough else 30)]))
            oob_vals = [hi + 1, lo - 1, 1 << 70, -(1 << 70) - 5]
            for rname, sname, endian in acc_names(w, signed):
                for ln in sorted(set([0, 1, w - 1, w, w + 1, w + 3, 2 * w + 1])):
                    if ln < 0:
                        continue
                    bv = bytes(rng.choice((0x00, 0xff, 0x7f, 0x80, rng.getrandbits(8))) for _ in range(ln))
                    for k in list(range(-1, ln + 2)) + [1 << 31, (1 << 32) + 0, -(1 << 40), 1 << 62]:
                        for big in ((False, True) if endian else (False,)):
                            earg = (" 'big" if big else " 'little") if endian else ""
                            # ref
                            exprs.append('(%s (hx "%s") %d%s)' % (rname, hexs(bv), k, earg))
                            reqs.append("bvref %d %d %d %s %s" % (w, signed, big, hexs(bv), zh(k)))
                            meta.append(("ref", rname, w, signed, big, bv, k, None))
                            # set
                            v = rng.choice(vals) if rng.random() < 0.9 else rng.choice(oob_vals)
                            exprs.append('(let ((bv (hx "%s"))) (%s bv %d %d%s) (xh bv))' % (hexs(bv), sname, k, v, earg))
                            reqs.append("bvset %d %d %s %s %s" % (w, big, hexs(bv), zh(k), zh(v)))
                            meta.append(("set", sname, w, signed, big, bv, k, v))
    # arbitrary-size Scheme accessors (sizes incl. 3, 5, 9)
    for size in (1, 2, 3, 5, 8, 9):
        for signed in (False, True):
            us = "s" if signed else "u"
            lo, hi = (-(1 << (8 * size - 1)), (1 << (8 * size - 1)) - 1) if signed else (0, (1 << (8 * size)) - 1)
            for ln in (0, size - 1, size, size + 2):
                bv = bytes(rng.choice((0x00, 0xff, 0x80, rng.getrandbits(8))) for _ in range(ln))
                for k in range(-1, ln + 2):
                    for big in (False, True):
                        e = "'big" if big else "'little"
                        exprs.append('(bytevector-%sint-ref (hx "%s") %d %s %d)' % (us, hexs(bv), k, e, size))
                        reqs.append("bvref %d %d %d %s %s" % (size, signed, big, hexs(bv), zh(k)))
                        meta.append(("ref", "bytevector-%sint-ref" % us, size, signed, big, bv, k, None))
                        v = rng.choice([lo, hi, 0, -1 if signed else 1, rng.randrange(lo, hi + 1)])
                        exprs.append('(let ((bv (hx "%s"))) (bytevector-%sint-set! bv %d %d %s %d) (xh bv))' % (hexs(bv), us, k, v, e, size))
                        reqs.append("bvset %d %d %s %s %s" % (size, big, hexs(bv), zh(k), zh(v)))
                        meta.append(("set", "bytevector-%sint-set!" % us, size, signed, big, bv, k, v))
    mo = run_model(exe, reqs)
    io = scm.run_cases(d, exprs, prelude_extra=PRELUDE, imports=IMPORTS, timeout=150, chunk=1000)
    shown = 0
    for e, m, i, mt in zip(exprs, mo, io, meta):
        kind, name, w, signed, big, bv, k, v = mt
        inb = 0 <= k and k + w <= len(bv)
        ctx.count(1, key=(name, big, bv, k, v), nontrivial=True)
        rp = "echo '(import (scheme base) (scheme write) (scheme bytevector)) %s (write %s)' | chibi-scheme /dev/stdin" % (PRELUDE.replace("\n", " ").replace("'", "'\\''"), e.replace("'", "'\\''"))
        if bad(i):
            ctx.violation("accessor:crash:" + name, input=e, expected=m, observed=i, replay=rp)
            continue
        if m == "N":
            if not i.startswith("ERR"):
                # uint/sint accessors of size 0 window etc. never get here (w>0); an access outside the bytevector returned a value
                where = "k+w>len" if (0 <= k < len(bv)) else ("k<0" if k < 0 else "k>=len")
                ctx.violation("accessor:out-of-bounds:%s:%s" % (name, where), input=e, expected="error (window [k,k+%d) not inside 0..%d)" % (w, len(bv)),
                              observed=i, replay=rp)
            continue
        assert inb
        if kind == "ref":
            p = scm.parse_int(i)
            if p is None or ("S " + zh(p[1])) != m:
                ref = int.from_bytes(bv[k:k + w], "big" if big else "little", signed=signed)
                if p is None or p[1] != ref:
                    ctx.violation("accessor:ref-value:" + name, input=e, expected=zh(ref), observed=i, replay=rp)
                else:
                    ctx.broken("correspondence:accessor-ref", "model differs, implementation right: %s model=%s impl=%s" % (e, m, i))
        else:
            lo, hi = (-(1 << (8 * w - 1)), (1 << (8 * w - 1)) - 1) if signed else (0, (1 << (8 * w)) - 1)
            if i.startswith("ERR") and not (lo <= v <= hi):
                continue        # a value outside the representable range may be refused (u8) or reduced mod 2^bits (stub accessors)
            if i != mx(m[2:]):
                ref = bv[:k] + py_int_encode(w, big, v) + bv[k + w:]
                if i != xs(ref):
                    ctx.violation("accessor:set-bytes:" + name, input=e, expected=hexs(ref), observed=i, replay=rp)
                else:
                    ctx.broken("correspondence:accessor-set", "model differs, implementation right: %s model=%s impl=%s" % (e, m, i))
        if shown < 2 and inb and w > 1:
            ctx.sample(dict(kind="accessor", expr=e, model=m, impl=i)); shown += 1


# ------------------------------------------------------------------------------------------ JSON
MAXFIX = (1 << 62) - 1
ESC_CHARS = [0x22, 0x5c, 0x2f, 8, 12, 10, 13, 9, 0, 1, 0x1f, 0x20, 0x7e, 0x7f, 0x80, 0xff, 0x7ff, 0x800, 0xd7ff, 0xe000, 0xfffd, 0xffff,
             0x10000, 0x10001, 0x103ff, 0x10400, 0x1f600, 0xfffff, 0x100000, 0x10fc00, 0x10ffff, 0x62, 0x66, 0x6e, 0x72, 0x74, 0x75]
INTS = [0, 1, -1, 9, 10, 99, 1 << 53, (1 << 53) + 1, -(1 << 53) - 1, MAXFIX, -MAXFIX, MAXFIX - 1, 1 << 61, 999999999999999999, 4611686018427387899]


def gen_cp(rng):
    r = rng.random()
    if r < 0.45:
        return rng.choice(ESC_CHARS)
    if r < 0.7:
        return rng.randrange(0x20, 0x7f)
    if r < 0.8:
        return rng.randrange(0, 0x20)
    c = rng.choice([rng.randrange(0x80, 0xd800), rng.randrange(0xe000, 0x10000), rng.randrange(0x10000, 0x110000)])
    return c


def gen_str(rng, maxlen=12):
    return [gen_cp(rng) for _ in range(rng.choice([0, 1, 1, 2, 3, rng.randrange(0, maxlen + 1)]))]


def gen_json(rng, depth):
    """('n'|'t'|'f'|('i',z)|('s',cps)|('a',[..])|('o',[(cps,v)..]))"""
    r = rng.random()
    if depth <= 0 or r < 0.35:
        k = rng.randrange(5)
        if k == 0:
            return rng.choice(["n", "t", "f"])
        if k in (1, 2):
            return ("i", rng.choice(INTS) if rng.random() < 0.6 else rng.randrange(-MAXFIX, MAXFIX + 1) >> rng.randrange(0, 62))
        return ("s", gen_str(rng))
    if r < 0.7:
        return ("a", [gen_json(rng, depth - 1) for _ in range(rng.choice([0, 1, 2, 3]))])
    return ("o", [(gen_str(rng, 5), gen_json(rng, depth - 1)) for _ in range(rng.choice([0, 1, 2, 3]))])


def nest(v, depth, rng):
    for _ in range(depth):
        v = ("a", [v]) if rng.random() < 0.5 else ("o", [([0x6b], v)])
    return v


def jwire(v):
    if isinstance(v, str):
        return v
    t, x = v
    if t == "i":
        return "i" + zh(x)
    if t == "s":
        return "s" + (",".join("%x" % c for c in x) if x else "_")
    if t == "a":
        return "a(" + ";".join(jwire(e) for e in x) + ")"
    return "o(" + ";".join(jwire(("s", k)) + "=" + jwire(e) for k, e in x) + ")"


def jscheme(v):
    if isinstance(v, str):
        return {"n": "'null", "t": "#t", "f": "#f"}[v]
    t, x = v
    if t == "i":
        return str(x)
    if t == "s":
        return "(cps %s)" % " ".join(map(str, x))
    if t == "a":
        return "(vector %s)" % " ".join(jscheme(e) for e in x)
    return "(list %s)" % " ".join("(cons (string->symbol (cps %s)) %s)" % (" ".join(map(str, k)), jscheme(e)) for k, e in x)


def jdepth(v):
    if isinstance(v, str) or v[0] in "is":
        return 0
    if v[0] == "a":
        return 1 + max([jdepth(e) for e in v[1]] or [0])
    return 1 + max([jdepth(e) for _, e in v[1]] or [0])


def py_json_text(v):
    """independent oracle for the writer: RFC 8259 text that Python's json module must parse back to the same tree"""
    import json as pj
    def conv(v):
        if isinstance(v, str):
            return {"n": None, "t": True, "f": False}[v]
        t, x = v
        if t == "i":
            return x
        if t == "s":
            return "".join(map(chr, x))
        if t == "a":
            return [conv(e) for e in x]
        return [["\0key", "".join(map(chr, k)), conv(e)] for k, e in x]     # keep order and duplicates
    return conv(v)


def py_parse_json(text):
    import json as pj
    def hook(pairs):
        return [["\0key", k, v] for k, v in pairs]
    return pj.loads(text, object_pairs_hook=hook)


def hostile_json(rng, texts, thorough):
    out = [b'"\\ud800"', b'"\\ud800x"', b'"\\ud800\\u0041"', b'"\\udc00"', b'"\\ud800\\ud800"', b'"\\udbff\\udfff"', b'"\\ud800\\udc00"',
           b'"\\ud83d\\ude00"', b'"\\uD83D\\uDE00"', b'"\\ud800\\', b'"\\ud800\\u', b'"\\ud800\\udc0', b'"\\u12', b'"\\u12G4"', b'"\\', b'"', b'"abc', b'"\\x"', b'"\\/"',
           b'', b' ', b'[', b']', b'{', b'}', b'[,]', b'[1,]', b'[1,,2]', b'[1 2]', b'{"a"}', b'{"a":}', b'{"a":1,}', b'{1:2}', b'{[1]:2}', b'{"a" : 1 , "b":[ ]}',
           b'nul', b'nxyz', b'truE', b'TRUE', b'fals', b'N', b'-', b'+', b'+5', b'-0', b'00012', b'1.5', b'1e5', b'1.5e3', b'1E5', b'-1.e', b'1e', b'1e+', b'.5',
           b'4611686018427387903', b'4611686018427387904', b'-4611686018427387904', b'9007199254740993', b'18446744073709551616', b'123456789012345678901234567890',
           b'1' + b'0' * 400, b'1e999999', b'-1e-999999', b'0.' + b'1' * 500, b'"' + b'a' * 127 + b'"', b'"' + b'a' * 124 + b'\\u00e9' + b'"', b'"' + b'\\ud83d\\ude00' * 100 + b'"',
           b'"' + b'x' * 5000 + b'"', b'"\xff\xfe\x80"', b'"\xf0\x9f"', b'\xef\xbb\xbf1', b'[' * 999 + b']' * 999, b'[' * 1000 + b']' * 1000, b'[' * 1001 + b']' * 1001,
           b'[' * 100000, b'{"a":' * 100000, b'[' * 100000 + b']' * 100000, b'[{"k":' * 50000, b' ' * 100000 + b'1', b'\t\n\r\x0b\x0c [1]', b'[1]garbage', b'"a\x00b"', b'"\\u0000"']
    for t in texts:
        for _ in range(2 if not thorough else 4):
            out.append(mutate(rng, t, b'[]{}",:\\u0123456789dDeEaAfFntr -+.'))
    return out


def check_json(ctx, d, exe, dasan):
    rng = ctx.rng
    n = 500 if not ctx.thorough else 20000
    vals = ["n", "t", "f", ("a", []), ("o", []), ("s", []), ("s", ESC_CHARS), ("a", [("s", [c]) for c in ESC_CHARS]), ("a", [("i", z) for z in INTS] + [("i", -z) for z in INTS]),
            ("o", [([c], ("s", [c])) for c in ESC_CHARS]), ("s", list(range(0, 0x80))), ("s", list(range(0x80, 0x100))), ("s", [0xd7ff, 0xe000, 0x10000, 0x10ffff] * 40)]
    for c in range(0, 0x110000, 0x3ff if not ctx.thorough else 0x3d):      # every surrogate-pair high unit / many low units
        if not (0xd800 <= c < 0xe000):
            vals.append(("s", [c, (c + 0x1234) % 0xd800]))
    for i in range(n):
        vals.append(gen_json(rng, rng.choice([0, 1, 2, 3, 4, 8])))
    for dep in (8, 64, 998, 999):
        vals.append(nest(("a", [("i", 7), ("s", [0x1f600])]), dep - 1, rng))
    # ---- writer = model byte for byte; reader(writer v) = v (as UTF-8) on the implementation
    exprs = ['(let ((t (json->string %s))) (list (xh (string->utf8 t)) (string->symbol (string-append "V" (jshow (string->json t))))))' % jscheme(v) for v in vals]
    wq = ["jwrite " + jwire(v) for v in vals]
    eq = ["jexpect " + jwire(v) for v in vals]
    mw = run_model(exe, wq)
    me = run_model(exe, eq)
    io = scm.run_cases(d, exprs, prelude_extra=PRELUDE, imports=IMPORTS, chunk=300)
    texts = []
    import json as pj
    for v, w, e, i, ex in zip(vals, mw, me, io, exprs):
        ctx.count(1, key=("json", jwire(v)), nontrivial=not isinstance(v, str))
        assert w.startswith("S "), w
        texts.append(unhex(w[2:]))
        # standing oracle for "the writer emits valid JSON": Python's RFC 8259 parser must read the (model = implementation) text back to v
        try:
            okp = py_parse_json(unhex(w[2:]).decode("ascii")) == py_json_text(v)
        except Exception:
            okp = False
        if not okp:
            ctx.violation("json:writer-text-not-valid-json", input=jwire(v)[:2000], text=w[2:][:2000], observed="Python json.loads rejects the text or reads another value")
        want = "(%s %s)" % (mx(w[2:]), "V" + e[2:])
        wantb = "(%s |%s|)" % (mx(w[2:]), "V" + e[2:])
        if i not in (want, wantb):
            rp = "echo '(import (scheme base) (scheme write) (chibi json)) (define (cps . l) (list->string (map integer->char l))) (let ((t (json->string %s))) (write t) (write (string->json t)))' | chibi-scheme /dev/stdin" % jscheme(v).replace("'", "'\\''")
            # judge with an independent oracle: is the text the implementation wrote valid JSON for v, and did it read it back?
            verdict = "unknown"
            if not bad(i) and i.startswith("(") and not i.startswith("(ERR"):
                f = i[1:-1].split(" ")
                try:
                    txt = unhex(f[0][1:] if f[0] != "_" else "_").decode("utf-8", "surrogatepass")
                    ok_text = py_parse_json(txt) == py_json_text(v)
                except Exception:
                    ok_text = False
                ok_back = f[1].strip("|") == "V" + e[2:]
                verdict = "text-%s readback-%s" % ("ok" if ok_text else "WRONG", "ok" if ok_back else "WRONG")
                if ok_text and ok_back:
                    ctx.broken("correspondence:json-write", "model and implementation differ but the implementation is right: %s" % jwire(v)[:200])
                    continue
            cls = "string" if "s" in jwire(v) else "int" if "i" in jwire(v) else "structure"
            ctx.violation("json:write-read-roundtrip:" + cls + ("" if verdict == "unknown" else ":" + verdict.replace(" ", ",")),
                          input=jwire(v)[:2000], expected=want[:2000], observed=(i or "")[:2000], verdict=verdict, replay=rp)
    ctx.sample(dict(kind="json-roundtrip", value=jwire(vals[6])[:300], model_text=mw[6][:300], impl=io[6][:300]))
    # ---- reader on hostile text: value or error, same class as the model, under default and asan builds
    host = hostile_json(rng, texts[:300 if not ctx.thorough else 3000], ctx.thorough)
    reqs = ["jread " + hexs(t) for t in host]
    mo = run_model(exe, reqs)
    exprs = ['(jread-hex "%s")' % hexs(t) for t in host]
    for label, dd in (("default", d), ("asan", dasan)):
        if dd is None:
            continue
        io = scm.run_cases(dd, exprs, prelude_extra=PRELUDE, imports=IMPORTS, chunk=200, timeout=300)
        for t, m, i in zip(host, mo, io):
            ctx.count(1, key=("jread", label, t), nontrivial=True)
            rp = "python3 -c 'import sys; sys.stdout.buffer.write(bytes.fromhex(\"%s\"))' > /tmp/c19.json; echo '(import (scheme base) (scheme write) (scheme file) (chibi json)) (write (call-with-input-file \"/tmp/c19.json\" json-read))' | chibi-scheme /dev/stdin   # build variant: %s" % (t[:3000].hex(), label)
            if bad(i):
                ctx.violation("json:read-crash:" + ("deep-nesting" if t.count(b"[") + t.count(b"{") > 5000 else "other"), input=hexs(t[:400]), length=len(t),
                              expected=m[:200], observed=i[:600], build=label, replay=rp)
                continue
            if m == "E":
                if not i.startswith("ERR"):
                    ctx.violation("json:read-accepts-what-model-rejects", input=hexs(t[:400]), expected="error", observed=i[:300], build=label, replay=rp)
            elif m == "FUEL":
                ctx.broken("model:json-fuel", "model ran out of fuel on %s" % hexs(t[:100]))
            else:
                if i.strip("|") != "V" + m[2:]:
                    ctx.violation("json:read-value", input=hexs(t[:400]), expected=m[:300], observed=i[:300], build=label, replay=rp)
    ctx.sample(dict(kind="json-hostile", input=hexs(host[2]), model=mo[2], impl=io[2]))


# ------------------------------------------------------------------------------------------ corpus (run first)
def check_corpus(ctx, d):
    import json as pj
    path = os.path.join(os.path.dirname(__file__), "..", "corpus", "C19", "regressions.jsonl")
    cases = [pj.loads(l) for l in open(path) if l.strip()]
    io = scm.run_cases(d, [c["expr"] for c in cases], prelude_extra=PRELUDE, imports=IMPORTS, timeout=120)
    for c, i in zip(cases, io):
        ctx.count(1, key=("corpus", c["name"]), nontrivial=True)
        ok = (i is not None and i.startswith("ERR")) if c["expect"] == "ERR" else i == c["expect"]
        if not ok:
            ctx.violation("corpus:" + c["name"], input=c["expr"], expected=c["expect"], observed=i,
                          replay="echo '(import (scheme base) (scheme write) (scheme bytevector) (chibi json) (chibi base64) (chibi quoted-printable)) (write %s)' | chibi-scheme /dev/stdin" % c["expr"].replace("'", "'\\''"))


def run(ctx):
    ctx.cov["rule"] = ("byte strings of every length 0-100 then seeded lengths up to 4096 (all classes mod 3 and 4, all 256 byte values, "
                       "text-like and run-heavy mixes) through each encoder and decoder: implementation output = extracted model output byte for byte "
                       "and decode(encode x) = x on the implementation; decoders also get valid text with out-of-band characters interleaved and a "
                       "hostile stream (bit flips, truncation, bad padding, junk, random bytes); numeric accessors over every offset -1..len+1 and far "
                       "out-of-range offsets x widths 1,2,4,8 (+ sizes 3,5,9 of the generic accessors) x signedness x endianness x boundary values; "
                       "a case is distinct by (operation, input bytes, offset, value) and non-trivial unless the input is empty")
    ctx.coq_obligations("Properties_C19")
    d = ctx.build("default")
    exe = ctx.extract("C19")
    if exe is None:
        return
    import time
    check_corpus(ctx, d)
    strings = byte_strings(ctx.rng, ctx.thorough)
    t0 = time.time(); check_base64(ctx, d, exe, strings); t1 = time.time()
    check_qp(ctx, d, exe, strings); t2 = time.time()
    check_uri(ctx, d, exe)
    check_accessors(ctx, d, exe); t3 = time.time()
    dasan = ctx.build("asan"); t4 = time.time()
    check_json(ctx, d, exe, dasan); t5 = time.time()
    ctx.note("wall seconds: base64 %.1f, qp %.1f, accessors %.1f, asan build %.1f, json %.1f" % (t1 - t0, t2 - t1, t3 - t2, t4 - t3, t5 - t4))
    ctx.assume("floating-point accessors (ieee-single/double), SRFI 160 uniform vectors, CSV, mini-floats and the streaming/port and *-header variants of the codecs are outside this check; JSON floats are compared by class only")
    ctx.assume("json_roundtrip carries the explicit fuel premise need v <= fuel; that the library-level fuel 2*len+2 always suffices is observed (no FUEL outcome), not proved")
    ctx.assume("indices >= 2^64 given to the stub accessors are reduced mod 2^64 by sexp_sint_value before the bounds assertion (chibi-ffi convention); not exercised")
    ctx.trust("byte reversal stands for the sexp_swap_* bit arithmetic of bytevector.stub; utf8->string/string->utf8 (C12) carry the string variants of the codecs; "
              "the classification of non-ASCII characters by uri-safe-char? is taken from the implementation (a free parameter of uri_roundtrip)")
    ctx.trust("Python base64/quopri/json/int.from_bytes are used only to judge a model/implementation disagreement and to re-parse the JSON writer's text")
