"""C19 — codec libraries invert each other and are total on hostile input.
   (T) coq/Properties_C19.v
   (K-outer) the Scheme API of (chibi base64), (chibi quoted-printable), (chibi uri), (chibi json),
   (scheme bytevector) vs the extracted Gallina models, byte for byte, plus decode(encode x) = x on the
   implementation itself and an independent Python oracle used to judge disagreements;
   (hostile) mutated encodings under the asan build: a value or a Scheme error, never a crash / hang."""
import base64 as pyb64, os, subprocess, sys
sys.setrecursionlimit(20000)
from vlib import build as B, scm

IMPORTS = "(import (chibi base64) (scheme bytevector) (chibi json) (chibi quoted-printable) (chibi uri))"

PRELUDE = r"""
(define (hexval c) (let ((i (char->integer c))) (if (< i 58) (- i 48) (- i 87))))
(define (hx s)   ; hex string -> bytevector ("_" = empty); linear time (string ports, no indexing)
  (if (equal? s "_") (bytevector)
      (let ((in (open-input-string s)) (out (open-output-bytevector)))
        (let lp ()
          (let ((a (read-char in)))
            (if (eof-object? a) (get-output-bytevector out)
                (let ((b (read-char in)))
                  (write-u8 (+ (* 16 (hexval a)) (hexval b)) out)
                  (lp))))))))
(define hexdigits "0123456789abcdef")
(define (xh bv)  ; bytevector -> symbol x<hex> (_ when empty); anything else -> the symbol not-a-bytevector
  (cond ((not (bytevector? bv)) 'not-a-bytevector)
        ((zero? (bytevector-length bv)) '_)
        (else
         (let ((n (bytevector-length bv)) (out (open-output-string)))
           (write-char #\x out)
           (do ((i 0 (+ i 1))) ((= i n) (string->symbol (get-output-string out)))
             (let ((b (bytevector-u8-ref bv i)))
               (write-char (string-ref hexdigits (quotient b 16)) out)
               (write-char (string-ref hexdigits (remainder b 16)) out)))))))
(define (cps . l) (list->string (map integer->char l)))
(define (join-semi ls) (if (null? ls) "" (let lp ((ls (cdr ls)) (acc (car ls))) (if (null? ls) acc (lp (cdr ls) (string-append acc ";" (car ls)))))))
(define (bvhex bv) (let ((s (symbol->string (xh bv)))) (if (equal? s "_") s (substring s 1 (string-length s)))))
(define (jshow v)
  (cond ((eq? v 'null) "n") ((eq? v #t) "t") ((eq? v #f) "f")
        ((and (number? v) (exact? v) (integer? v)) (string-append "i" (number->string v 16)))
        ((number? v) "d")
        ((string? v) (string-append "s" (bvhex (string->utf8 v))))
        ((symbol? v) (string-append "s" (bvhex (string->utf8 (symbol->string v)))))
        ((vector? v) (string-append "a(" (join-semi (map jshow (vector->list v))) ")"))
        ((null? v) "o()")
        ((pair? v) (string-append "o(" (join-semi (map (lambda (kv) (if (pair? kv) (string-append (jshow (car kv)) "=" (jshow (cdr kv))) "?")) v)) ")"))
        (else "?")))
(define (jread-hex h) (string->symbol (string-append "V" (jshow (string->json (utf8->string (hx h)))))))
"""


def _bigstack():
    import resource
    soft, hard = resource.getrlimit(resource.RLIMIT_STACK)
    want = 1 << 30
    if hard != resource.RLIM_INFINITY:
        want = min(want, hard)
    resource.setrlimit(resource.RLIMIT_STACK, (want, hard))


def run_model(exe, lines, timeout=1200):
    """like ctx.run_model, but the extracted (non tail recursive) list functions get a 1 GB stack;
    the implementation under test keeps the default limit"""
    r = subprocess.run([exe], input="\n".join(lines) + "\n", capture_output=True, text=True, timeout=timeout, preexec_fn=_bigstack)
    if r.returncode != 0:
        raise RuntimeError("model driver failed: " + r.stderr[-2000:])
    return r.stdout.split("\n")[:-1] if r.stdout.endswith("\n") else r.stdout.split("\n")


def hexs(bs):
    return bs.hex() if bs else "_"


def xs(bs):
    """how the Scheme helper xh shows a bytevector (a symbol: x + hex digits, _ when empty)"""
    return "x" + bs.hex() if bs else "_"


def mx(m):
    """model hex answer -> the xh form"""
    return m if m == "_" else "x" + m


def unhex(s):
    return b"" if s == "_" else bytes.fromhex(s)


def bad(impl):
    return impl is None or impl.startswith("CRASH") or impl == "TIMEOUT"


# ------------------------------------------------------------------------------------------ generators
def byte_strings(rng, thorough):
    """every length 0..100, then seeded lengths up to 4096 covering all classes mod 3 and mod 4; all byte values"""
    out = [bytes(range(256)), bytes(range(255, -1, -1))]
    for n in range(0, 101):
        out.append(bytes(rng.getrandbits(8) for _ in range(n)))
    for n in (1, 2, 3, 4, 5, 6, 7):
        out.append(b"\x00" * n)
        out.append(b"\xff" * n)
    big = [4096, 4095, 4094, 4093, 3072, 3073, 2048, 2049, 1000, 255, 256, 257, 513, 766, 767, 768]
    for _ in range(24 if not thorough else 400):
        big.append(rng.randrange(101, 4097))
    for n in big:
        mode = rng.random()
        if mode < 0.6:
            out.append(bytes(rng.getrandbits(8) for _ in range(n)))
        elif mode < 0.8:     # text-like
            out.append(bytes(rng.choice(b"abcXYZ 019=?_\r\n\t.,;") for _ in range(n)))
        else:                # few distinct values, long runs
            a, b = rng.getrandbits(8), rng.getrandbits(8)
            out.append(bytes(rng.choice((a, a, a, b)) for _ in range(n)))
    return out


def mutate(rng, enc, alphabet):
    """hostile variants of an encoding: bit flips, truncation, bad padding, junk insertion, duplication"""
    b = bytearray(enc)
    k = rng.randrange(7)
    if k == 0 and b:
        for _ in range(rng.randrange(1, 4)):
            b[rng.randrange(len(b))] ^= 1 << rng.randrange(8)
    elif k == 1 and b:
        del b[rng.randrange(len(b)):]
    elif k == 2:
        pos = rng.randrange(len(b) + 1)
        b[pos:pos] = bytes(rng.choice(alphabet) for _ in range(rng.randrange(1, 4)))
    elif k == 3:
        pos = rng.randrange(len(b) + 1)
        b[pos:pos] = bytes(rng.getrandbits(8) for _ in range(rng.randrange(1, 5)))
    elif k == 4 and b:
        pos = rng.randrange(len(b))
        del b[pos:pos + rng.randrange(1, 4)]
    elif k == 5:
        b += bytes(rng.choice(alphabet) for _ in range(rng.randrange(1, 3)))
    else:
        b = bytearray(rng.getrandbits(8) for _ in range(rng.randrange(0, 40)))
    return bytes(b)


# ------------------------------------------------------------------------------------------ base64
B64_OUTSIDE = bytes(c for c in range(256) if c not in b"ABCDEFGHIJKLMNOPQRSTUVWXYZabcdefghijklmnopqrstuvwxyz0123456789+/-_~=")


def check_base64(ctx, d, exe, strings):
    rng = ctx.rng
    # ---- encoder: implementation = model byte for byte; decoder(encoder x) = x on the implementation
    exprs, reqs = [], []
    for bs in strings:
        exprs.append('(let* ((x (hx "%s")) (e (base64-encode-bytevector x))) (list (xh e) (xh (base64-decode-bytevector e))))' % hexs(bs))
        reqs.append("b64enc " + hexs(bs))
    mo = run_model(exe, reqs)
    io = scm.run_cases(d, exprs, prelude_extra=PRELUDE, imports=IMPORTS, timeout=150, chunk=1000)
    encs = []
    for bs, m, i in zip(strings, mo, io):
        ctx.count(1, key=("b64enc", bs), nontrivial=len(bs) > 0)
        want = "(%s %s)" % (mx(m), xs(bs))
        encs.append(unhex(m))
        if i != want:
            ref = xs(pyb64.b64encode(bs))
            rp = "echo '(import (scheme base) (scheme write) (chibi base64)) (let ((e (base64-encode-bytevector (bytevector %s)))) (write e) (write (base64-decode-bytevector e)))' | chibi-scheme /dev/stdin" % " ".join(map(str, bs))
            if bad(i) or not i.startswith("(") or i.split()[0][1:] != ref or i.split()[1][:-1] != xs(bs):
                ctx.violation("base64:encode-roundtrip:len%%3=%d" % (len(bs) % 3), input=hexs(bs), expected=want, observed=i,
                              oracle_rfc4648=ref, replay=rp)
            else:
                ctx.broken("correspondence:base64-encode", "model and implementation differ but the implementation is right: %s model=%s impl=%s" % (hexs(bs), m, i))
    ctx.sample(dict(kind="base64-encode", input=hexs(strings[5]), model=mo[5], impl=io[5]))
    # ---- decoder on valid text with outside characters interleaved, and on hostile text
    texts, kinds = [], []
    for e in encs:
        if rng.random() < 0.5:
            t = bytearray()
            for j, c in enumerate(e):
                if rng.random() < 0.08:
                    t += bytes(rng.choice(B64_OUTSIDE) for _ in range(rng.randrange(1, 3)))
                if j and j % 76 == 0:
                    t += b"\r\n"
                t.append(c)
            texts.append(bytes(t)); kinds.append("interleaved")
        texts.append(mutate(rng, e[:rng.choice([4, 8, 12, 40, len(e)])], b"AZaz09+/=-_~ \n")); kinds.append("hostile")
    for t in (b"A", b"AA", b"AAA", b"AAAA", b"AAAAA", b"=", b"A=", b"AA=", b"AAA=", b"AA==", b"AA==AA", b"====", b"A===", b"\xff\xfe", b"QQ=Q", b"QUJD\nRA=="):
        texts.append(t); kinds.append("boundary")
    exprs = ['(xh (base64-decode-bytevector (hx "%s")))' % hexs(t) for t in texts]
    reqs = ["b64dec " + hexs(t) for t in texts]
    mo = run_model(exe, reqs)
    io = scm.run_cases(d, exprs, prelude_extra=PRELUDE, imports=IMPORTS, timeout=150, chunk=1000)
    for t, k, m, i in zip(texts, kinds, mo, io):
        ctx.count(1, key=("b64dec", t), nontrivial=True)
        if i != mx(m):
            rp = "echo '(import (scheme base) (scheme write) (chibi base64)) (write (base64-decode-bytevector (bytevector %s)))' | chibi-scheme /dev/stdin" % " ".join(map(str, t))
            if bad(i) or i.startswith("ERR") or i == "not-a-bytevector":
                ctx.violation("base64:decode-not-total", input=hexs(t), kind=k, expected=m, observed=i, replay=rp)
            else:
                # oracle: strip everything outside the (liberal) alphabet, cut at the first '=', RFC 4648 on whole quanta
                ctx.violation("base64:decode-" + k, input=hexs(t), kind=k, expected=m, observed=i, replay=rp,
                              why="decoder output differs from the proved model (leftover sextets / skipped characters / padding)")
    ctx.sample(dict(kind="base64-decode", input=hexs(texts[0]), model=mo[0], impl=io[0]))


# ------------------------------------------------------------------------------------------ base64: port (streaming) and header variants
def _scm_const(src, name, env):
    """value of (define NAME <expr>) for the tiny expression language the constants of base64.scm use"""
    import math, re
    m = re.search(r"\(define\s+%s\s+((?:\([^()]*\))|[^\s()]+)\s*\)" % re.escape(name), src)
    if not m:
        raise ValueError("no definition of " + name)
    return _scm_eval(m.group(1), env)


def _scm_eval(tx, env):
    import math, re
    tx = tx.strip()
    if re.fullmatch(r"\d+", tx):
        return int(tx)
    if tx in env:
        return env[tx]
    m = re.fullmatch(r"\(\s*(lcm|\*|\+)\s+([^\s()]+)\s+([^\s()]+)\s*\)", tx)
    if not m:
        raise ValueError("expression outside the subset: " + tx)
    a, b = _scm_eval(m.group(2), env), _scm_eval(m.group(3), env)
    return {"lcm": a * b // math.gcd(a, b), "*": a * b, "+": a + b}[m.group(1)]


def b64_chunk_sizes(ctx):
    """(decode chunk, encode chunk) read from lib/chibi/base64.scm; the theorems hold for every chunk size, the tie needs
    the real ones to put its line breaks around the real boundaries"""
    import re
    src = open(os.path.join(B.REPO, "lib", "chibi", "base64.scm")).read()
    try:
        env = {}
        env["decode-src-length"] = _scm_const(src, "decode-src-length", env)
        env["encode-src-length"] = _scm_const(src, "encode-src-length", env)
        m = re.search(r"\(read-bytevector!\s+src\s+in\s+0\s+([^\s()]+)\)", src)
        if not m:
            raise ValueError("the read-bytevector! of base64-encode was not found")
        enc = _scm_eval(m.group(1), env)
        m2 = re.search(r"\(read-bytevector!\s+src\s+in\s+offset\s+([^\s()]+)\)", src)
        if not m2:
            raise ValueError("the read-bytevector! of base64-decode was not found")
        dec = _scm_eval(m2.group(1), env)
        return dec, enc
    except ValueError as e:
        ctx.broken("gen:base64-chunk-sizes", "lib/chibi/base64.scm: %s; using 2964 / 3072" % e)
        return 2964, 3072


B64_ALPHA = b"ABCDEFGHIJKLMNOPQRSTUVWXYZabcdefghijklmnopqrstuvwxyz0123456789+/"
B64_INBAND = set(B64_ALPHA + b"-_~")


def wrap_text(enc, width, nl, first):
    """line-wrap `enc`: first line `first` characters, then `width` per line"""
    out, i = bytearray(), 0
    n = first if first > 0 else width
    while i < len(enc):
        out += enc[i:i + n]
        i += n
        if i < len(enc):
            out += nl
        n = width
    return bytes(out)


def chunk_boundaries(text, N, maxn=4):
    """stream positions at which the port decoder's chunks end (pending sextets are carried into the next chunk)"""
    out, pos, carry = [], 0, 0
    while len(out) < maxn:
        end = pos + (N - carry)
        if end > len(text):
            break
        out.append(end)
        seg = text[pos:end]
        if b"=" in seg:
            break
        carry = (carry + sum(1 for c in seg if c in B64_INBAND)) % 4
        pos = end
    return out


def py_liberal_b64decode(text):
    """independent oracle of what base64.scm documents: out-of-band characters are stripped, '=' ends the text,
    - _ ~ are the alternate 62/63 characters, a trailing partial quantum yields the bytes it determines"""
    sx = []
    for c in text:
        if c == 0x3d:
            break
        if c in B64_INBAND:
            sx.append(62 if c in b"+-" else 63 if c in b"/_~" else B64_ALPHA.index(bytes([c])))
    out = bytearray()
    for i in range(0, len(sx) - 3, 4):
        a, b, c, e = sx[i:i + 4]
        out += bytes([(a << 2 | b >> 4) & 255, (b << 4 | c >> 2) & 255, (c << 6 | e) & 255])
    r = sx[len(sx) - len(sx) % 4:]
    if len(r) == 1:
        out.append((r[0] << 2) & 255)
    elif len(r) == 2:
        out.append((r[0] << 2 | r[1] >> 4) & 255)
    elif len(r) == 3:
        out += bytes([(r[0] << 2 | r[1] >> 4) & 255, (r[1] << 4 | r[2] >> 2) & 255])
    return bytes(out)


def text_payload(rng, n):
    """valid UTF-8 of exactly n bytes (ASCII with some 2- and 3-byte characters)"""
    out = bytearray()
    while len(out) < n:
        r = rng.random()
        left = n - len(out)
        if r < 0.1 and left >= 3:
            out += chr(rng.randrange(0x800, 0xd800)).encode()
        elif r < 0.25 and left >= 2:
            out += chr(rng.randrange(0x80, 0x800)).encode()
        else:
            out.append(rng.choice(b"abcdefghij XYZ0123456789.,;?_=\r\n\t"))
    return bytes(out)


def check_base64_stream(ctx, d, exe):
    rng = ctx.rng
    N, E = b64_chunk_sizes(ctx)
    ctx.note("base64 port variants: decode chunk %d, encode chunk %d (read from lib/chibi/base64.scm)" % (N, E))
    # ---------------- decoder on a binary port
    texts = []          # (text, kind, payload or None)

    def add(text, kind, payload=None):
        texts.append((text, kind, payload))

    def payload_for(nchars):
        return bytes(rng.getrandbits(8) for _ in range(nchars * 3 // 4))

    widths = list(range(60, 81))
    for w in widths:
        for nl in (b"\n", b"\r\n"):
            step = w + len(nl)
            # a line break at every offset -4..+4 around the first chunk boundary
            for off in range(-4, 5):
                first = (N + off) % step
                pl = payload_for(N + rng.randrange(40, 400))
                add(wrap_text(pyb64.b64encode(pl), w, nl, first), "wrap%d-%s-b1%+d" % (w, "crlf" if len(nl) == 2 else "lf", off), pl)
            # two and three boundaries: find a phase that puts a break within -4..+4 of the LAST boundary
            for nb in ((2, 3) if ctx.thorough or (w + len(nl)) % 3 == 0 else (2 + (w + len(nl)) % 2,)):
                pl = payload_for(nb * N + rng.randrange(40, 400))
                enc = pyb64.b64encode(pl)
                want_off = rng.randrange(-4, 5)
                best = None
                for first in rng.sample(range(1, step + 1), min(step, 24)):
                    t = wrap_text(enc, w, nl, first)
                    bs = chunk_boundaries(t, N)
                    if len(bs) >= nb:
                        b = bs[nb - 1]
                        near = any(t[p:p + 1] in (b"\n", b"\r") for p in range(max(0, b - 4), b + 4))
                        if best is None or near:
                            best = t
                        if near and t[b + want_off:b + want_off + 1] in (b"\n", b"\r"):
                            best = t
                            break
                add(best if best is not None else wrap_text(enc, w, nl, 0), "wrap%d-%s-b%d" % (w, "crlf" if len(nl) == 2 else "lf", nb), pl)
    if ctx.thorough:
        for w in widths:
            for nl in (b"\n", b"\r\n"):
                for first in range(1, w + len(nl) + 1):
                    pl = payload_for(2 * N + rng.randrange(40, 400))
                    add(wrap_text(pyb64.b64encode(pl), w, nl, first), "wrap%d-phase%d" % (w, first), pl)
    # exact lengths relative to the chunk size (no white space), incl. the empty text
    for ln in [0, 1, 2, 3, 4, 5, N - 5, N - 4, N - 3, N - 2, N - 1, N, N + 1, N + 2, N + 3, N + 4, 2 * N - 1, 2 * N, 2 * N + 1, 3 * N, 3 * N + 3]:
        if ln >= 0:
            add(bytes(rng.choice(B64_ALPHA) for _ in range(ln)), "exact-len")
    # padding, junk and white space of every kind astride the boundaries
    for off in range(-5, 6):
        for b in (N, 2 * N):
            base = bytearray(rng.choice(B64_ALPHA) for _ in range(b + 40))
            t = bytearray(base); t[b + off:b + off] = b"=="; add(bytes(t), "pad-at-boundary%+d" % off)
            t = bytearray(base); t[b + off:b + off] = b" \t \r\n"; add(bytes(t), "blanks-at-boundary%+d" % off)
            t = bytearray(base); t[b + off:b + off] = bytes(rng.choice(B64_OUTSIDE) for _ in range(3)); add(bytes(t), "junk-at-boundary%+d" % off)
            t = bytearray(base); t[b + off] = ord("\n"); add(bytes(t), "lf-replaces%+d" % off)
            t = bytearray(base[:b + off]); add(bytes(t) + b"=", "ends-with-pad%+d" % off)
    for _ in range(40 if not ctx.thorough else 600):
        pl = payload_for(rng.choice([N, 2 * N, 3 * N]) + rng.randrange(-8, 400))
        t = wrap_text(pyb64.b64encode(pl), rng.choice(widths), rng.choice((b"\n", b"\r\n")), rng.randrange(0, 60))
        add(mutate(rng, t, b"AZaz09+/=-_~ \r\n\t"), "hostile")
    exprs = ['(let* ((t (hx "%s")) (out (open-output-bytevector))) (base64-decode (open-input-bytevector t) out) '
             '(list (xh (get-output-bytevector out)) (if (equal? (get-output-bytevector out) (base64-decode-bytevector t)) (quote same) (quote DIFFERS))))' % hexs(t) for t, _, _ in texts]
    mo = run_model(exe, ["b64sdec %d %s" % (N, hexs(t)) for t, _, _ in texts])
    io = scm.run_cases(d, exprs, prelude_extra=PRELUDE, imports=IMPORTS, timeout=300, chunk=150)
    shown = False
    for (t, kind, pl), m, i in zip(texts, mo, io):
        ctx.count(1, key=("b64sdec", t), nontrivial=len(t) > 0)
        if m == "FUEL":
            ctx.broken("model:base64-stream-fuel", "stream_dec ran out of fuel (stream_decode_equals_decode says it cannot): %s" % hexs(t)[:100])
            continue
        oracle = py_liberal_b64decode(t)
        if pl is not None and oracle != pl:
            raise RuntimeError("generator: oracle disagrees with the payload")
        if unhex(m[2:]) != oracle:
            ctx.broken("model:base64-stream-vs-oracle", "the model's stream decoder differs from the liberal RFC 4648 oracle on %s" % hexs(t)[:200])
        want = "(%s same)" % xs(oracle)
        if i != want:
            lens = " ".join(str(x) for x in chunk_boundaries(t, N))
            rp = ("python3 -c 'import sys; sys.stdout.buffer.write(bytes.fromhex(\"%s\"))' > /tmp/c19-b64.txt; echo '(import (scheme base) (scheme write) (scheme file) (chibi base64)) "
                  "(let ((out (open-output-bytevector))) (call-with-port (open-binary-input-file \"/tmp/c19-b64.txt\") (lambda (in) (base64-decode in out))) (write (get-output-bytevector out)))' "
                  "| chibi-scheme /dev/stdin   # expected: %d bytes, sha1-free check: python3 -c 'import base64;print(list(base64.b64decode(open(\"/tmp/c19-b64.txt\",\"rb\").read()))[:8])'" % (t.hex(), len(oracle)))
            if bad(i):
                sig = "base64:stream-decode:crash"
            elif i.startswith("ERR"):
                sig = "base64:stream-decode:error:" + ("empty-or-chunk-multiple" if len(t) % N == 0 else "other")
            else:
                sig = "base64:stream-decode:wrong-bytes:" + ("line-break-near-chunk-boundary" if kind.startswith("wrap") or "boundary" in kind else kind)
            ctx.violation(sig, input_len=len(t), kind=kind, chunk=N, chunk_ends=lens, input=hexs(t)[:6000], expected=want[:400], observed=(i or "")[:400], replay=rp,
                          why="base64-decode on a binary port must write what base64-decode-bytevector returns (theorem stream_decode_equals_decode)")
        elif not shown and kind.startswith("wrap"):
            ctx.sample(dict(kind="base64-stream-decode", what=kind, input_len=len(t), chunk_ends=chunk_boundaries(t, N), model=m[:60], impl=i[:60])); shown = True
    # ---------------- decoder / encoder on a TEXTUAL port (payload must be text: the result goes through utf8->string)
    tcases = []
    for n in [0, 1, 2, 3, 10, 57, 58, 100, 1000, N * 3 // 4 + 10, 2 * N]:
        tcases.append(text_payload(rng, n))
    exprs, want = [], []
    for pl in tcases:
        enc = wrap_text(pyb64.b64encode(pl), 76, b"\r\n", 0)
        exprs.append('(let ((out (open-output-string))) (base64-decode (open-input-string (utf8->string (hx "%s"))) out) (xh (string->utf8 (get-output-string out))))' % hexs(enc))
        want.append(xs(pl))
        exprs.append('(let ((out (open-output-string))) (base64-encode (open-input-string (utf8->string (hx "%s"))) out) (xh (string->utf8 (get-output-string out))))' % hexs(pl))
        want.append(xs(pyb64.b64encode(pl)))
        exprs.append('(xh (string->utf8 (base64-decode-string (base64-encode-string (utf8->string (hx "%s"))))))' % hexs(pl))
        want.append(xs(pl))
    io = scm.run_cases(d, exprs, prelude_extra=PRELUDE, imports=IMPORTS, timeout=300, chunk=100)
    for e, w_, i in zip(exprs, want, io):
        ctx.count(1, key=("b64text", e), nontrivial=True)
        if i != w_:
            ctx.violation("base64:textual-port-or-string-variant", input=e[:3000], expected=w_[:400], observed=(i or "")[:400],
                          replay="echo '(import (scheme base) (scheme write) (chibi base64)) %s (write %s)' | chibi-scheme /dev/stdin" % (PRELUDE.replace("\n", " ").replace("'", "'\\''"), e[:100000].replace("'", "'\\''")))
    # ---------------- encoder on a binary port
    lens = sorted(set([0, 1, 2, 3, 4, 5, 100, 2047, 2048, 2049, 4095, 4096, 4097, 6144, E - 2, E - 1, E, E + 1, E + 2, 2 * E - 1, 2 * E, 2 * E + 1, 3 * E, 3 * E + 1]
                      + [rng.randrange(1, 3 * E + 200) for _ in range(12 if not ctx.thorough else 200)]))
    pls = [bytes(rng.getrandbits(8) for _ in range(n)) for n in lens if n >= 0]
    exprs = ['(let ((out (open-output-bytevector))) (base64-encode (open-input-bytevector (hx "%s")) out) (xh (get-output-bytevector out)))' % hexs(pl) for pl in pls]
    mo = run_model(exe, ["b64senc %d %s" % (E, hexs(pl)) for pl in pls])
    io = scm.run_cases(d, exprs, prelude_extra=PRELUDE, imports=IMPORTS, timeout=300, chunk=100)
    for pl, m, i in zip(pls, mo, io):
        ctx.count(1, key=("b64senc", pl), nontrivial=len(pl) > 0)
        ref = pyb64.b64encode(pl)
        if m == "FUEL" or unhex(m[2:]) != ref:
            ctx.broken("model:base64-stream-encode-vs-oracle", "the model's stream encoder (chunk %d) differs from RFC 4648 on a %d-byte input" % (E, len(pl)))
        if i != xs(ref):
            rp = ("python3 -c 'import sys; sys.stdout.buffer.write(bytes.fromhex(\"%s\"))' > /tmp/c19-b64.bin; echo '(import (scheme base) (scheme write) (scheme file) (chibi base64)) "
                  "(let ((out (open-output-bytevector))) (call-with-port (open-binary-input-file \"/tmp/c19-b64.bin\") (lambda (in) (base64-encode in out))) (write (utf8->string (get-output-bytevector out))))' "
                  "| chibi-scheme /dev/stdin   # compare: base64 -w0 /tmp/c19-b64.bin" % pl.hex())
            if bad(i):
                sig = "base64:stream-encode:crash"
            elif i.startswith("ERR"):
                sig = "base64:stream-encode:error:" + ("empty-or-chunk-multiple" if len(pl) % E == 0 else "other")
            else:
                sig = "base64:stream-encode:wrong-text:" + ("padding-in-mid-stream" if b"=" in unhex(i[1:] if i != "_" else "_").rstrip(b"=") else "other") if i[:1] in "x_" else "base64:stream-encode:wrong-text:other"
            ctx.violation(sig, input_len=len(pl), chunk=E, input=hexs(pl)[:6000], expected=xs(ref)[:300], observed=(i or "")[:300], replay=rp)
    # ---------------- base64-encode-header
    hcases = []
    for name in (b"utf-8", b"ISO-8859-1"):
        for nl in (b"\r\n", b"\n"):
            for sc, mc in ((0, 76), (9, 76), (30, 76), (0, 40), (5, 100), (0, 1000), (60, 76), (62, 76), (66, 76), (90, 76)):
                for n in sorted(set([0, 1, 2, 3, 10, 30, 33, 34, 36, 45, 46, 47, 48, 60, 90, 93, 200] + [rng.randrange(0, 300) for _ in range(2)])):
                    hcases.append((name, text_payload(rng, n), sc, mc, nl))
    exprs = ['(xh (string->utf8 (base64-encode-header (utf8->string (hx "%s")) (utf8->string (hx "%s")) %d %d (utf8->string (hx "%s")))))' % (hexs(nm), hexs(pl), sc, mc, hexs(nl))
             for nm, pl, sc, mc, nl in hcases]
    mo = run_model(exe, ["b64hdr %s %s %d %d %s" % (hexs(nm), hexs(pl), sc, mc, hexs(nl)) for nm, pl, sc, mc, nl in hcases])
    io = scm.run_cases(d, exprs, prelude_extra=PRELUDE, imports=IMPORTS, timeout=300, chunk=500)
    for (nm, pl, sc, mc, nl), m, i, e in zip(hcases, mo, io, exprs):
        ctx.count(1, key=("b64hdr", nm, pl, sc, mc, nl), nontrivial=True)
        rp = "echo '(import (scheme base) (scheme write) (chibi base64)) %s (write (utf8->string (hx (symbol->string (quote %s)))))' | chibi-scheme /dev/stdin" % (PRELUDE.replace("\n", " ").replace("'", "'\\''"), e.replace("(xh (string->utf8 ", "").replace("'", "'\\''"))
        ok_spec = False
        if i and i[:1] == "x" and not bad(i):
            hdr = unhex(i[1:])
            folded = hdr.startswith(nl + b"\t")          # no room for a quantum on the first line: the text starts with a fold
            if folded:
                hdr = hdr[len(nl) + 1:]
            words = hdr.split(nl + b"\t")
            pre, payload, ok_spec = b"=?" + nm + b"?B?", b"", True
            for k_, wd in enumerate(words):
                if not (wd.startswith(pre) and wd.endswith(b"?=") and len(wd) >= len(pre) + 2):
                    ok_spec = False
                    break
                body = wd[len(pre):-2]
                if len(body) % 4 or any(c not in B64_ALPHA + b"=" for c in body) or (len(pl) > 0 and (len(wd) + (sc if k_ == 0 and not folded else 0)) > mc):
                    ok_spec = False
                    break
                payload += pyb64.b64decode(body)
            ok_spec = ok_spec and payload == pl
        if i != mx(m):
            if ok_spec:
                ctx.broken("correspondence:base64-header", "model and implementation differ but the implementation's header is well formed: %s" % e[:200])
            else:
                ctx.violation("base64:encode-header:differs-from-model-and-malformed", input=e[:2000], expected=mx(m)[:600], observed=(i or "")[:600], replay=rp)
        elif not ok_spec:
            ctx.violation("base64:encode-header:malformed", input=e[:2000], expected="encoded words =?%s?B?<quanta>?= separated by nl TAB, each word (plus start-col for the first) <= max-col, payloads concatenating to the input" % nm.decode(),
                          observed=(i or "")[:600], replay=rp)
    ctx.sample(dict(kind="base64-header", expr=exprs[40][:200], model=mo[40][:200], impl=io[40][:200]))


# ------------------------------------------------------------------------------------------ every other exported entry point of the modelled codecs
def check_entry_points(ctx, d, exe, strings):
    """quoted-printable: -encode (current-output-port), -encode-string (string / bytevector source), -encode-bytevector reading a port,
    with explicit start-col / max-col / separator, -encode-header, -decode, -decode-string, -decode-bytevector reading a port, mime-header? flag;
    json: json-read / json-write on ports.  Compared with the same models the bytevector entry points are compared with."""
    rng = ctx.rng
    sel = [bs for bs in strings if len(bs) <= 300][:40] + [b"a" * 200, b"\xff" * 80, b"a_b?c=d e\tf\r\ng" * 9]
    txt = [text_payload(rng, n) for n in (0, 1, 5, 70, 75, 76, 77, 150, 400)]
    exprs, reqs, labels = [], [], []

    def case(label, expr, req):
        labels.append(label); exprs.append(expr); reqs.append(req)

    sep_default = b"=\r\n"
    for bs in sel:
        case("qp-encode-bytevector<port", '(xh (quoted-printable-encode-bytevector (open-input-bytevector (hx "%s"))))' % hexs(bs) if bs else '(xh (quoted-printable-encode-bytevector (hx "_")))',
             "qpencx 76 %s 0 %s" % (hexs(sep_default), hexs(bs)))
        col, mc, sep = rng.choice([0, 3, 10]), rng.choice([20, 40, 76, 100]), rng.choice([b"=\r\n", b"=\n", b"=\r\n "])
        case("qp-encode-bytevector:params", '(xh (quoted-printable-encode-bytevector (hx "%s") %d %d (hx "%s")))' % (hexs(bs), col, mc, hexs(sep)), "qpencx %d %s %d %s" % (mc, hexs(sep), col, hexs(bs)))
        case("qp-encode-string<bytevector", '(xh (quoted-printable-encode-string (hx "%s")))' % hexs(bs), "qpencx 76 %s 0 %s" % (hexs(sep_default), hexs(bs)))
        case("qp-decode-bytevector:mime", '(xh (quoted-printable-decode-bytevector (quoted-printable-encode-bytevector (hx "%s")) #t))' % hexs(bs), "id " + hexs(bs))
    for t in txt:
        case("qp-encode-string<string", '(xh (string->utf8 (quoted-printable-encode-string (utf8->string (hx "%s")))))' % hexs(t), "qpencx 76 %s 0 %s" % (hexs(sep_default), hexs(t)))
        case("qp-encode>current-output-port", '(let ((out (open-output-string))) (parameterize ((current-output-port out)) (quoted-printable-encode (utf8->string (hx "%s")))) (xh (string->utf8 (get-output-string out))))' % hexs(t),
             "qpencx 76 %s 0 %s" % (hexs(sep_default), hexs(t)))
        case("qp-decode>current-output-port", '(let ((out (open-output-string))) (parameterize ((current-output-port out)) (quoted-printable-decode (quoted-printable-encode-string (utf8->string (hx "%s"))))) (xh (string->utf8 (get-output-string out))))' % hexs(t),
             "id " + hexs(t))
        case("qp-decode-string", '(xh (string->utf8 (quoted-printable-decode-string (quoted-printable-encode-string (utf8->string (hx "%s"))))))' % hexs(t), "id " + hexs(t))
        case("qp-decode-bytevector<port", '(xh (quoted-printable-decode-bytevector (open-input-bytevector (quoted-printable-encode-bytevector (hx "%s")))))' % hexs(t) if t else '(xh (quoted-printable-decode-bytevector (hx "_")))', "id " + hexs(t))
    for t in (b"a_b", b"_", b"a=5Fb_c", b"x_=\r\ny_ \r\nz"):
        for mime in (0, 1):
            case("qp-decode:mime-flag", '(xh (quoted-printable-decode-bytevector (hx "%s") %s))' % (hexs(t), "#t" if mime else "#f"), "qpdecm %d %s" % (mime, hexs(t)))
    # header: model = prefix ++ qp_loop (max-col - prefix-length) ("?=" nl TAB prefix) bytes start-col ++ "?="
    hdr = []
    for nm in (b"utf-8", b"ISO-8859-1"):
        for nl in (b"\r\n", b"\n"):
            for sc, mc in ((0, 76), (9, 76), (0, 40), (20, 100)):
                for t in txt[:7] + [b"hello world?", b"=?_" * 20, "Grüße aus Köln, 日本語".encode()]:
                    pre = b"=?" + nm + b"?Q?"
                    plen = 2 + len(pre)
                    hdr.append((nm, nl, sc, mc, t, pre))
                    case("qp-encode-header", '(let ((r (quoted-printable-encode-header (utf8->string (hx "%s")) (utf8->string (hx "%s")) %d %d (utf8->string (hx "%s"))))) (xh (if (string? r) (string->utf8 r) r)))'
                         % (hexs(nm), hexs(t), sc, mc, hexs(nl)), "qpencx %d %s %d %s" % (mc - plen, hexs(b"?=" + nl + b"\t" + pre), sc, hexs(t)))
    mo = run_model(exe, reqs)
    io = scm.run_cases(d, exprs, prelude_extra=PRELUDE, imports=IMPORTS, timeout=300, chunk=500)
    hi = 0
    for lb, e, rq, m, i in zip(labels, exprs, reqs, mo, io):
        ctx.count(1, key=("entry", lb, e), nontrivial=True)
        if rq.startswith("qpdecm"):
            want = None if m == "N" else mx(m[2:])
        elif lb == "qp-encode-header":
            nm, nl, sc, mc, t, pre = hdr[hi]; hi += 1
            want = xs(pre + unhex(m) + b"?=")
        else:
            want = mx(m)
        rp = "echo '(import (scheme base) (scheme write) (chibi quoted-printable)) %s (write %s)' | chibi-scheme /dev/stdin" % (PRELUDE.replace("\n", " ").replace("'", "'\\''"), e.replace("'", "'\\''"))
        if want is None:
            if bad(i):
                ctx.violation("qp:entry:" + lb + ":crash", input=e[:2000], observed=i, replay=rp)
            continue
        if i != want:
            ctx.violation("qp:entry:" + lb, input=e[:2000], expected=want[:600], observed=(i or "")[:600], replay=rp,
                          why="an exported entry point of (chibi quoted-printable) disagrees with the model the bytevector entry point satisfies")
    ctx.sample(dict(kind="qp-header", expr=exprs[-1][:200], model=mo[-1][:100], impl=io[-1][:200]))
    # (chibi json): json-write / json-read on ports (string->json / json->string are thin wrappers, tied in check_json)
    vals = [gen_json(rng, rng.choice([0, 1, 2, 3])) for _ in range(40)] + [("s", ESC_CHARS), ("a", [("i", z) for z in INTS])]
    exprs = ['(let ((out (open-output-string))) (json-write %s out) (let* ((t (get-output-string out)) (in (open-input-string (string-append t " 7")))) '
             '(let* ((v (json-read in)) (w (json-read in))) (list (xh (string->utf8 t)) (string->symbol (string-append "V" (jshow v))) w))))' % jscheme(v) for v in vals]
    mw = run_model(exe, ["jwrite " + jwire(v) for v in vals])
    me = run_model(exe, ["jexpect " + jwire(v) for v in vals])
    io = scm.run_cases(d, exprs, prelude_extra=PRELUDE, imports=IMPORTS, timeout=300, chunk=100)
    for v, w_, e_, i, ex in zip(vals, mw, me, io, exprs):
        ctx.count(1, key=("json-port", jwire(v)), nontrivial=True)
        want = ("(%s %s 7)" % (mx(w_[2:]), "V" + e_[2:]), "(%s |%s| 7)" % (mx(w_[2:]), "V" + e_[2:]))
        if i not in want:
            ctx.violation("json:entry:json-write/json-read-on-ports", input=jwire(v)[:1000], expected=want[0][:600], observed=(i or "")[:600],
                          replay="echo '(import (scheme base) (scheme write) (chibi json)) (define (cps . l) (list->string (map integer->char l))) (let ((out (open-output-string))) (json-write %s out) (write (get-output-string out)) (write (json-read (open-input-string (get-output-string out)))))' | chibi-scheme /dev/stdin" % jscheme(v).replace("'", "'\\''"))


# ------------------------------------------------------------------------------------------ quoted-printable
def qp_lines_ok(enc):
    return all(len(l) <= 76 for l in enc.split(b"\r\n")) and all(33 <= c <= 126 or c in (13, 10) for c in enc)


def check_qp(ctx, d, exe, strings):
    import quopri
    rng = ctx.rng
    # long runs of bytes that need escaping put the soft breaks at every column class
    extra = [bytes([255]) * n for n in (23, 24, 25, 26, 49, 50, 73, 74, 75, 76, 77)] + [b"a" * n for n in (72, 73, 74, 75, 76, 77, 146, 147, 148)] \
        + [b"a" * k + b"\xff" * 3 + b"b" * 80 for k in range(68, 77)] + [b"=" * 30, b"?_" * 40, b" \t" * 40, b"\r\n" * 30]
    cases = [(bs, 0) for bs in strings + extra] + [(bs, col) for bs in extra[:6] + strings[3:12] for col in (1, 5, 72, 73, 75)]
    exprs, reqs = [], []
    for bs, col in cases:
        exprs.append('(let* ((x (hx "%s")) (e (quoted-printable-encode-bytevector x %d))) (list (xh e) (xh (quoted-printable-decode-bytevector e))))' % (hexs(bs), col))
        reqs.append("qpenc %d %s" % (col, hexs(bs)))
    mo = run_model(exe, reqs)
    io = scm.run_cases(d, exprs, prelude_extra=PRELUDE, imports=IMPORTS, timeout=150, chunk=1000)
    encs = []
    for (bs, col), m, i in zip(cases, mo, io):
        ctx.count(1, key=("qpenc", col, bs), nontrivial=len(bs) > 0)
        encs.append(unhex(m))
        want = "(%s %s)" % (mx(m), xs(bs))
        if i != want:
            rp = "echo '(import (scheme base) (scheme write) (chibi quoted-printable)) (let ((e (quoted-printable-encode-bytevector (bytevector %s) %d))) (write (utf8->string e)) (write (quoted-printable-decode-bytevector e)))' | chibi-scheme /dev/stdin" % (" ".join(map(str, bs[:400])), col)
            f = i[1:-1].split(" ") if (i and i.startswith("(") and not bad(i)) else None
            if f and len(f) == 2 and f[0] not in ("not-a-bytevector",):
                enc = unhex(f[0][1:] if f[0] != "_" else "_")
                lines_ok = qp_lines_ok(enc)
                back_ok = f[1] == xs(bs)
                rfc_ok = quopri.decodestring(enc) == bs
                if lines_ok and back_ok and rfc_ok:
                    ctx.broken("correspondence:qp-encode", "model and implementation differ but the implementation is right: %s" % hexs(bs)[:200])
                    continue
                why = ",".join(w for w, ok in (("line>76-or-bad-char", lines_ok), ("decode(encode)!=id", back_ok), ("not-rfc2045", rfc_ok)) if not ok)
            else:
                why = "no-result"
            ctx.violation("qp:encode:" + why + (":start-col" if col else ""), input=hexs(bs)[:2000], start_col=col, expected=want[:2000], observed=(i or "")[:2000], replay=rp)
    ctx.sample(dict(kind="qp-encode", input=hexs(cases[len(strings) + 3][0]), model=mo[len(strings) + 3], impl=io[len(strings) + 3]))
    # decoder: hostile text
    texts = [b"a=", b"a=4", b"a=41", b"=", b"==", b"=\n", b"=\r\n", b"a=\nb", b"a=\r\nb", b"a=\rb", b"a =\r\n b", b"a ", b"a \t", b"a \nb", b"a \r\nb", b"a \rb", b"a b", b"a_b", b"=zz", b"=4z", b"=a1", b"=A1x",
             b" ", b"\t\t", b"x=\r", b"x=3D=", b"=3D=3D", b"=\n=\n", b"  \r"]
    for e in encs[:150 if not ctx.thorough else 2000]:
        texts.append(mutate(rng, e[:rng.choice([6, 20, 80, len(e)])], b"=0123456789ABCDEFabcdef \t\r\n_?"))
    exprs = ['(xh (quoted-printable-decode-bytevector (hx "%s")))' % hexs(t) for t in texts]
    reqs = ["qpdec " + hexs(t) for t in texts]
    mo = run_model(exe, reqs)
    io = scm.run_cases(d, exprs, prelude_extra=PRELUDE, imports=IMPORTS, timeout=150, chunk=1000)
    for t, m, i in zip(texts, mo, io):
        ctx.count(1, key=("qpdec", t), nontrivial=True)
        rp = "echo '(import (scheme base) (scheme write) (chibi quoted-printable)) (write (quoted-printable-decode-bytevector (bytevector %s)))' | chibi-scheme /dev/stdin" % " ".join(map(str, t[:400]))
        if bad(i):
            ctx.violation("qp:decode-crash", input=hexs(t), expected=m, observed=i, replay=rp)
        elif m == "N":
            if not (i == "not-a-bytevector" or i.startswith("ERR")):
                ctx.violation("qp:decode-value-where-model-has-none", input=hexs(t), expected="no bytevector (the loop falls off its cond)", observed=i, replay=rp)
        elif i != mx(m[2:]):
            ctx.violation("qp:decode-value", input=hexs(t), expected=m, observed=i, replay=rp)
    ctx.sample(dict(kind="qp-decode", input=hexs(texts[7]), model=mo[7], impl=io[7]))


# ------------------------------------------------------------------------------------------ URI escaping
URI_CPS = list(range(0, 0x80)) + [0x80, 0xa0, 0xa7, 0xd7, 0xe9, 0xf7, 0xff] + [0x3bb, 0x4e2d, 0x663, 0x10400]     # ASCII, Latin-1, letters/digits above
URI_BAD = [0x20ac, 0x2028, 0x3000, 0x100 + 0x7e, 0x1f600, 0xffff]                                                # not alphanumeric, >= U+0100


def cps_utf8(cps):
    return "".join(map(chr, cps)).encode("utf-8", "surrogatepass")


def cpl(cps):
    return ",".join("%x" % c for c in cps) if cps else "_"


def check_uri(ctx, d, exe):
    rng = ctx.rng
    # which non-ASCII characters does the implementation's uri-safe-char? let through (Unicode tables: a parameter of the theorem)
    probe = [c for c in URI_CPS + URI_BAD if c >= 128]
    io = scm.run_cases(d, ['(let ((s (cps %d))) (if (equal? (uri-encode s) s) 1 0))' % c for c in probe], prelude_extra=PRELUDE, imports=IMPORTS)
    ext = [c for c, i in zip(probe, io) if i == "f1"]
    strs = [[c] for c in URI_CPS + URI_BAD] + [[37, 50, 53], [43], [32], [97, 32, 43, 37], list(range(0x20, 0x7f))]
    for _ in range(150 if not ctx.thorough else 5000):
        pool = URI_CPS if rng.random() < 0.8 else URI_CPS + URI_BAD
        strs.append([rng.choice(pool) if rng.random() < 0.7 else rng.choice(b"az09-_.!~*'() %+/?&=#") for _ in range(rng.randrange(0, 12))])
    cases = [(s, plus) for s in strs for plus in (False, True)]
    exprs = ['(let* ((s (cps %s)) (e (uri-encode s %s)) (b (uri-decode e %s))) (list (xh (string->utf8 e)) (xh (string->utf8 b))))' % (" ".join(map(str, s)), "#t" if p else "#f", "#t" if p else "#f") for s, p in cases]
    reqs = ["urienc %d %s %s" % (p, cpl(ext), cpl(s)) for s, p in cases]
    mo = run_model(exe, reqs)
    io = scm.run_cases(d, exprs, prelude_extra=PRELUDE, imports=IMPORTS, timeout=150, chunk=1000)
    encs = []
    for (s, p), m, i in zip(cases, mo, io):
        ctx.count(1, key=("urienc", p, tuple(s)), nontrivial=len(s) > 0)
        menc = [] if m == "_" else [int(x, 16) for x in m.split(",")]
        encs.append(menc)
        above = [c for c in s if c >= 256 and c not in ext]
        want = "(%s %s)" % (xs(cps_utf8(menc)), xs(cps_utf8(s)))
        if i == want:
            continue
        rp = "echo '(import (scheme base) (scheme write) (chibi uri)) (let ((e (uri-encode (list->string (map integer->char (list %s))) %s))) (write e) (write (uri-decode e %s)))' | chibi-scheme /dev/stdin" % (" ".join(map(str, s)), "#t" if p else "#f", "#t" if p else "#f")
        f = i[1:-1].split(" ") if (i and i.startswith("(") and not bad(i) and not i.startswith("(ERR")) else None
        if f and len(f) == 2 and f[0] == xs(cps_utf8(menc)) and above:
            # encoder = model; the round trip fails exactly as uri_roundtrip_refuted says
            ctx.violation("uri:roundtrip:unsafe-char-above-latin1", input=cpl(s), plus=p, expected=want, observed=i, replay=rp)
        elif f and len(f) == 2 and f[1] == xs(cps_utf8(s)):
            ctx.broken("correspondence:uri-encode", "model and implementation differ on the escaped text but the round trip holds: %s model=%s impl=%s" % (cpl(s), m, i))
        else:
            ctx.violation("uri:roundtrip:" + ("plus" if p else "plain"), input=cpl(s), plus=p, expected=want, observed=i, replay=rp)
    ctx.sample(dict(kind="uri", input=cpl(cases[70][0]), model=mo[70], impl=io[70]))
    # hostile text for the decoder
    texts = [[37], [97, 37], [97, 37, 52], [37, 52, 49], [37, 122, 122], [37, 45, 49], [37, 43, 102], [37, 49, 46], [37, 35, 101], [37, 37, 37], [37, 37, 52, 49], [37, 52, 37, 52, 49],
             [37, 70, 70], [37, 102, 102], [37, 48, 48], [43, 37, 50, 98], [0x20ac, 37, 52, 49], [37, 0x20ac, 52]]
    for e in encs[:150 if not ctx.thorough else 3000]:
        t = list(e)
        for _ in range(rng.randrange(1, 3)):
            k = rng.randrange(4)
            if k == 0 and t:
                del t[rng.randrange(len(t))]
            elif k == 1:
                t.insert(rng.randrange(len(t) + 1), rng.choice([37, 37, 43, 48, 102, 71, 45, 46, 0x3bb]))
            elif k == 2 and t:
                t = t[:rng.randrange(len(t))]
            else:
                t.append(37)
        texts.append(t)
    cases = [(t, p) for t in texts for p in (False, True)]
    exprs = ['(xh (string->utf8 (uri-decode (cps %s) %s)))' % (" ".join(map(str, t)), "#t" if p else "#f") for t, p in cases]
    reqs = ["uridec %d %s" % (p, cpl(t)) for t, p in cases]
    mo = run_model(exe, reqs)
    io = scm.run_cases(d, exprs, prelude_extra=PRELUDE, imports=IMPORTS, timeout=150, chunk=1000)
    for (t, p), m, i in zip(cases, mo, io):
        ctx.count(1, key=("uridec", p, tuple(t)), nontrivial=True)
        rp = "echo '(import (scheme base) (scheme write) (chibi uri)) (write (uri-decode (list->string (map integer->char (list %s))) %s))' | chibi-scheme /dev/stdin" % (" ".join(map(str, t)), "#t" if p else "#f")
        if bad(i):
            ctx.violation("uri:decode-crash", input=cpl(t), expected=m, observed=i, replay=rp)
        elif m != "N":
            want = xs(cps_utf8([] if m[2:] == "_" else [int(x, 16) for x in m[2:].split(",")]))
            if i != want:
                ctx.violation("uri:decode-value", input=cpl(t), plus=p, expected=want, observed=i, replay=rp)
        # model None = an escape that is not two hex digits: the code raises or (sign, decimal point) returns some character; both are "value or error"


# ------------------------------------------------------------------------------------------ numeric accessors
def py_int_encode(w, big, v):
    return (v % (1 << (8 * w))).to_bytes(w, "big" if big else "little")


def fallback_table():
    """the accessor names by the R6RS naming scheme, used to drive the sweep only when the translator could not read the stub"""
    t = []
    for w in (1, 2, 4, 8):
        for signed in (True, False):
            us, n = ("s" if signed else "u"), 8 * w
            if w == 1:
                if signed:
                    t += [dict(name="bytevector-s8-ref", set=False, endian=False, kind="KSint", width=1), dict(name="bytevector-s8-set!", set=True, endian=False, kind="KSint", width=1)]
                continue
            for nat in ("-native", ""):
                for st in (False, True):
                    t.append(dict(name="bytevector-%s%d%s-%s" % (us, n, nat, "set!" if st else "ref"), set=st, endian=not nat, kind="KSint" if signed else "KUint", width=w))
    for nm, w, kd in (("single", 4, "KF32"), ("double", 8, "KF64")):
        for nat in ("-native", ""):
            for st in (False, True):
                t.append(dict(name="bytevector-ieee-%s%s-%s" % (nm, nat, "set!" if st else "ref"), set=st, endian=not nat, kind=kd, width=w))
    return t


def zh(v):
    return ("-%x" % -v) if v < 0 else ("%x" % v)


FLOAT_VALUES = [0.0, -0.0, 1.0, -1.5, 2.0, 0.1, 1.0 / 3, 3.141592653589793, float("inf"), float("-inf"), float("nan"), 1.7976931348623157e308, 5e-324, 1e-310,
                2.2250738585072014e-308, 1.1754943508222875e-38, 1.401298464324817e-45, 3.4028234663852886e38, 1e39, -1e39, 16777217.0, 1e-46, 65504.0]


def flit(x):
    import math
    if math.isnan(x):
        return "+nan.0"
    if math.isinf(x):
        return "+inf.0" if x > 0 else "-inf.0"
    return repr(x)


def fbits(x, w):
    """the bit pattern a C conversion of the double x to a w-byte IEEE format has, as an unsigned integer"""
    import struct, math
    if w == 8:
        return int.from_bytes(struct.pack("<d", x), "little")
    try:
        return int.from_bytes(struct.pack("<f", x), "little")
    except OverflowError:
        return 0x7f800000 if x > 0 else 0xff800000


def check_accessors(ctx, d, exe, table, dasan=None):
    """K-outer over the REGENERATED table: every accessor x every offset -1 .. len+1 (and far offsets) x byte order;
    the window that counts is the ACCESSED one (sizeof of the C type the inline text copies)."""
    import struct, math
    rng = ctx.rng
    exprs, reqs, meta = [], [], []
    if not table:
        table = fallback_table()
    for e in table:
        w, name, isset, endian, kind = e["width"], e["name"], e["set"], e["endian"], e["kind"]
        isfloat = kind in ("KF32", "KF64")
        signed = kind == "KSint"
        lo, hi = (-(1 << (8 * w - 1)), (1 << (8 * w - 1)) - 1) if signed else (0, (1 << (8 * w)) - 1)
        vals = sorted(set([lo, lo + 1, hi, hi - 1, 0, 1, -1 if signed else 2, hi // 2, hi // 2 + 1, 0x0102030405060708 & hi]
                          + [rng.randrange(lo, hi + 1) for _ in range(3 if not ctx.thorough else 30)]))
        oob_vals = [hi + 1, lo - 1, 1 << 70, -(1 << 70) - 5]
        fvals = FLOAT_VALUES + [struct.unpack("<d", struct.pack("<Q", rng.getrandbits(64)))[0] for _ in range(6 if not ctx.thorough else 60)]
        fvals = [x for x in fvals if not (math.isnan(x) and x not in FLOAT_VALUES[:11])]
        for ln in sorted(set([0, 1, w - 1, w, w + 1, 2 * w + 1] + ([w + 3] if ctx.thorough else []))):      # round 4: w+3 moved to the thorough tier (quick-tier budget)
            if ln < 0:
                continue
            for k in list(range(-1, ln + 2)) + ([1 << 31, (1 << 32) + 0, -(1 << 40), 1 << 62] if ctx.thorough else [rng.choice([1 << 31, (1 << 32) + 0]), rng.choice([-(1 << 40), 1 << 62])]):
                for big in ((False, True) if endian else (False,)):
                    if isfloat and not isset:
                        # bytes that are interesting as IEEE patterns: specials in the window when there is one
                        bvb = bytearray(rng.choice((0x00, 0xff, 0x7f, 0x80, 0xf0, rng.getrandbits(8))) for _ in range(ln))
                        if 0 <= k and k + w <= ln and rng.random() < 0.6:
                            pat = fbits(rng.choice(fvals), w).to_bytes(w, "big" if big else "little")
                            bvb[k:k + w] = pat
                        bv = bytes(bvb)
                    else:
                        bv = bytes(rng.choice((0x00, 0xff, 0x7f, 0x80, rng.getrandbits(8))) for _ in range(ln))
                    earg = (" 'big" if big else " 'little") if endian else ""
                    if not isset:
                        if isfloat:
                            exprs.append('(let ((x (%s (hx "%s") %d%s)) (t (make-bytevector 8 0))) (bytevector-ieee-double-native-set! t 0 x) (xh t))' % (name, hexs(bv), k, earg))
                        else:
                            exprs.append('(%s (hx "%s") %d%s)' % (name, hexs(bv), k, earg))
                        reqs.append("bvref %d %d %d %s %s" % (w, signed, big, hexs(bv), zh(k)))
                        meta.append(("ref", name, w, signed, big, bv, k, None, kind))
                    else:
                        if isfloat:
                            x = rng.choice(fvals)
                            exprs.append('(let ((bv (hx "%s"))) (%s bv %d %s%s) (xh bv))' % (hexs(bv), name, k, flit(x), earg))
                            reqs.append("bvset %d %d %s %s %s" % (w, big, hexs(bv), zh(k), zh(fbits(x, w))))
                            meta.append(("set", name, w, signed, big, bv, k, x, kind))
                        else:
                            v = rng.choice(vals) if rng.random() < 0.9 else rng.choice(oob_vals)
                            exprs.append('(let ((bv (hx "%s"))) (%s bv %d %d%s) (xh bv))' % (hexs(bv), name, k, v, earg))
                            reqs.append("bvset %d %d %s %s %s" % (w, big, hexs(bv), zh(k), zh(v)))
                            meta.append(("set", name, w, signed, big, bv, k, v, kind))
    # arbitrary-size Scheme accessors (sizes incl. 3, 5, 9)
    for size in (1, 2, 3, 5, 8, 9):
        for signed in (False, True):
            us = "s" if signed else "u"
            lo, hi = (-(1 << (8 * size - 1)), (1 << (8 * size - 1)) - 1) if signed else (0, (1 << (8 * size)) - 1)
            for ln in (0, size - 1, size, size + 2):
                bv = bytes(rng.choice((0x00, 0xff, 0x80, rng.getrandbits(8))) for _ in range(ln))
                for k in range(-1, ln + 2):
                    for big in (False, True):
                        e = "'big" if big else "'little"
                        exprs.append('(bytevector-%sint-ref (hx "%s") %d %s %d)' % (us, hexs(bv), k, e, size))
                        reqs.append("bvref %d %d %d %s %s" % (size, signed, big, hexs(bv), zh(k)))
                        meta.append(("ref", "bytevector-%sint-ref" % us, size, signed, big, bv, k, None, "KSint" if signed else "KUint"))
                        v = rng.choice([lo, hi, 0, -1 if signed else 1, rng.randrange(lo, hi + 1)])
                        exprs.append('(let ((bv (hx "%s"))) (bytevector-%sint-set! bv %d %d %s %d) (xh bv))' % (hexs(bv), us, k, v, e, size))
                        reqs.append("bvset %d %d %s %s %s" % (size, big, hexs(bv), zh(k), zh(v)))
                        meta.append(("set", "bytevector-%sint-set!" % us, size, signed, big, bv, k, v, "KSint" if signed else "KUint"))
    mo = run_model(exe, reqs)
    builds = [("default", d, list(range(len(exprs))))]
    if dasan is not None:
        # under ASan: every case whose window is not inside the bytevector (an accepted one reads/writes outside the object) and the boundary ones
        sel = [j for j, (m_, mt) in enumerate(zip(mo, meta)) if m_ == "N" or mt[6] + mt[2] == len(mt[5]) or mt[6] == 0]
        builds.append(("asan", dasan, sel))
    shown = 0
    for label, dd, sel in builds:
        io_sel = scm.run_cases(dd, [exprs[j] for j in sel], prelude_extra=PRELUDE, imports=IMPORTS, timeout=200, chunk=1000)
        for j, i in zip(sel, io_sel):
            e, m, mt = exprs[j], mo[j], meta[j]
            kind, name, w, signed, big, bv, k, v, akind = mt
            isfloat = akind in ("KF32", "KF64")
            inb = 0 <= k and k + w <= len(bv)
            ctx.count(1, key=(label, name, big, bv, k, repr(v)), nontrivial=True)
            rp = "echo '(import (scheme base) (scheme write) (scheme bytevector)) %s (write %s)' | chibi-scheme /dev/stdin%s" % (
                PRELUDE.replace("\n", " ").replace("'", "'\\''"), e.replace("'", "'\\''"), "" if label == "default" else "   # build variant: asan")
            if bad(i):
                ctx.violation("accessor:crash:" + name, input=e, expected=m, observed=i, build=label, replay=rp)
                continue
            if m == "N":
                if not i.startswith("ERR"):
                    where = "k+w>len" if (0 <= k < len(bv)) else ("k<0" if k < 0 else "k>=len")
                    ctx.violation("accessor:out-of-bounds:%s:%s" % (name, where), input=e, expected="error (window [k,k+%d) not inside 0..%d)" % (w, len(bv)),
                                  observed=i, build=label, replay=rp)
                continue
            assert inb
            if kind == "ref" and isfloat:
                P = int(m[2:], 16)                                     # the w-byte pattern, as the model reads it (byte order applied)
                if w == 8:
                    wantbits = P
                    nan = (P >> 52) & 0x7ff == 0x7ff and P & ((1 << 52) - 1) != 0
                else:
                    x = struct.unpack("<f", P.to_bytes(4, "little"))[0]
                    nan = math.isnan(x)
                    wantbits = int.from_bytes(struct.pack("<d", x), "little")
                got = int.from_bytes(unhex(i[1:]), "little") if i[:1] == "x" and len(i) == 17 else None
                gotnan = got is not None and (got >> 52) & 0x7ff == 0x7ff and got & ((1 << 52) - 1) != 0
                if i.startswith("ERR") or got is None or (gotnan != nan) or (not nan and got != wantbits):
                    ctx.violation("accessor:ref-value:" + name, input=e, expected="double with bits %016x%s" % (wantbits, " (any NaN)" if nan else ""), observed=i, build=label, replay=rp)
            elif kind == "ref":
                p = scm.parse_int(i)
                if p is None or ("S " + zh(p[1])) != m:
                    ref = int.from_bytes(bv[k:k + w], "big" if big else "little", signed=signed)
                    if p is None or p[1] != ref:
                        ctx.violation("accessor:ref-value:" + name, input=e, expected=zh(ref), observed=i, build=label, replay=rp)
                    else:
                        ctx.broken("correspondence:accessor-ref", "model differs, implementation right: %s model=%s impl=%s" % (e, m, i))
            elif isfloat:
                if i != mx(m[2:]):
                    if math.isnan(v) and i[:1] == "x":
                        got = unhex(i[1:])[k:k + w]
                        gx = struct.unpack(("<" if not big else ">") + ("d" if w == 8 else "f"), got)[0] if len(got) == w else 0.0
                        if math.isnan(gx) and unhex(i[1:])[:k] == bv[:k] and unhex(i[1:])[k + w:] == bv[k + w:]:
                            continue        # some NaN was stored; which one is the C library's choice
                    ctx.violation("accessor:set-bytes:" + name, input=e, expected=mx(m[2:]), observed=i, build=label, replay=rp,
                                  why="bytes after storing %s must be the IEEE pattern %x in the requested byte order, nothing outside the window changed" % (flit(v), fbits(v, w)))
            else:
                lo, hi = (-(1 << (8 * w - 1)), (1 << (8 * w - 1)) - 1) if signed else (0, (1 << (8 * w)) - 1)
                if i.startswith("ERR") and not (lo <= v <= hi):
                    continue        # a value outside the representable range may be refused (u8) or reduced mod 2^bits (stub accessors)
                if i != mx(m[2:]):
                    ref = bv[:k] + py_int_encode(w, big, v) + bv[k + w:]
                    if i != xs(ref):
                        ctx.violation("accessor:set-bytes:" + name, input=e, expected=hexs(ref), observed=i, build=label, replay=rp)
                    else:
                        ctx.broken("correspondence:accessor-set", "model differs, implementation right: %s model=%s impl=%s" % (e, m, i))
            if shown < 3 and inb and w > 1 and (isfloat or shown < 1):
                ctx.sample(dict(kind="accessor", expr=e, model=m, impl=i)); shown += 1


def check_accessor_exports(ctx, table):
    """every -ref / -set! accessor exported by (scheme bytevector) is either a row of the regenerated table or one of the
    Scheme-level ones the model covers directly"""
    import re
    src = open(os.path.join(B.REPO, "lib", "scheme", "bytevector.sld")).read()
    m = re.search(r"\(export(.*?)\)\s*\(cond-expand", src, re.S)
    names = set(re.findall(r"bytevector-[a-z0-9-]+-(?:ref|set!)", m.group(1) if m else src))
    have = set(e["name"] for e in table) | {"bytevector-u8-ref", "bytevector-u8-set!", "bytevector-uint-ref", "bytevector-sint-ref", "bytevector-uint-set!", "bytevector-sint-set!"}
    missing = sorted(names - have)
    if missing and table:
        ctx.broken("gen:C19_AccTable:exports", "accessors exported by lib/scheme/bytevector.sld with no row in the table regenerated from bytevector.stub: %s" % " ".join(missing))
    ctx.note("accessor table: %d rows regenerated from lib/scheme/bytevector.stub (%d ieee); %d accessor names exported by bytevector.sld" % (len(table), sum(1 for e in table if e["kind"] in ("KF32", "KF64")), len(names)))


UV_LIBS = "(srfi 160 base) (srfi 160 prims) (only (srfi 160 f8) make-f8vector) (only (srfi 160 f16) make-f16vector)"
UV_IMPORTS = IMPORTS + "\n(import " + UV_LIBS + ")"


def check_uvectors(ctx, d, dasan, rows):
    """SRFI 160 accessors (rows regenerated from uvprims.stub): every index -1 .. len+1 and far ones; outside 0 <= i < len an error,
    inside: ref of a fresh vector is zero, set! changes exactly element i"""
    exprs, meta = [], []
    for r in rows:
        t = r["elem"]
        val = "(make-rectangular 1.0 2.0)" if t.startswith("c") else ("1.0" if t == "f8" else "1.5" if t.startswith("f") else "1")
        for n in (0, 1, 3):
            for k in list(range(-1, n + 2)) + [1 << 31, 1 << 32, -(1 << 40)]:
                if not r["set"]:
                    exprs.append("(zero? (%s (make-%svector %d 0) %d))" % (r["name"], t, n, k))
                else:
                    exprs.append("(let ((v (make-%svector %d 0))) (%s v %d %s) (let lp ((i 0) (nz 0)) (if (= i %d) (list (equal? (%svector-ref v %d) %s) nz) "
                                 "(lp (+ i 1) (if (zero? (%svector-ref v i)) nz (+ nz 1))))))" % (t, n, r["name"], k, val, n, t, k, val, t))
                meta.append((r, n, k))
    for label, dd in (("default", d), ("asan", dasan)):
        if dd is None:
            continue
        io = scm.run_cases(dd, exprs, prelude_extra=PRELUDE, imports=UV_IMPORTS, timeout=200, chunk=1000)
        for e, (r, n, k), i in zip(exprs, meta, io):
            ctx.count(1, key=("uv", label, r["name"], n, k), nontrivial=True)
            rp = "echo '(import (scheme base) (scheme write) (scheme complex) %s) (write %s)' | chibi-scheme /dev/stdin%s" % (UV_LIBS, e, "" if label == "default" else "   # build variant: asan")
            inb = 0 <= k < n
            if bad(i):
                ctx.violation("uvector:crash:" + r["name"], input=e, observed=i, build=label, replay=rp)
            elif not inb and not i.startswith("ERR"):
                ctx.violation("uvector:out-of-bounds:%s:%s" % (r["name"], "i<0" if k < 0 else "i>=len"), input=e, expected="error (index %d not in 0..%d)" % (k, n - 1), observed=i, build=label, replay=rp)
            elif inb and i != ("(#t 1)" if r["set"] else "#t"):
                ctx.violation("uvector:value:" + r["name"], input=e, expected="(#t 1)" if r["set"] else "#t", observed=i, build=label, replay=rp)



# ------------------------------------------------------------------------------------------ mini-floats (sexp.c f16 / f8)
import struct
from fractions import Fraction

MF_PRELUDE = r"""
(define (mf-through vec set ref in)   ; in: bytevector of native doubles -> hex of the doubles (ref (set x)); NaN canonical
  (let* ((n (quotient (bytevector-length in) 8)) (out (make-bytevector (* 8 n) 0)))
    (do ((i 0 (+ i 1))) ((= i n) (xh out))
      (set vec 0 (bytevector-ieee-double-native-ref in (* 8 i)))
      (let ((r (ref vec 0)))
        (bytevector-ieee-double-native-set! out (* 8 i) (if (= r r) r +nan.0))))))
(define (mf-refs vec ref)   ; all elements of a uniform vector as doubles, hex
  (let* ((n (uvector-length vec)) (out (make-bytevector (* 8 n) 0)))
    (do ((i 0 (+ i 1))) ((= i n) (xh out))
      (let ((r (ref vec i)))
        (bytevector-ieee-double-native-set! out (* 8 i) (if (= r r) r +nan.0))))))
(define (mf-read-write s ref)   ; literal text -> (elements as read) and (elements after write + read again)
  (let* ((v (read (open-input-string s)))
         (o (open-output-string)))
    (write v o)
    (list (mf-refs v ref) (mf-refs (read (open-input-string (get-output-string o))) ref))))
"""
MF_LIBS = "(srfi 160 prims) (only (srfi 160 f8) make-f8vector) (only (srfi 160 f16) make-f16vector)"
NANC = 0x7FF8000000000000
SIGN = 1 << 63


def dbits(x):
    return struct.unpack("<Q", struct.pack("<d", x))[0]


def bitsd(b):
    return struct.unpack("<d", struct.pack("<Q", b))[0]


def is_nan_bits(b):
    return (b & (SIGN - 1)) > 0x7FF0000000000000


def canon_f64(tok):
    """model / harness answer token ('nan' or hex) -> canonical bits"""
    return NANC if tok == "nan" else int(tok, 16)


def half_val(h):
    """the value sexp.c assigns to a half pattern (Fraction), or 'inf' / '-inf' / 'nan' for the three special patterns"""
    if h == 0x7C00: return "inf"
    if h == 0xFC00: return "-inf"
    if h == 0x7FFF: return "nan"
    s, e, m = h >> 15, (h >> 10) & 31, h & 1023
    v = Fraction(m, 1 << 24) if e == 0 else Fraction(1024 + m) * Fraction(2) ** (e - 25)
    return -v if s else v


def quarter_val(q):
    """1.5.2, bias 15; 124 = infinity, 125..127 NaN"""
    r = q & 127
    if r > 124: return "nan"
    if r == 124: return "-inf" if q & 128 else "inf"
    e, m = r >> 2, r & 3
    v = Fraction(m, 1 << 16) if e == 0 else Fraction(4 + m) * Fraction(2) ** (e - 17)
    return -v if q & 128 else v


def sch_double(b):
    """Scheme literal denoting exactly the double with bits b"""
    if is_nan_bits(b): return "+nan.0"
    x = bitsd(b)
    if x == float("inf"): return "+inf.0"
    if x == float("-inf"): return "-inf.0"
    return repr(x)


def mf_test_doubles(ctx, h2d, q2d):
    """doubles (bit patterns) aimed at every case split of the two encoders; h2d / q2d = the model's decode tables"""
    rng = ctx.rng
    half, quarter = [], []
    step = 1 if ctx.thorough else 5
    hot = set(range(0, 48)) | set(range(0x1F0, 0x212)) | set(range(0x3F0, 0x412)) | set(range(0x7BF0, 0x7C10)) | set(range(0x7FE0, 0x7FFF))
    off = rng.randrange(step)
    for a in range(0, 0x7FFE):
        if not (a in hot or a % step == off):
            continue
        x, y = h2d[a], h2d[a + 1]
        if x == NANC or y == NANC or x >= 0x7FF0000000000000 or y >= 0x7FF0000000000000:
            continue
        mid = dbits((bitsd(x) + bitsd(y)) / 2)        # exact: adjacent halves have <= 12 significant bits
        for b in (mid, mid - 1, mid + 1, mid - (1 << 29), mid + (1 << 29), x + 1, y - 1, x + (1 << 29), y - (1 << 29)):
            half.append(b)
            half.append(b | SIGN)
    special = [0, 1, 0x000FFFFFFFFFFFFF, 0x0010000000000000, 0x7FEFFFFFFFFFFFFF, 0x7FF0000000000000, 0x7FF8000000000000, 0x7FF0000000000001, 0xFFF8000000000001,
               dbits(2.0 ** -24), dbits(2.0 ** -25), dbits(2.0 ** -25) - 1, dbits(2.0 ** -25) + 1, dbits(2.0 ** -25) - (1 << 29), dbits(2.0 ** -26), dbits(2.0 ** -14), dbits(2.0 ** -14) - 1,
               dbits(2.0 ** -15), dbits(2.0 ** -15) - 1, dbits(2.0 ** -15) + 1, dbits(3.0 * 2.0 ** -16), dbits(65504.0), dbits(65519.99), dbits(65520.0), dbits(65520.0) - 1, dbits(65520.0) - (1 << 29),
               dbits(65536.0), dbits(70000.0), dbits(131008.0), dbits(131039.0), dbits(131040.0), dbits(131072.0), dbits(1e10), dbits(1e300), dbits(3.4028234663852886e38), dbits(3.5e38),
               dbits(2.0 ** -126), dbits(2.0 ** -149), dbits(1.0), dbits(1.5), dbits(0.1), dbits(1.0 / 3.0), dbits(1000.5), dbits(2049.0), dbits(2051.0), dbits(57344.0), dbits(57345.0), dbits(61440.0), dbits(61441.0),
               dbits(2.0 ** -16), dbits(2.0 ** -17), dbits(2.0 ** -17) + 1, dbits(2.0 ** -17) - 1]
    for b in special:
        for bb in (b, b ^ SIGN):
            half.append(bb)
            quarter.append(bb)
    for _ in range(3000 if not ctx.thorough else 60000):     # random: exponent around the half range, random mantissa, some with few bits
        e = rng.choice([rng.randrange(1023 - 30, 1023 + 20), rng.randrange(1023 - 27, 1023 - 12), rng.randrange(0, 2047)])
        m = rng.getrandbits(52) if rng.random() < 0.6 else (rng.getrandbits(14) << 38) | (rng.getrandbits(2) << rng.randrange(0, 38))
        b = (rng.getrandbits(1) << 63) | (e << 52) | m
        half.append(b)
        quarter.append(b)
    for i in range(0, 123):
        x, y = q2d[i], q2d[i + 1]
        mid = dbits((bitsd(x) + bitsd(y)) / 2)
        for b in (mid, mid - 1, mid + 1, x + 1, y - 1, mid + 1000, mid - 1000):
            quarter.append(b)
            quarter.append(b | SIGN)
    return half, quarter


def _limited_broken(ctx, limit=3):
    """ctx.broken, at most `limit` times per name (a systematic model/code difference would otherwise flood the evidence)"""
    seen = {}
    def f(name, reason):
        seen[name] = seen.get(name, 0) + 1
        if seen[name] <= limit:
            ctx.broken(name, reason + (" (further cases of this kind are not listed)" if seen[name] == limit else ""))
    return f


def check_minifloats(ctx, d, exe):
    """K-inner: the four C functions of the scratch build's libchibi-scheme (harness/embed_c19_half.c) vs the extracted model on bit patterns:
    every half / quarter pattern decoded, every decoded value re-encoded, doubles straddling every rounding boundary; K-outer: the same through
    f16vector-set!/ref, f8vector-set!/ref and the #f16( ) / #f8( ) reader and writer of the real binary"""
    here = os.path.dirname(os.path.abspath(__file__))
    broken = _limited_broken(ctx)
    try:
        emb = B.cc_embed(d, os.path.join(here, "..", "harness", "embed_c19_half.c"), os.path.join(d, "embed_c19_half"))
    except B.BuildError as e:
        ctx.broken("minifloat:harness", "harness/embed_c19_half.c does not build against the scratch tree: %s" % str(e)[-300:])
        return

    def harness(lines):
        r = subprocess.run([emb], input="\n".join(lines) + "\n", capture_output=True, text=True, timeout=600, env=B.chibi_env(d))
        if r.returncode != 0:
            return None, "rc %d %s" % (r.returncode, r.stderr[-300:])
        return r.stdout.split("\n")[:-1], None

    mo = run_model(exe, ["allh2d", "allq2d"])
    io, err = harness(["allh2d", "allq2d"])
    if err:
        ctx.violation("minifloat:crash:decode-sweep", input="allh2d allq2d", observed=err, replay="%s <<< allh2d" % emb)
        return
    mh, mq = [canon_f64(t) for t in mo[0].split()], [canon_f64(t) for t in mo[1].split()]
    ih, iq = [canon_f64(t) for t in io[0].split()], [canon_f64(t) for t in io[1].split()]
    rp_set = "echo '(import (scheme base) (scheme write) %s) (let ((v (make-%svector 1 0))) (%svector-set! v 0 %s) (write (%svector-ref v 0)))' | chibi-scheme /dev/stdin"
    # ---- decoders, exhaustively; the oracle is the format's formula (half_val / quarter_val), not the model
    for name, mt, it, val in (("half", mh, ih, half_val), ("quarter", mq, iq, quarter_val)):
        t = "f16" if name == "half" else "f8"
        for p, (m, i) in enumerate(zip(mt, it)):
            ctx.count(1, key=("mf-dec", name, p), nontrivial=True)
            exp = val(p)
            if isinstance(exp, Fraction):
                ok = i != NANC and (i & (SIGN - 1)) < 0x7FF0000000000000 and Fraction(bitsd(i)) == exp and (i >> 63) == (p >> (15 if name == "half" else 7))
            else:
                ok = i == {"inf": 0x7FF0000000000000, "-inf": 0xFFF0000000000000, "nan": NANC}[exp]
            if not ok:
                ctx.violation("minifloat:%s-to-double:wrong-value" % name, input="pattern 0x%x" % p, expected="%s" % (float(exp) if isinstance(exp, Fraction) else exp),
                              observed="bits %016x = %r" % (i, bitsd(i)), replay="echo '%s %x' | %s   # = (%svector-ref v 0) of a vector holding that pattern" % ("h2d" if name == "half" else "q2d", p, emb, t))
            elif m != i:
                broken("minifloat:model-vs-code:%s-to-double" % name, "pattern 0x%x: model %016x, code %016x (code agrees with the format)" % (p, m, i))
    if len(mh) != 65536 or len(ih) != 65536 or len(mq) != 256 or len(iq) != 256:
        ctx.broken("minifloat:sweep-size", "decode sweep returned %d/%d/%d/%d values" % (len(mh), len(ih), len(mq), len(iq)))
        return
    # ---- encoders: every decoded value + boundary / special / random doubles
    half, quarter = mf_test_doubles(ctx, mh, mq)
    hreq = [("d2h", b, p) for p, b in enumerate(mh)] + [("d2h", b, None) for b in half]
    qreq = [("d2q", b, p) for p, b in enumerate(mq)] + [("d2q", b, None) for b in quarter]
    reqs = hreq + qreq
    lines = ["%s %x" % (op, b) for op, b, _ in reqs]
    mo = run_model(exe, lines)
    io, err = harness(lines)
    if err:
        ctx.violation("minifloat:crash:encode", input="%d doubles" % len(lines), observed=err, replay="%s < requests" % emb)
        return
    hv = [None] * 65536
    for h in range(65536):
        v = half_val(h)
        hv[h] = float(v) if isinstance(v, Fraction) else None
    qv = [None] * 256
    for q in range(256):
        v = quarter_val(q)
        qv[q] = float(v) if isinstance(v, Fraction) else None
    for (op, b, p), m, i in zip(reqs, mo, io):
        ctx.count(1, key=("mf-enc", op, b), nontrivial=True)
        name, t = ("half", "f16") if op == "d2h" else ("quarter", "f8")
        got = int(i, 16)
        rp = rp_set % (MF_LIBS, t, t, sch_double(b), t)
        if p is not None:       # b is the decoding of pattern p: the round trip itself (no model involved)
            canon = p if op == "d2h" else (127 if (p & 127) > 124 else 0 if p == 128 else p)
            if got != canon:
                ctx.violation("minifloat:%s-roundtrip" % name, input="pattern 0x%x = double %r (bits %016x)" % (p, bitsd(b), b), expected="0x%x" % canon, observed="0x%x" % got, replay=rp)
                continue
        # rounds to a nearest representable value?  exact oracle from the format's formula, inside the range where the format is plain IEEE
        # (slack: sexp_double_to_half first rounds to binary32); beyond the range only model = code is checked
        mag = b & (SIGN - 1)
        tab, top, lim = (hv, 0x7BFF, 65520.0) if op == "d2h" else (qv, 123, 57344.0)
        if mag < 0x7FF0000000000000 and abs(bitsd(b)) < lim and p is None:
            x = bitsd(b)
            sgn = (0x8000 if op == "d2h" else 128) if (b >> 63) else 0
            gm = got - sgn
            ok = 0 <= gm <= top + 1 and (got == sgn + top + 1 or tab[got] is not None)
            if ok and gm <= top:
                err = abs(tab[got] - x)
                slack = abs(x) / (1 << 23)
                for nb in (gm - 1, gm + 1):
                    if 0 <= nb <= top and abs(tab[sgn + nb] - x) + slack < err:
                        ok = False
            elif ok:            # rounded up to the infinity pattern: only from the upper half of the last interval
                ok = abs(x) >= (tab[top] + lim) / 2 - abs(x) / (1 << 23)
            if x == 0 and op == "d2q":
                ok = got == 0
            if not ok:
                ctx.violation("minifloat:double-to-%s:not-nearest" % name, input="double %r (bits %016x)" % (x, b), expected="a nearest representable %s (model: 0x%s)" % (name, m), observed="0x%x = %r" % (got, tab[got] if 0 <= got < len(tab) else None), replay=rp)
                continue
        if m != i:
            broken("minifloat:model-vs-code:" + op, "double bits %016x: model 0x%s, code 0x%x" % (b, m, got))
    ctx.sample(dict(kind="minifloat", request=lines[0x0200], model=mo[0x0200], impl=io[0x0200]))
    # ---- K-outer: f16vector-set!/ref and f8vector-set!/ref of the real binary on the same doubles; reader / writer of the literals
    exprs, meta = [], []
    def through(t, bits, label, exp=None):
        if exp is None:
            lines = ["%s %x" % ("d2h" if t == "f16" else "d2q", b) for b in bits]
            enc = run_model(exe, lines)
            dec = run_model(exe, ["%s %s" % ("h2d" if t == "f16" else "q2d", e) for e in enc])
            exp = [canon_f64(x) for x in dec]
        for k in range(0, len(bits), 8192):
            chunk = bits[k:k + 8192]
            exprs.append('(mf-through (make-%svector 1 0) %svector-set! %svector-ref (hx "%s"))' % (t, t, t, b"".join(struct.pack("<Q", b) for b in chunk).hex()))
            meta.append(("through", t, chunk, exp[k:k + 8192], label))
        return exp
    # representable values must come back unchanged (spec, not model): halves all; quarters up to NaN collapse and -0 -> +0
    through("f16", ih, "every-pattern", list(ih))
    through("f16", half[:12000] if not ctx.thorough else half, "boundaries")
    through("f8", iq, "every-pattern", [iq[127 if (q & 127) > 124 else 0 if q == 128 else q] for q in range(256)])
    through("f8", quarter[:6000] if not ctx.thorough else quarter, "boundaries")
    # literals: 64 values per literal
    pool = [b for b in (mh[::97] + half[:600:3]) if not is_nan_bits(b)]
    for t, pl in (("f16", pool), ("f8", [b for b in (mq + quarter[:300:3]) if not is_nan_bits(b)])):
        lines = ["%s %x" % ("d2h" if t == "f16" else "d2q", b) for b in pl]
        enc = run_model(exe, lines)
        dec = [canon_f64(x) for x in run_model(exe, ["%s %s" % ("h2d" if t == "f16" else "q2d", e) for e in enc])]
        enc2 = run_model(exe, ["%s %x" % ("d2h" if t == "f16" else "d2q", b) for b in dec])      # the written text is read again: -0 of a quarter becomes +0
        dec2 = [canon_f64(x) for x in run_model(exe, ["%s %s" % ("h2d" if t == "f16" else "q2d", e) for e in enc2])]
        for k in range(0, len(pl), 64):
            chunk = pl[k:k + 64]
            exprs.append('(mf-read-write "#%s(%s)" %svector-ref)' % (t, " ".join(sch_double(b) for b in chunk), t))
            meta.append(("literal", t, chunk, (dec[k:k + 64], dec2[k:k + 64]), "reader-writer"))
    io = scm.run_cases(d, exprs, prelude_extra=PRELUDE + MF_PRELUDE, imports=IMPORTS + "\n(import (scheme read) " + MF_LIBS + ")", timeout=300, chunk=8)
    for e, (kind, t, chunk, exp, label), i in zip(exprs, meta, io):
        exp, exp2 = exp if kind == "literal" else (exp, exp)
        ctx.count(len(chunk), key=("mf-outer", kind, t, label, chunk[0], len(chunk)), nontrivial=True)
        if bad(i) or i.startswith("ERR"):
            ctx.violation("minifloat:%s:%s:crash-or-error" % (t, kind), input=e[:200], observed=(i or "")[:300], replay="chibi-scheme with " + e[:300])
            continue
        outs = [i] if kind == "through" else i.strip("()").split()
        for which, o in enumerate(outs):
            ex = exp if which == 0 else exp2
            gl = list(struct.unpack("<%dQ" % len(chunk), bytes.fromhex(o[1:]))) if o.startswith("x") and len(o) == 1 + 16 * len(chunk) else None
            if gl is not None:
                gl = [NANC if is_nan_bits(g) else g for g in gl]       # sign and payload of a NaN are not compared
                if gl == ex:
                    continue
            j = next((j for j in range(len(chunk)) if gl[j] != ex[j]), 0) if gl else 0
            gj = gl[j] if gl else None
            exp = ex
            what = "set!-then-ref" if kind == "through" else ("read" if which == 0 else "write-then-read")
            if kind == "through":
                rp = rp_set % (MF_LIBS, t, t, sch_double(chunk[j]), t)
            else:
                rp = "echo '(import (scheme base) (scheme read) (scheme write) %s) (write (%svector-ref (read (open-input-string \"#%s(%s)\")) 0))' | chibi-scheme /dev/stdin" % (MF_LIBS, t, t, sch_double(chunk[j]))
            # a representable value that does not come back is the round-trip clause itself
            ctx.violation("minifloat:%s:%s:%s" % (t, what, "representable-value-changed" if chunk[j] == exp[j] else "differs-from-model"),
                          input="double %r (bits %016x)" % (bitsd(chunk[j]), chunk[j]), expected="%r (bits %016x)" % (bitsd(exp[j]), exp[j]),
                          observed=("%r (bits %016x)" % (bitsd(gj), gj)) if gj is not None else o[:80], replay=rp)
            break

# ------------------------------------------------------------------------------------------ CSV
CSV_PRELUDE = r"""
(define (csv-g seps qc dbl esc rs)    ; build the grammar through the public constructor
  (csv-grammar (list (cons 'separator-chars (map integer->char seps))
                     (cons 'quote-char (and qc (integer->char qc)))
                     (cons 'quote-doubling-escapes? dbl)
                     (cons 'escape-char (and esc (integer->char esc)))
                     (cons 'record-separator (if (integer? rs) (integer->char rs) rs)))))
(define (s->cps s) (map char->integer (string->list s)))
(define (csv-w g rows) (let ((o (open-output-string))) ((csv-write (csv-writer g)) rows o) (get-output-string o)))
(define (csv-r g s) (csv->list (csv-read->list (csv-parser g)) (open-input-string s)))
(define (rows->cps rows) (map (lambda (r) (map s->cps r)) rows))
(define (csv-wr g rows)      ; -> (text read-back)
  (let ((t (csv-w g rows))) (list (s->cps t) (rows->cps (csv-r g t)))))
(define (csv-others g s)     ; the other readers / folds must agree with csv->list on the same text
  (let* ((p (csv-parser g))
         (a (csv-r g s))
         (v (csv-map vector->list (csv-read->vector p) (open-input-string s)))
         (n (csv-fold (lambda (row acc) (+ acc 1)) 0 (csv-read->list p) (open-input-string s)))
         (fe (let ((acc '())) (csv-for-each (lambda (row) (set! acc (cons row acc))) (csv-read->list p) (open-input-string s)) (reverse acc)))
         (sx ((csv->sxml 'r (lambda (i) i) p) (open-input-string s)))
         (w (if (pair? a) (length (car a)) 0))
         (fv (if (and (pair? a) (every-same-length? a))
                 (csv-map vector->list (csv-read->fixed-vector w p) (open-input-string s))
                 a)))
    (list (equal? a v) (= n (length a)) (equal? a fe)
          (equal? a (map (lambda (row) (map cadr (cdr row))) (cdr sx)))
          (equal? a fv))))
(define (every-same-length? a) (let ((w (length (car a)))) (let lp ((a a)) (or (null? a) (and (= w (length (car a))) (lp (cdr a)))))))
"""
CSV_IMPORTS = IMPORTS + "\n(import (chibi csv))"
CSV_GRAMMARS = [   # (seps, quote, dbl, esc, rs)  rs: 'lax' | 'crlf' | code point
    ([44], 34, True, None, "lax"),
    ([59], 34, True, None, "lax"),
    ([9], 34, True, None, "crlf"),
    ([59, 9, 44], 39, True, None, "lax"),
    ([44], 34, False, 92, "lax"),
    ([44], 34, True, 92, "crlf"),
    ([59], 39, False, 92, 10),      # 'lf
    ([44], 34, True, None, 13),     # 'cr
    ([44], 34, True, None, 124),    # a single-character record separator
    ([124], 96, True, 94, 59),
]


def csv_gtok(g):
    seps, q, dbl, esc, rs = g
    return "%s:%s:%d:%s:%s" % (".".join("%x" % c for c in seps), "n" if q is None else "%x" % q, 1 if dbl else 0, "n" if esc is None else "%x" % esc, rs if isinstance(rs, str) else "%x" % rs)


def csv_gscm(g):
    seps, q, dbl, esc, rs = g
    return "(csv-g '(%s) %s %s %s %s)" % (" ".join(map(str, seps)), "#f" if q is None else q, "#t" if dbl else "#f", "#f" if esc is None else esc, ("'" + rs) if isinstance(rs, str) else rs)


def csv_rows_tok(rows):
    if not rows:
        return "-"
    return "|".join("~" if not r else ";".join(cpl(f) for f in r) for r in rows)


def csv_rows_parse(tok):
    if tok == "-":
        return []
    return [[] if r == "~" else [[] if f == "_" else [int(x, 16) for x in f.split(",")] for f in r.split(";")] for r in tok.split("|")]


def csv_rows_scm(rows):
    return "(list %s)" % " ".join("(list %s)" % " ".join("(cps %s)" % " ".join(map(str, f)) for f in r) for r in rows)


def csv_parse_nested(txt):
    """'((97 98) ...)' nested lists of integers as written by chibi -> python lists"""
    out, stack, num = None, [], ""
    for ch in txt + " ":
        if ch.isdigit():
            num += ch
            continue
        if num:
            stack[-1].append(int(num)); num = ""
        if ch == "(":
            stack.append([])
        elif ch == ")":
            l = stack.pop()
            if stack: stack[-1].append(l)
            else: out = l
    return out


def csv_gen_field(rng, g):
    seps, q, dbl, esc, rs = g
    special = list(seps) + [13, 10, 32] + ([q] if q is not None else []) + ([esc] if esc is not None else []) + ([rs] if isinstance(rs, int) else []) + [34, 44, 59]
    plain = [97, 98, 0x41, 0x7A, 0x30, 0xE9, 0x3BB, 0x1F600, 35]
    r = rng.random()
    if r < 0.12:
        return []
    n = rng.choice([1, 1, 2, 2, 3, 4, 6])
    f = [rng.choice(plain) for _ in range(n)]
    k = rng.random()
    if k < 0.75:     # a special character (or CR LF pair) at the start, the middle, the end, or everywhere
        where = rng.choice(["start", "mid", "end", "all", "two"])
        sp = [rng.choice(special)] if rng.random() < 0.8 else [13, 10]
        if where == "start": f = sp + f
        elif where == "end": f = f + sp
        elif where == "mid": f = f[:n // 2] + sp + f[n // 2:]
        elif where == "two": f = sp + f + [rng.choice(special)]
        else: f = [rng.choice(special) for _ in range(n)]
    return f


def csv_gen_table(rng, g):
    rows = []
    for _ in range(rng.choice([1, 1, 2, 3, 4])):
        r = rng.random()
        if r < 0.06: rows.append([])
        elif r < 0.12: rows.append([[]])
        else: rows.append([csv_gen_field(rng, g) for _ in range(rng.choice([1, 2, 2, 3, 4]))])
    return rows


def check_csv(ctx, d, exe):
    """(chibi csv): csv-write / csv-writer vs the model's text, code point for code point; (csv->list (csv-read->list parser)) of the written text =
    the table minus the two unrepresentable row shapes (SPEC, csv_roundtrip) = the model's reader; the reader on hostile texts = the model's value or an
    error where the model has None; the other readers and folds agree with csv->list"""
    rng = ctx.rng
    broken = _limited_broken(ctx)
    representable = lambda r: not (r == [] or r == [[]])
    # ---- tables through writer and reader, every grammar
    cases = []
    fixed = [[[[97], [13]]], [[[13]]], [[[97, 13]]], [[[13, 97]]], [[[10]]], [[[13, 10]]], [[[97], [98, 13]], [[99]]], [[[34]]], [[[44]]], [[[]]], [[]], [[[], []]], [[[], [97]]], [[[97], []]],
             [[[32]]], [[[97, 32, 98]]], [[[35]]], [[[97]], [[]], [[98]]], []]
    for g in CSV_GRAMMARS:
        for t in fixed:
            cases.append((g, t))
        for sp in list(g[0]) + [g[1], g[3], g[4] if isinstance(g[4], int) else None]:
            if sp is not None:
                for f in ([sp], [97, sp], [sp, 97], [97, sp, 98], [sp, sp]):
                    cases.append((g, [[[120], f], [f, [121]], [f]]))
        for _ in range(60 if not ctx.thorough else 1500):
            cases.append((g, csv_gen_table(rng, g)))
    reqs = ["csvw %s %s" % (csv_gtok(g), csv_rows_tok(t)) for g, t in cases]
    mo = run_model(exe, reqs)
    exprs = ["(csv-wr %s %s)" % (csv_gscm(g), csv_rows_scm(t)) for g, t in cases]
    io = scm.run_cases(d, exprs, prelude_extra=PRELUDE + CSV_PRELUDE, imports=CSV_IMPORTS, timeout=120, chunk=400)
    for (g, t), m, i, e in zip(cases, mo, io, exprs):
        ctx.count(1, key=("csv-wr", csv_gtok(g), csv_rows_tok(t)), nontrivial=bool(t))
        rp = "echo '(import (scheme base) (scheme write) (chibi csv)) %s (write %s)' | chibi-scheme /dev/stdin" % (" ".join(CSV_PRELUDE.split("\n")), e)
        rp = "cat > /tmp/csv-replay.scm <<'EOF'\n(import (scheme base) (scheme write) (chibi csv))\n(define (cps . l) (list->string (map integer->char l)))%s\n(write %s)\nEOF\nchibi-scheme /tmp/csv-replay.scm   # -> (text read-back) as code point lists" % (CSV_PRELUDE, e)
        if bad(i):
            ctx.violation("csv:crash", input=e[:300], observed=i, replay=rp)
            continue
        if i.startswith("ERR"):
            if m != "N":
                ctx.violation("csv:write-read:error-on-well-formed-table", input="grammar %s table %s" % (csv_gtok(g), csv_rows_tok(t)), expected="text " + m, observed=i[:200], replay=rp)
            continue
        got = csv_parse_nested(i)
        text, back = got[0], got[1]
        want = [r for r in t if representable(r)]
        if back != want:
            ctx.violation("csv:roundtrip:%s" % ("default-grammar" if g == CSV_GRAMMARS[0] else "custom-grammar"), input="grammar %s table %s" % (csv_gtok(g), csv_rows_tok(t)),
                          expected="read back %s" % csv_rows_tok(want), observed="text %s read back as %s" % (cpl(text), csv_rows_tok(back)), replay=rp)
        elif m == "N" or cpl(text) != m[2:]:
            broken("csv:model-vs-code:writer", "grammar %s table %s: model %s, code %s (the code's text reads back correctly)" % (csv_gtok(g), csv_rows_tok(t), m, cpl(text)))
    ctx.sample(dict(kind="csv", request=reqs[7], model=mo[7], impl=io[7]))
    # ---- the reader on arbitrary text: every string up to length 4 over {a , " CR LF} for the default grammar, seeded hostile strings for all grammars
    texts = []
    import itertools
    for n in range(0, 5 if not ctx.thorough else 6):
        for tup in itertools.product([97, 44, 34, 13, 10], repeat=n):
            texts.append((CSV_GRAMMARS[0], list(tup)))
    for g in CSV_GRAMMARS:
        alpha = [97, 98, 32, 13, 10, 34, 44, 59, 9, 39, 92, 124, 0xE9, 0x1F600] + list(g[0]) + [c for c in (g[1], g[3]) if c is not None] + ([g[4]] if isinstance(g[4], int) else [])
        for _ in range(60 if not ctx.thorough else 1500):
            texts.append((g, [rng.choice(alpha) for _ in range(rng.choice([1, 2, 3, 5, 8, 12]))]))
        q = g[1]
        for tx in ([q], [q, 97], [97, q], [97, q, 98, q], [q, q], [q, q, q], [q, 97, q, q], [q, 97, q, 98], [13], [97, 13], [13, 10], [10, 13], [97, 44], [q, 13, 10, q, 13], [q, 97] + ([g[3]] if g[3] is not None else [q])):
            texts.append((g, tx))
    reqs = ["csvr %s %s" % (csv_gtok(g), cpl(tx)) for g, tx in texts]
    mo = run_model(exe, reqs)
    exprs = ["(rows->cps (csv-r %s (cps %s)))" % (csv_gscm(g), " ".join(map(str, tx))) for g, tx in texts]
    io = scm.run_cases(d, exprs, prelude_extra=PRELUDE + CSV_PRELUDE, imports=CSV_IMPORTS, timeout=120, chunk=500)
    agree = []
    for (g, tx), m, i, e in zip(texts, mo, io, exprs):
        ctx.count(1, key=("csv-r", csv_gtok(g), cpl(tx)), nontrivial=bool(tx))
        rp = "cat > /tmp/csv-replay.scm <<'EOF'\n(import (scheme base) (scheme write) (chibi csv))\n(define (cps . l) (list->string (map integer->char l)))%s\n(write %s)\nEOF\nchibi-scheme /tmp/csv-replay.scm" % (CSV_PRELUDE, e)
        if bad(i):
            ctx.violation("csv:read-crash-or-hang", input="grammar %s text %s" % (csv_gtok(g), cpl(tx)), observed=i, replay=rp)
        elif m == "N":
            if not i.startswith("ERR"):
                ctx.violation("csv:read-accepts-what-model-rejects", input="grammar %s text %s" % (csv_gtok(g), cpl(tx)), expected="error (unterminated quote / escape at end of input)", observed=i[:200], replay=rp)
        elif i.startswith("ERR") or csv_parse_nested(i) != csv_rows_parse(m[2:]):
            # which one is right?  the writer's image is covered by the round trip above; for other texts the reader's documented rules are the model
            ctx.violation("csv:read-value", input="grammar %s text %s" % (csv_gtok(g), cpl(tx)), expected="rows " + m[2:], observed=i[:300], replay=rp)
        else:
            agree.append((g, tx))
    # ---- the other readers / folds agree with csv->list (on texts the reader accepts)
    sub = [x for k, x in enumerate(agree) if k % (7 if not ctx.thorough else 2) == 0]
    exprs = ["(csv-others %s (cps %s))" % (csv_gscm(g), " ".join(map(str, tx))) for g, tx in sub]
    io = scm.run_cases(d, exprs, prelude_extra=PRELUDE + CSV_PRELUDE, imports=CSV_IMPORTS, timeout=120, chunk=500)
    for (g, tx), i, e in zip(sub, io, exprs):
        ctx.count(1, key=("csv-others", csv_gtok(g), cpl(tx)), nontrivial=bool(tx))
        if i != "(#t #t #t #t #t)":
            names = ["csv-read->vector", "csv-fold", "csv-for-each", "csv->sxml", "csv-read->fixed-vector"]
            which = "crash-or-error" if (bad(i) or i.startswith("ERR")) else ",".join(n for n, b in zip(names, i.strip("()").split()) if b != "#t")
            ctx.violation("csv:entry:" + which, input="grammar %s text %s" % (csv_gtok(g), cpl(tx)), expected="(#t #t #t #t #t): same rows as csv->list", observed=(i or "")[:200],
                          replay="cat > /tmp/csv-replay.scm <<'EOF'\n(import (scheme base) (scheme write) (chibi csv))\n(define (cps . l) (list->string (map integer->char l)))%s\n(write %s)\nEOF\nchibi-scheme /tmp/csv-replay.scm" % (CSV_PRELUDE, e))


# ------------------------------------------------------------------------------------------ JSON
MAXFIX = (1 << 62) - 1
ESC_CHARS = [0x22, 0x5c, 0x2f, 8, 12, 10, 13, 9, 0, 1, 0x1f, 0x20, 0x7e, 0x7f, 0x80, 0xff, 0x7ff, 0x800, 0xd7ff, 0xe000, 0xfffd, 0xffff,
             0x10000, 0x10001, 0x103ff, 0x10400, 0x1f600, 0xfffff, 0x100000, 0x10fc00, 0x10ffff, 0x62, 0x66, 0x6e, 0x72, 0x74, 0x75]
INTS = [0, 1, -1, 9, 10, 99, 1 << 53, (1 << 53) + 1, -(1 << 53) - 1, MAXFIX, -MAXFIX, MAXFIX - 1, 1 << 61, 999999999999999999, 4611686018427387899]


def gen_cp(rng):
    r = rng.random()
    if r < 0.45:
        return rng.choice(ESC_CHARS)
    if r < 0.7:
        return rng.randrange(0x20, 0x7f)
    if r < 0.8:
        return rng.randrange(0, 0x20)
    c = rng.choice([rng.randrange(0x80, 0xd800), rng.randrange(0xe000, 0x10000), rng.randrange(0x10000, 0x110000)])
    return c


def gen_str(rng, maxlen=12):
    return [gen_cp(rng) for _ in range(rng.choice([0, 1, 1, 2, 3, rng.randrange(0, maxlen + 1)]))]


def gen_json(rng, depth):
    """('n'|'t'|'f'|('i',z)|('s',cps)|('a',[..])|('o',[(cps,v)..]))"""
    r = rng.random()
    if depth <= 0 or r < 0.35:
        k = rng.randrange(5)
        if k == 0:
            return rng.choice(["n", "t", "f"])
        if k in (1, 2):
            return ("i", rng.choice(INTS) if rng.random() < 0.6 else rng.randrange(-MAXFIX, MAXFIX + 1) >> rng.randrange(0, 62))
        return ("s", gen_str(rng))
    if r < 0.7:
        return ("a", [gen_json(rng, depth - 1) for _ in range(rng.choice([0, 1, 2, 3]))])
    return ("o", [(gen_str(rng, 5), gen_json(rng, depth - 1)) for _ in range(rng.choice([0, 1, 2, 3]))])


def nest(v, depth, rng):
    for _ in range(depth):
        v = ("a", [v]) if rng.random() < 0.5 else ("o", [([0x6b], v)])
    return v


def jwire(v):
    if isinstance(v, str):
        return v
    t, x = v
    if t == "i":
        return "i" + zh(x)
    if t == "s":
        return "s" + (",".join("%x" % c for c in x) if x else "_")
    if t == "a":
        return "a(" + ";".join(jwire(e) for e in x) + ")"
    return "o(" + ";".join(jwire(("s", k)) + "=" + jwire(e) for k, e in x) + ")"


def jscheme(v):
    if isinstance(v, str):
        return {"n": "'null", "t": "#t", "f": "#f"}[v]
    t, x = v
    if t == "i":
        return str(x)
    if t == "s":
        return "(cps %s)" % " ".join(map(str, x))
    if t == "a":
        return "(vector %s)" % " ".join(jscheme(e) for e in x)
    return "(list %s)" % " ".join("(cons (string->symbol (cps %s)) %s)" % (" ".join(map(str, k)), jscheme(e)) for k, e in x)


def jdepth(v):
    if isinstance(v, str) or v[0] in "is":
        return 0
    if v[0] == "a":
        return 1 + max([jdepth(e) for e in v[1]] or [0])
    return 1 + max([jdepth(e) for _, e in v[1]] or [0])


def py_json_text(v):
    """independent oracle for the writer: RFC 8259 text that Python's json module must parse back to the same tree"""
    import json as pj
    def conv(v):
        if isinstance(v, str):
            return {"n": None, "t": True, "f": False}[v]
        t, x = v
        if t == "i":
            return x
        if t == "s":
            return "".join(map(chr, x))
        if t == "a":
            return [conv(e) for e in x]
        return [["\0key", "".join(map(chr, k)), conv(e)] for k, e in x]     # keep order and duplicates
    return conv(v)


def py_parse_json(text):
    import json as pj
    def hook(pairs):
        return [["\0key", k, v] for k, v in pairs]
    return pj.loads(text, object_pairs_hook=hook)


def hostile_json(rng, texts, thorough):
    out = [b'"\\ud800"', b'"\\ud800x"', b'"\\ud800\\u0041"', b'"\\udc00"', b'"\\ud800\\ud800"', b'"\\udbff\\udfff"', b'"\\ud800\\udc00"',
           b'"\\ud83d\\ude00"', b'"\\uD83D\\uDE00"', b'"\\ud800\\', b'"\\ud800\\u', b'"\\ud800\\udc0', b'"\\u12', b'"\\u12G4"', b'"\\', b'"', b'"abc', b'"\\x"', b'"\\/"',
           b'', b' ', b'[', b']', b'{', b'}', b'[,]', b'[1,]', b'[1,,2]', b'[1 2]', b'{"a"}', b'{"a":}', b'{"a":1,}', b'{1:2}', b'{[1]:2}', b'{"a" : 1 , "b":[ ]}',
           b'nul', b'nxyz', b'truE', b'TRUE', b'fals', b'N', b'-', b'+', b'+5', b'-0', b'00012', b'1.5', b'1e5', b'1.5e3', b'1E5', b'-1.e', b'1e', b'1e+', b'.5',
           b'[1E+10]', b'[1.5e3,2]', b'[-2.718281828E+300,1E-05]', b'{"a":1.5E+3}', b'[1.5E]', b'[1.e5]', b'[1.5e+]', b'[1.5.5]', b'[1e5e5]', b'[1E5E5]', b'[1e5.5]', b'[1.5e-3x]', b'1.5E+300x', b'[1ee5]', b'[1e+-5]', b'[-E5]',
           b'4611686018427387903', b'4611686018427387904', b'-4611686018427387904', b'9007199254740993', b'18446744073709551616', b'123456789012345678901234567890',
           b'1' + b'0' * 400, b'1e999999', b'-1e-999999', b'0.' + b'1' * 500, b'"' + b'a' * 127 + b'"', b'"' + b'a' * 124 + b'\\u00e9' + b'"', b'"' + b'\\ud83d\\ude00' * 100 + b'"',
           b'"' + b'x' * 5000 + b'"', b'"\xff\xfe\x80"', b'"\xf0\x9f"', b'\xef\xbb\xbf1', b'[' * 999 + b']' * 999, b'[' * 1000 + b']' * 1000, b'[' * 1001 + b']' * 1001,
           b'[' * 100000, b'[' * 100000 + b']' * 100000, b' ' * 100000 + b'1',
           # object nesting far beyond the C stack: the extracted model re-measures the remaining input at each of the 1000 keys it reads before the depth limit (7-27 s for these two),
           # so the quick tier keeps one shorter text (50 000 levels, still 1.5 x the depth that overflowed the C stack before C19-json-read-depth-limit)
           *([b'{"a":' * 100000, b'[{"k":' * 50000] if thorough else [b'[{"k":' * 25000]), b'\t\n\r\x0b\x0c [1]', b'[1]garbage', b'"a\x00b"', b'"\\u0000"']
    for t in texts:
        for _ in range(2 if not thorough else 4):
            out.append(mutate(rng, t, b'[]{}",:\\u0123456789dDeEaAfFntr -+.'))
    return out


def check_json(ctx, d, exe, dasan):
    rng = ctx.rng
    n = 300 if not ctx.thorough else 20000
    vals = ["n", "t", "f", ("a", []), ("o", []), ("s", []), ("s", ESC_CHARS), ("a", [("s", [c]) for c in ESC_CHARS]), ("a", [("i", z) for z in INTS] + [("i", -z) for z in INTS]), ("i", -MAXFIX - 1), ("a", [("i", -MAXFIX - 1), ("i", -MAXFIX)]),
            ("o", [([c], ("s", [c])) for c in ESC_CHARS]), ("s", list(range(0, 0x80))), ("s", list(range(0x80, 0x100))), ("s", [0xd7ff, 0xe000, 0x10000, 0x10ffff] * 40)]
    for c in range(0, 0x110000, 0x5ff if not ctx.thorough else 0x3d):      # every surrogate-pair high unit / many low units
        if not (0xd800 <= c < 0xe000):
            vals.append(("s", [c, (c + 0x1234) % 0xd800]))
    for i in range(n):
        vals.append(gen_json(rng, rng.choice([0, 1, 2, 3, 4, 8])))
    for dep in (8, 64, 998, 999):
        vals.append(nest(("a", [("i", 7), ("s", [0x1f600])]), dep - 1, rng))
    # ---- writer = model byte for byte; reader(writer v) = v (as UTF-8) on the implementation
    exprs = ['(let ((t (json->string %s))) (list (xh (string->utf8 t)) (string->symbol (string-append "V" (jshow (string->json t))))))' % jscheme(v) for v in vals]
    wq = ["jwrite " + jwire(v) for v in vals]
    eq = ["jexpect " + jwire(v) for v in vals]
    import time
    tj = [time.time()]
    mw = run_model(exe, wq)
    me = run_model(exe, eq)
    tj.append(time.time())
    io = scm.run_cases(d, exprs, prelude_extra=PRELUDE, imports=IMPORTS, chunk=300)
    tj.append(time.time())
    texts = []
    import json as pj
    for v, w, e, i, ex in zip(vals, mw, me, io, exprs):
        ctx.count(1, key=("json", jwire(v)), nontrivial=not isinstance(v, str))
        assert w.startswith("S "), w
        texts.append(unhex(w[2:]))
        # standing oracle for "the writer emits valid JSON": Python's RFC 8259 parser must read the (model = implementation) text back to v
        try:
            okp = py_parse_json(unhex(w[2:]).decode("ascii")) == py_json_text(v)
        except Exception:
            okp = False
        if not okp:
            ctx.violation("json:writer-text-not-valid-json", input=jwire(v)[:2000], text=w[2:][:2000], observed="Python json.loads rejects the text or reads another value")
        want = "(%s %s)" % (mx(w[2:]), "V" + e[2:])
        wantb = "(%s |%s|)" % (mx(w[2:]), "V" + e[2:])
        if i not in (want, wantb):
            rp = "echo '(import (scheme base) (scheme write) (chibi json)) (define (cps . l) (list->string (map integer->char l))) (let ((t (json->string %s))) (write t) (write (string->json t)))' | chibi-scheme /dev/stdin" % jscheme(v).replace("'", "'\\''")
            # judge with an independent oracle: is the text the implementation wrote valid JSON for v, and did it read it back?
            verdict = "unknown"
            if not bad(i) and i.startswith("(") and not i.startswith("(ERR"):
                f = i[1:-1].split(" ")
                try:
                    txt = unhex(f[0][1:] if f[0] != "_" else "_").decode("utf-8", "surrogatepass")
                    ok_text = py_parse_json(txt) == py_json_text(v)
                except Exception:
                    ok_text = False
                ok_back = f[1].strip("|") == "V" + e[2:]
                verdict = "text-%s readback-%s" % ("ok" if ok_text else "WRONG", "ok" if ok_back else "WRONG")
                if ok_text and ok_back:
                    ctx.broken("correspondence:json-write", "model and implementation differ but the implementation is right: %s" % jwire(v)[:200])
                    continue
            cls = "string" if "s" in jwire(v) else "int" if "i" in jwire(v) else "structure"
            ctx.violation("json:write-read-roundtrip:" + cls + ("" if verdict == "unknown" else ":" + verdict.replace(" ", ",")),
                          input=jwire(v)[:2000], expected=want[:2000], observed=(i or "")[:2000], verdict=verdict, replay=rp)
    ctx.sample(dict(kind="json-roundtrip", value=jwire(vals[6])[:300], model_text=mw[6][:300], impl=io[6][:300]))
    # ---- reader on hostile text: value or error, same class as the model, under default and asan builds
    host = hostile_json(rng, texts[:200 if not ctx.thorough else 3000], ctx.thorough)
    reqs = ["jread " + hexs(t) for t in host]
    mo = run_model(exe, reqs)
    tj.append(time.time())
    exprs = ['(jread-hex "%s")' % hexs(t) for t in host]
    for label, dd in (("default", d), ("asan", dasan)):
        if dd is None:
            continue
        io = scm.run_cases(dd, exprs, prelude_extra=PRELUDE, imports=IMPORTS, chunk=200, timeout=300)
        tj.append(time.time())
        for t, m, i in zip(host, mo, io):
            ctx.count(1, key=("jread", label, t), nontrivial=True)
            rp = "python3 -c 'import sys; sys.stdout.buffer.write(bytes.fromhex(\"%s\"))' > /tmp/c19.json; echo '(import (scheme base) (scheme write) (scheme file) (chibi json)) (write (call-with-input-file \"/tmp/c19.json\" json-read))' | chibi-scheme /dev/stdin   # build variant: %s" % (t[:3000].hex(), label)
            if bad(i):
                ctx.violation("json:read-crash:" + ("deep-nesting" if t.count(b"[") + t.count(b"{") > 5000 else "other"), input=hexs(t[:400]), length=len(t),
                              expected=m[:200], observed=i[:600], build=label, replay=rp)
                continue
            if m == "E":
                if not i.startswith("ERR"):
                    ctx.violation("json:read-accepts-what-model-rejects", input=hexs(t[:400]), expected="error", observed=i[:300], build=label, replay=rp)
            elif m == "FUEL":
                ctx.broken("model:json-fuel", "model ran out of fuel on %s" % hexs(t[:100]))
            else:
                if i.strip("|") != "V" + m[2:]:
                    ctx.violation("json:read-value", input=hexs(t[:400]), expected=m[:300], observed=i[:300], build=label, replay=rp)
    ctx.note("wall seconds inside json: model write+expect, implementation round trip, model on hostile, hostile default, hostile asan: " + ", ".join("%.1f" % (b - a) for a, b in zip(tj, tj[1:])))
    ctx.sample(dict(kind="json-hostile", input=hexs(host[2]), model=mo[2], impl=io[2]))


# ------------------------------------------------------------------------------------------ JSON numbers (round 4)
# json_write_flonum (json.c) formats with snprintf("%.*G", 10, x) into a fixed buffer; bignums go through the same path.
# No specification of %G is needed.  For a finite x the written text must
#   (a) be a number of the JSON grammar,
#   (b) denote, as an exact decimal T, the value x rounded to 10 significant digits:  |T - x| <= half a unit in the 10th significant
#       digit of x  (exact rationals: num_accept below; the same function exists in the Coq model, Json.num_accept, and the extracted
#       one is run on every case: request `numok`),
#   (c) be read back by string->number (Scheme) and by the JSON reader, completely, as T (up to the few-ulp error of the two naive
#       decimal->binary conversions; both must agree with each other within 2 ulps).
JNUM_PRELUDE = r"""
(define (jnum-bits x) (let ((bv (make-bytevector 8 0))) (bytevector-ieee-double-native-set! bv 0 x) (bvhex bv)))
(define (jnum-show v)
  (cond ((not (number? v)) "N")
        ((and (exact? v) (integer? v)) (string-append "i" (number->string v)))
        ((exact? v) "q")
        ((real? v) (string-append "d" (jnum-bits v)))
        (else "c")))
(define (jnum-clean t)    ; the text as a token (a writer that emits a blank or a separator is reported through the grammar test)
  (list->string (map (lambda (c) (if (memv c '(#\space #\; #\newline #\|)) #\_ c)) (string->list t))))
(define (jnum-one x)
  (guard (e (#t "WERR"))
    (let* ((t (json->string x))
           (sn (string->number t))
           (p (open-input-string t))
           (jr (guard (e (#t 'err)) (json-read p)))
           (left (let lp ((n 0)) (if (eof-object? (read-char p)) n (lp (+ n 1)))))
           (wa (json->string (vector x x)))                                            ; the writer's recursion: must be [t,t]
           (ja (if (equal? wa (string-append "[" t "," t "]")) (guard (e (#t 'err)) (string->json wa)) 'werr)))   ; the same text followed by , and ]
      (string-append (if (equal? t "") "_" (jnum-clean t)) " " (if sn (jnum-show sn) "F") " " (if (eq? jr 'err) "E" (jnum-show jr)) " " (number->string left) " "
                     (if (and (vector? ja) (= (vector-length ja) 2)) (string-append (jnum-show (vector-ref ja 0)) "," (jnum-show (vector-ref ja 1))) "E")))))
(define (jnum-list ls) (join-semi (map jnum-one ls)))
(define (jnum-doubles in)
  (let lp ((i (- (quotient (bytevector-length in) 8) 1)) (acc '()))
    (if (< i 0) (jnum-list acc) (lp (- i 1) (cons (bytevector-ieee-double-native-ref in (* 8 i)) acc)))))
"""
JSON_NUMBER_RE = None
DBL_MAX = (2 ** 53 - 1) * 2 ** 971


def dec_exponent(x):
    """p with 10^p <= |x| < 10^(p+1), exactly (x a non-zero Fraction)"""
    a = abs(x)
    p = len(str(a.numerator)) - len(str(a.denominator))
    while Fraction(10) ** p > a:
        p -= 1
    while Fraction(10) ** (p + 1) <= a:
        p += 1
    return p


def num_accept(x, T, slack=0):
    """(b): T is x rounded to 10 significant digits (either neighbour on a tie); slack = relative error already made before formatting (bignum -> double)"""
    if x == 0:
        return T == 0
    p = dec_exponent(x)
    return 2 * abs(T - x) <= Fraction(10) ** (p - 9) + 2 * abs(x) * slack


def text_value(t):
    """exact value of a JSON number text, or None when the text is not one"""
    global JSON_NUMBER_RE
    import re
    if JSON_NUMBER_RE is None:
        JSON_NUMBER_RE = re.compile(r"-?(0|[1-9][0-9]*)(\.[0-9]+)?([eE][+-]?[0-9]+)?\Z")
    if not JSON_NUMBER_RE.match(t):
        return None
    m = re.match(r"(-?)([0-9]+)(?:\.([0-9]+))?(?:[eE]([+-]?[0-9]+))?\Z", t)
    sg, ip, fp, ex = m.groups()
    fp = fp or ""
    v = Fraction(int(ip + fp)) * Fraction(10) ** (int(ex or 0) - len(fp))
    return -v if sg else v


def read_close(tok, T, intlike):
    """is the number a reader returned (token of jnum-show) the text's value T?  flonums: within 4 ulps / 8 subnormal steps (both readers multiply by pow(10, e))"""
    if tok.startswith("i"):
        return Fraction(int(tok[1:])) == T
    if not tok.startswith("d"):
        return False
    b = struct.unpack("<Q", bytes.fromhex(tok[1:]))[0]
    if is_nan_bits(b):
        return False
    v = bitsd(b)
    if v in (float("inf"), float("-inf")):
        return abs(T) >= DBL_MAX * (1 - Fraction(1, 2 ** 50)) and (v > 0) == (T > 0)
    return abs(Fraction(v) - T) <= max(abs(T) * Fraction(1, 2 ** 50), Fraction(8, 2 ** 1074))


def tok_float(tok):
    if tok.startswith("i"):
        return float(int(tok[1:])) if abs(int(tok[1:])) < 2 ** 1023 else None
    if tok.startswith("d"):
        return bitsd(struct.unpack("<Q", bytes.fromhex(tok[1:]))[0])
    return None


def jnum_doubles(rng, thorough):
    """bit patterns aimed at the LENGTH of the text: sign x significant digits 1..10 and beyond x exponent width (none, 1, 2, 3 digits, negative) and the switches of %G
       (exponent form below 1e-4 and from 1e10), carries into the next decade, ties in the 10th digit, integers as flonums, subnormals, the largest / smallest doubles"""
    out = []
    def add(x):
        try:
            f = float(x)
        except OverflowError:
            return
        if f != f or f in (float("inf"), float("-inf")):
            return
        out.append(dbits(f)); out.append(dbits(-f))
    exps = [-324, -323, -322, -320, -310, -309, -308, -307, -306, -200, -101, -100, -99, -98, -50, -11, -10, -9, -8, -7, -6, -5, -4, -3, -2, -1, 0, 1, 2, 3, 5, 8, 9, 10, 11, 12,
            15, 16, 17, 18, 19, 20, 21, 22, 23, 50, 98, 99, 100, 101, 200, 299, 300, 306, 307, 308]
    fixed = ["1", "9", "15", "25", "125", "2718281828", "1234567891", "9999999999", "99999999995", "99999999994", "99999999996", "10000000005", "10000000015", "1000000001", "10000000001",
             "12345678905", "12345678915", "12345678925", "314159265358979", "17976931348623157", "22250738585072014", "49406564584124654", "1797693134", "1797693135", "17976931345"]
    for e in exps:
        for m in fixed:
            add(Fraction(int(m)) * Fraction(10) ** (e - len(m) + 1))
        for k in (1, 2, 3, 4, 5, 6, 7, 8, 9, 10, 10, 10, 11, 12, 15, 17):
            if not thorough and rng.random() < 0.5 and k not in (1, 9, 10, 11):
                continue
            ds = [rng.randrange(1, 10)] + [rng.randrange(10) for _ in range(k - 2)] + ([rng.randrange(1, 10)] if k > 1 else [])
            add(Fraction(int("".join(map(str, ds)))) * Fraction(10) ** (e - k + 1))
    for k in range(0, 24):
        for dlt in (0, 1, -1, 5, -5):
            add(10 ** k + dlt)
        add(Fraction(10 ** k) + Fraction(1, 2)); add(Fraction(10 ** k) - Fraction(1, 2)); add(Fraction(1, 10 ** k)); add(Fraction(1, 10 ** k) * (1 - Fraction(1, 10 ** 11))); add(Fraction(5, 10 ** (k + 11)) + Fraction(1, 10 ** k))
    for k in list(range(0, 70)) + list(range(70, 1024, 13 if not thorough else 1)) + [1023]:
        add(2 ** k); add(Fraction(1, 2 ** k))
    for k in (53, 62, 63, 64):
        add(2 ** k + 2 ** (k - 52)); add(2 ** k - 2 ** (k - 53))
    for b in [0, 1, 2, 3, 10, 0x000FFFFFFFFFFFFF, 0x0010000000000000, 0x0010000000000001, 0x000FFFFFFFFFFFFE, 0x7FEFFFFFFFFFFFFF, 0x7FEFFFFFFFFFFFFE, 0x7FE0000000000000, dbits(0.1), dbits(1.0 / 3.0), dbits(2.0 / 3.0),
              dbits(0.0001), dbits(0.0001) - 1, dbits(0.0001) + 1, dbits(0.000099999999995), dbits(0.00012345678901), dbits(9999999999.4), dbits(9999999999.5), dbits(1e10), dbits(1e10) + 1, dbits(1e10) - 1,
              dbits(1e100), dbits(1e100) - 1, dbits(1e100) + 1, dbits(1e-99), dbits(1e-99) - 1, dbits(1e-100), dbits(1e-100) + 1, dbits(123456.789), dbits(1.5), dbits(1e3)]:
        out.append(b); out.append(b | SIGN)
    for _ in range(600 if not thorough else 200000):
        r = rng.random()
        if r < 0.5:
            b = rng.getrandbits(64)
        elif r < 0.75:      # all ten digits in use, 3-digit exponent
            b = (rng.getrandbits(1) << 63) | (rng.choice([rng.randrange(1, 690), rng.randrange(1356, 2047)]) << 52) | rng.getrandbits(52)
        else:               # few mantissa bits (short texts), subnormals
            b = (rng.getrandbits(1) << 63) | (rng.choice([0, rng.randrange(0, 2047)]) << 52) | (rng.getrandbits(rng.randrange(1, 20)) << rng.randrange(0, 33))
        if (b >> 52) & 2047 != 2047:
            out.append(b)
    seen, res = set(), []
    for b in out:
        if b not in seen:
            seen.add(b); res.append(b)
    return res


JNUM_BIG = [1 << 62, -(1 << 62) - 1, (1 << 62) + 1, 1 << 63, (1 << 64) - 1, 1 << 64, 10 ** 19, 10 ** 20 - 1, 99999999995 * 10 ** 9, 12345678905 * 10 ** 9, -12345678901234567890123, 10 ** 30 + 1, 10 ** 99, -(10 ** 100),
            -2718281828 * 10 ** 291 - 1, -(10 ** 100 + 10 ** 90 + 1), 3 ** 200, -(7 ** 300), 1 << 1023, (1 << 1024) - (1 << 970), 123456789 * 10 ** 292 + 12345]


def check_json_numbers(ctx, d, exe, dasan=None):
    rng = ctx.rng
    bits = jnum_doubles(rng, ctx.thorough)
    exprs, meta = [], []
    for k in range(0, len(bits), 1000):
        chunk = bits[k:k + 1000]
        exprs.append('(jnum-doubles (hx "%s"))' % b"".join(struct.pack("<Q", b) for b in chunk).hex())
        meta.append([("d", b) for b in chunk])
    exprs.append("(jnum-list (list %s))" % " ".join(map(str, JNUM_BIG)))
    meta.append([("b", n) for n in JNUM_BIG])
    io = scm.run_cases(d, exprs, prelude_extra=PRELUDE + JNUM_PRELUDE, imports=IMPORTS, timeout=600, chunk=4)
    if dasan is not None:
        # the fixed text buffer under ASan: the first chunk (the grid of longest texts) and the bignums must give the same answers, no report
        sel = [0, len(exprs) - 1] if len(exprs) > 1 else [0]
        ia = scm.run_cases(dasan, [exprs[j] for j in sel], prelude_extra=PRELUDE + JNUM_PRELUDE, imports=IMPORTS, timeout=600, chunk=4)
        for j, a in zip(sel, ia):
            ctx.count(len(meta[j]), key=("jnum-asan", j), nontrivial=True)
            if bad(a) or a != io[j]:
                ctx.violation("json:number:asan-differs-or-crashes", input=exprs[j][:200], expected=(io[j] or "")[:200], observed=(a or "")[:600], build="asan",
                              replay="asan build of chibi-scheme with the JNUM_PRELUDE of props/C19.py and " + exprs[j][:300])
    cases = []
    for e, mt, i in zip(exprs, meta, io):
        if bad(i) or i is None or i.startswith("ERR"):
            ctx.violation("json:number:crash-or-error", input=e[:200], observed=(i or "")[:300], replay="chibi-scheme with the JNUM_PRELUDE of props/C19.py and " + e[:300])
            continue
        parts = i.strip('"').split(";")
        if len(parts) != len(mt):
            ctx.violation("json:number:crash-or-error", input=e[:200], observed="%d answers for %d values" % (len(parts), len(mt)))
            continue
        cases += list(zip(mt, parts))
    lim = {}
    def viol(sig, **kw):
        lim[sig] = lim.get(sig, 0) + 1
        if lim[sig] <= 5:
            ctx.violation(sig, **kw)
    reqs, rcase = [], []
    for (kind, v), ans in cases:
        x = Fraction(bitsd(v)) if kind == "d" else Fraction(v)
        if kind == "d":      # the replay builds the double exactly: significand (exact integer) times a power of two, no decimal literal involved
            m_, e_ = v & ((1 << 52) - 1), (v >> 52) & 2047
            m_, e_ = (m_, -1074) if e_ == 0 else (m_ | (1 << 52), e_ - 1075)
            lit = "(* (inexact %s%d) (expt 2. %d))" % ("-" if v >> 63 else "", m_, e_) if m_ else ("-0.0" if v >> 63 else "0.0")
        else:
            lit = str(v)
        desc = ("double %r (bits %016x)" % (bitsd(v), v)) if kind == "d" else "exact integer %d" % v
        rp = "echo '(import (scheme base) (scheme write) (chibi json)) (let ((t (json->string %s))) (write t) (write (string->number t)) (write (string->json t)))' | chibi-scheme /dev/stdin" % lit.replace("'", "")
        ctx.count(1, key=("jnum", kind, v), nontrivial=x != 0)
        if ans == "WERR":
            if kind == "b" and abs(x) > DBL_MAX:
                continue                                    # a bignum beyond the doubles: "unable to encode number" is an answer
            viol("json:write-number:error-on-finite-number", input=desc, observed="json->string raises", replay=rp)
            continue
        f = ans.split(" ")
        if len(f) != 5:
            viol("json:number:crash-or-error", input=desc, observed=ans[:200], replay=rp)
            continue
        t, sn, jr, left, ja = f
        T = text_value(t)
        if T is None:
            viol("json:write-number:text-not-a-json-number", input=desc, observed=t, replay=rp)
            continue
        slack = Fraction(1, 2 ** 52) if kind == "b" else 0
        tl = t.lower()
        shape = "%s%d-digits-%s" % ("neg-" if t.startswith("-") else "", min(10, len(tl.split("e")[0].replace("-", "").replace(".", "").lstrip("0")) or 1),
                                    ("exp%d" % len(tl.split("e")[1].lstrip("+-"))) if "e" in tl else "plain")
        if not num_accept(x, T, slack):
            viol("json:write-number:text-denotes-another-value", input=desc, text=t, shape=shape,
                 expected="the value rounded to 10 significant digits (|text - x| <= half a unit of the 10th digit)", observed="text denotes %s" % (float(T) if abs(T) < DBL_MAX else T), replay=rp)
            continue
        if kind == "d" and x != 0:
            m, ee = v & ((1 << 52) - 1), (v >> 52) & 2047
            mz, ez = (m, -1074) if ee == 0 else (m | (1 << 52), ee - 1075)
            if v >> 63: mz = -mz
            mt = re_dec(t)
            reqs.append("numok %s %s %s %s %s" % (zh(mz), zh(ez), zh(mt[0]), zh(mt[1]), zh(dec_exponent(x))))
            rcase.append((desc, t))
        intlike = "." not in t and "e" not in tl
        # (c) the two readers
        if not read_close(sn, T, intlike):
            ctx.broken("oracle:string->number", "string->number of the writer's text %s gives %s (value to be judged by C08)" % (t, sn))
        bad_read = None
        if jr == "E":
            bad_read = "the JSON reader rejects the text"
        elif left != "0":
            bad_read = "the JSON reader stops %s characters before the end of the text (reads %s)" % (left, jr)
        elif not read_close(jr, T, intlike):
            bad_read = "the JSON reader reads another number: %s" % jr
        elif ja != jr + "," + jr:
            bad_read = "inside an array the same text reads as %s (E: error, or the array was not written as [text,text])" % ja
        else:
            a, b2 = tok_float(sn), tok_float(jr)
            if a is not None and b2 is not None and a != b2 and abs(dbits(abs(a)) - dbits(abs(b2))) > 2 and abs(a - b2) > 8 * 2.0 ** -1074:
                bad_read = "string->number and the JSON reader differ by more than 2 ulps: %s / %s" % (sn, jr)
        if bad_read:
            viol("json:read-own-number:" + ("exponent-form" if "e" in tl else "plain-form"), input=desc, text=t, shape=shape, expected="(string->json text) = the number the text denotes", observed=bad_read, replay=rp)
    # the extracted Coq predicate on a deterministic subset (3.5 ms per request: 10^324-sized integers in binary Z): every 3rd case quick, at most 30 000 thorough
    stride = 3 if not ctx.thorough else max(1, len(reqs) // 30000)
    reqs, rcase = reqs[::stride], rcase[::stride]
    if reqs:
        mo = run_model(exe, reqs)
        for (desc, t), m in zip(rcase, mo):
            if m != "T":
                ctx.broken("model:num_accept", "the extracted Json.num_accept answers %s where the Fraction oracle accepts: %s -> %s" % (m, desc, t))
    # the predicate must also REJECT: every accepted text with its last exponent digit dropped, its sign dropped, its last digit changed (model and oracle agree)
    rej, rmeta = [], []
    for (desc, t), rq in list(zip(rcase, reqs))[::5]:
        f = rq.split(" ")
        for label, t2 in (("exponent-digit-dropped", t[:-1] if "E" in t and t[-2].isdigit() else None), ("sign-dropped", t[1:] if t.startswith("-") else None),
                          ("exponent-sign-dropped", t.replace("E-", "E+") if "E-" in t else None)):
            if t2 is None or text_value(t2) is None:
                continue
            mt = re_dec(t2)
            rej.append("numok %s %s %s %s %s" % (f[1], f[2], zh(mt[0]), zh(mt[1]), f[5]))
            rmeta.append((desc, t, t2, label))
    if rej:
        mo = run_model(exe, rej)
        for (desc, t, t2, label), m in zip(rmeta, mo):
            ctx.count(1, key=("jnum-reject", desc, t2), nontrivial=True)
            if m != "F":
                ctx.broken("model:num_accept", "the extracted Json.num_accept accepts the damaged text %s (%s of %s) for %s" % (t2, label, t, desc))
    ctx.sample(dict(kind="json-number", value=cases[5][0][1] if len(cases) > 5 else None, answer=cases[5][1] if len(cases) > 5 else None))


def re_dec(t):
    """text of a JSON number -> (d, k) with value d * 10^k"""
    import re
    m = re.match(r"(-?)([0-9]+)(?:\.([0-9]+))?(?:[eE]([+-]?[0-9]+))?\Z", t)
    sg, ip, fp, ex = m.groups()
    fp = fp or ""
    dd = int(ip + fp)
    return (-dd if sg else dd), int(ex or 0) - len(fp)


# ------------------------------------------------------------------------------------------ corpus (run first)
def check_corpus(ctx, d):
    import json as pj
    path = os.path.join(os.path.dirname(__file__), "..", "corpus", "C19", "regressions.jsonl")
    cases = [pj.loads(l) for l in open(path) if l.strip()]
    io = scm.run_cases(d, [c["expr"] for c in cases], prelude_extra=PRELUDE, imports=IMPORTS + "\n(import (chibi csv) (chibi mime) (srfi 160 prims) (only (srfi 160 f16) make-f16vector))", timeout=120)
    for c, i in zip(cases, io):
        ctx.count(1, key=("corpus", c["name"]), nontrivial=True)
        ok = (i is not None and i.startswith("ERR")) if c["expect"] == "ERR" else i == c["expect"]
        if not ok:
            ctx.violation("corpus:" + c["name"], input=c["expr"], expected=c["expect"], observed=i,
                          replay="echo '(import (scheme base) (scheme write) (scheme bytevector) (chibi json) (chibi base64) (chibi quoted-printable) (chibi uri) (chibi csv) (chibi mime) (srfi 160 prims) (only (srfi 160 f16) make-f16vector)) (define (cps . l) (list->string (map integer->char l))) (write %s)' | chibi-scheme /dev/stdin   # xh = bytevector as hex symbol, see PRELUDE of props/C19.py" % c["expr"].replace("'", "'\\''"))


def run(ctx):
    ctx.cov["rule"] = ("byte strings of every length 0-100 then seeded lengths up to 4096 (all classes mod 3 and 4, all 256 byte values, "
                       "text-like and run-heavy mixes) through each encoder and decoder: implementation output = extracted model output byte for byte "
                       "and decode(encode x) = x on the implementation; decoders also get valid text with out-of-band characters interleaved and a "
                       "hostile stream (bit flips, truncation, bad padding, junk, random bytes); numeric accessors over every offset -1..len+1 and far "
                       "out-of-range offsets x EVERY accessor of the table regenerated from bytevector.stub (integer and ieee, ref/set!, native/explicit byte order; + sizes 3,5,9 of the "
                       "generic accessors) x boundary values, floats by bit pattern, default build and (out-of-window and edge offsets) asan build; base64 on ports: wrapped text "
                       "(every width 60-80, LF and CRLF) crossing 1-3 chunk boundaries with a line break at every offset -4..+4 around the first boundary and near the later ones, "
                       "padding / blanks / junk astride the boundaries, exact multiples of the chunk size, the empty stream; "
                       "mini-floats: every one of the 65536 half and 256 quarter patterns decoded (vs the format's formula) and re-encoded (= the pattern), doubles at the midpoint, +-1 double ulp, "
                       "+-1 float ulp of every 5th (thorough: every) pair of adjacent halves and of every pair of quarters, the subnormal / normal / overflow edges, both signs, random "
                       "mantissas, through the C functions directly AND through f16vector-set!/ref, f8vector-set!/ref and the #f16( ) / #f8( ) reader and writer; CSV: tables over 10 grammars "
                       "with every special character (quote, separators, escape, record separator, CR, LF, CRLF, space) at the start / middle / end of a field, empty fields and rows, "
                       "all texts up to length 4 over {a , quote CR LF} and seeded hostile texts through the reader; "
                       "JSON numbers: doubles by bit pattern at every boundary of the written text's length and form (sign x 1..17 significant digits x decimal exponents around "
                       "-324, -308, -100, -5..-4, 0, 9..10, 15..23, 100, 300, 308; ties and carries in the 10th digit; powers of 2 and 10; subnormals; extremes; random patterns) and bignums; "
                       "a case is distinct by (operation, input bytes, offset, value) and non-trivial unless the input is empty")
    from gen import c19_accessors
    table, _others = c19_accessors.regen(ctx)
    uvrows = c19_accessors.regen_uv(ctx)
    from gen import c19_half
    c19_half.regen(ctx)
    check_accessor_exports(ctx, table)
    ctx.coq_obligations("Properties_C19")
    d = ctx.build("default")
    exe = ctx.extract("C19")
    if exe is None:
        return
    import time
    only = set(filter(None, os.environ.get("C19_ONLY", "").split(",")))       # developer switch: run some sections only (never set by ./check users)
    if only:
        ctx.broken("partial-run", "C19_ONLY=%s: sections skipped" % ",".join(sorted(only)))
    def on(sec):
        return not only or sec in only
    if on("corpus"):
        check_corpus(ctx, d)
    strings = byte_strings(ctx.rng, ctx.thorough)
    t0 = time.time()
    if on("base64"):
        check_base64(ctx, d, exe, strings)
    t1 = time.time()
    if on("stream"):
        check_base64_stream(ctx, d, exe)
    t1b = time.time()
    if on("qp"):
        check_qp(ctx, d, exe, strings)
    if on("entry"):
        check_entry_points(ctx, d, exe, strings)
    t2 = time.time()
    if on("uri"):
        check_uri(ctx, d, exe)
    dasan = ctx.build("asan"); t4 = time.time()
    if on("acc"):
        check_accessors(ctx, d, exe, table, dasan)
        check_uvectors(ctx, d, dasan, uvrows)
    t3 = time.time()
    if on("mf"):
        check_minifloats(ctx, d, exe)
    if on("csv"):
        check_csv(ctx, d, exe)
    if on("extra"):
        import importlib.util
        xp = os.path.join(os.path.dirname(os.path.abspath(__file__)), "..", "harness", "c19_extra.py")
        if os.path.exists(xp):
            spec = importlib.util.spec_from_file_location("c19_extra", xp)
            mod = importlib.util.module_from_spec(spec)
            spec.loader.exec_module(mod)
            left = mod.check_extra(ctx, d)
            if left:
                ctx.assume("harness/c19_extra.py (K-outer round trips of entry points without a model) does NOT exercise: " + "; ".join(left))
        else:
            ctx.broken("extra:missing", "harness/c19_extra.py not found")
    t3b = time.time()
    if on("json"):
        check_json(ctx, d, exe, dasan)
    t6 = time.time()
    if on("jnum"):
        check_json_numbers(ctx, d, exe, dasan)
    ctx.note("wall seconds: json numbers %.1f" % (time.time() - t6))
    t5 = time.time()
    ctx.note("wall seconds: base64 %.1f, base64 ports/header %.1f, qp + entry points %.1f, uri + asan build %.1f, accessors (default+asan) %.1f, mini-floats + csv + extra entry points %.1f, json %.1f" % (t1 - t0, t1b - t1, t2 - t1b, t4 - t2, t3 - t4, t3b - t3, t5 - t3b))
    ctx.assume("(chibi csv): csv-grammar, csv-parser, csv-writer, csv-write, csv->list, csv-read->list are modelled (coq/C19/Csv.v, any grammar) and tied; csv-read->vector, "
               "csv-read->fixed-vector, csv-fold, csv-map, csv-for-each, csv->sxml / csv-read->sxml are tied to csv->list on the same texts; NOT modelled: comment-chars, "
               "quote-non-numeric?, non-string fields, csv-num-rows, csv-skip-line (only reached through comment-chars), default-tsv-grammar (quote-char #f: writer raises on a field with a tab)")
    ctx.assume("mini-floats: sexp_half_to_double / sexp_double_to_half REGENERATED from sexp.c (gen/c19_half.py) and the quarter table REGENERATED; the hardware conversions double->float, "
               "unsigned->float, float->double, double subtraction are modelled by one IEEE round-to-nearest-even function (round_mag) whose agreement with the machine is CHECKED on every "
               "test double (harness/embed_c19_half.c calls the real functions), not proved against Flocq; C shift counts >= 32 (undefined behaviour) are modelled as x86 does (count mod 32) "
               "and proved unreachable for the decoder where the term counts; finite doubles beyond the largest half / quarter do not become infinite (observation, see notes/C19.md)")
    ctx.assume("exported entry points NOT modelled (K-outer round trips only, harness/c19_extra.py): (chibi uri) record API, (scheme bytevector) utf16 / utf32 transcoders and list helpers, "
               "(chibi json) make-json-reader, (chibi mime) header decoding and transfer encodings; the SRFI 160 library above its primitive accessors; inside generated JSON structures floats are compared by class only")
    ctx.assume("JSON numbers (section jnum): printf's %.10G is NOT modelled; the text json_write_flonum emits for a finite flonum / bignum is judged by the exact-rational predicate Json.num_accept "
               "(value rounded to 10 significant digits; extracted Coq function on every 3rd case, Python Fractions on all), the JSON grammar, and both readers (string->number as reference, "
               "tolerance 2^-50 relative / 8 subnormal steps for the naive decimal->binary conversions); flonums round-trip only up to those 10 digits by design of the writer")
    ctx.assume("every exported entry point of (chibi base64) and (chibi quoted-printable) is exercised: bytevector, string, binary-port, textual-port, current-output-port and "
               "*-header variants; (chibi json): string->json, json->string, json-read and json-write on string ports; (scheme bytevector): every accessor the stub defines "
               "(regenerated table) plus the generic uint/sint ones")
    ctx.assume("ieee accessors are modelled as transport of the bit pattern; the C conversions double<->float of the single-precision ones are judged by Python's struct (NaN payloads: any NaN accepted); "
               "floating-point arguments reach the accessor through the reader (decimal literals, C08)")
    ctx.assume("base64-encode-header / quoted-printable-encode-header are exercised with parameters that leave room for at least one quantum on the first line (start-col + prefix < max-col); "
               "max-col <= 3 (+ prefix) makes qp-encode / string-chop loop forever: hostile parameter, not input")
    ctx.assume("json_roundtrip carries the explicit fuel premise need v <= fuel; that the library-level fuel 2*len+2 always suffices is observed (no FUEL outcome), not proved")
    ctx.assume("indices >= 2^64 given to the stub accessors are reduced mod 2^64 by sexp_sint_value before the bounds assertion (chibi-ffi convention); not exercised")
    ctx.trust("byte reversal stands for the sexp_swap_* bit arithmetic of bytevector.stub; utf8->string/string->utf8 (C12) carry the string variants of the codecs; "
              "the classification of non-ASCII characters by uri-safe-char? is taken from the implementation (a free parameter of uri_roundtrip)")
    ctx.trust("Python base64/quopri/json/int.from_bytes are used only to judge a model/implementation disagreement and to re-parse the JSON writer's text")
