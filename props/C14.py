"""C14 — library imports expose exactly the requested bindings.
   (G) gen/c14_import.py re-translates %resolve-import & co. of lib/meta-7.scm into coq/Gen/C14_ImportCode.v
   (T) coq/Properties_C14.v
   (K-inner) the extracted translated code vs the real (%resolve-import x) / symbol-drop / symbol-append
   (K-outer) generated library graphs on disk, import sets of nesting depth <= 4, every candidate name probed
             in the importing environment of the real chibi vs the extracted SPEC (coq/C14/Spec.v)."""
import hashlib, os, shutil, subprocess, itertools, time
from vlib import build as B, core
from gen import c14_import as G
from gen import c14_round5 as R5
import sys

HERE = os.path.dirname(os.path.abspath(__file__))
ROOT = os.path.dirname(HERE)

NAMES = ["a", "b", "c", "ab", "abc", "p:a", "p:b", "x", "x-a"]
EXTRA_TARGETS = ["z", "p:z", "x-b", "ba"]
PREFIXES = ["p:", "a", "ab", "x-", "x"]
FIXED_DEFS = ["tick", "ctr", "m1", "h1", "q"]       # every library defines these; h1 and q are never exported
PRIVATE = ["h1", "q", "tick-n"]
# round 2: exported macros that wrap user-supplied forms (each library defines those not visible through its imports):
#   (wif t form)  sc-macro-transformer, user form closed with free names (it), template binds it
#   (wifx t form) the same with free names (it x): x is a candidate name, redirected to the macro's context by design
#   (w0 t form)   sc-macro-transformer, user form closed with no free names
#   (erw t form)  er-macro-transformer, user form inserted bare under a renamed let
WRAPPERS = ["wif", "wifx", "w0", "erw"]
WRAPPER_FREE = {"wif": ["it"], "wifx": ["it", "x"], "w0": [], "erw": []}
LEAK_SIG = "closed:sc-free-names:macro-library-binding-visible"
# round 3: auxiliary-syntax LITERALS.  Every library also defines (unless visible through its imports) and may export/rename/re-export
#   lit                   its own auxiliary keyword (a macro answering a tagged value, so that (lit) is a safe probe)
#   (mlit x)              syntax-rules with literals (lit else => ulit): which literal x matches, (v14lit <lib> lit|else|=>|ulit|no);
#                         ulit (round 4) is defined by NO library: unbound inside the macro's library unless that library imports some
#                         variable under this name (exports may rename to ulit); R7RS 4.3.2: an unbound ulit of the program must match it
#   (elit x)              er-macro-transformer doing the same with (compare x (rename 'lit)) ...
# and may re-export (scheme base)'s else => ... _ unquote under other names ((export (rename else otherwise))).
# The SPEC sees (scheme base) as library number 0 of every graph, exporting exactly these keywords.
LITS = ["lit", "mlit", "elit"]
LIT_NAMES = ("lit", "else", "=>", "ulit")          # the literals of mlit / elit, in the order the macros test them
MACRO_DEFS = ["m1"] + WRAPPERS + LITS
KW = ["else", "=>", "...", "_", "unquote"]
KW_ALIASES = ["otherwise", "then", "dots", "any", "unq"]
SB = ("scheme", "base")
SB_TAG = "scheme.base"
SUPPORT = "(prefix (only (scheme base) cond case guard raise quote quasiquote list car let-syntax syntax-rules) c14:)"
# probe key -> form; N is replaced by the name under test (never in operator position)
LIT_PROBES = ["ce", "ca", "se", "sa", "ge", "ga", "el", "us", "uq"]
MODS = ("only", "except", "rename", "prefix", "drop-prefix")
# importer kinds of the driver process (the module table is one per process, whoever imports)
IMPORTER_KINDS = ["interaction", "load-file", "load-port", "include"]
# second standard environments, made at the end of a top-level program (making one resets chibi's global exception handler: guard in the
# program stops catching afterwards, so nothing that may raise follows)
STD_KINDS = ["sre7-load-file", "sre5-load-port", "sre7-twice", "sre7-include"]


# ----------------------------------------------------------------------------- import sets (python side)
def sym(s):
    return "||" if s == "" else s


def iset_str(i):
    k = i[0]
    if k == "lib":
        return "(" + " ".join(i[1]) + ")"
    if k in ("only", "except"):
        return "(%s %s%s)" % (k, iset_str(i[1]), "".join(" " + sym(n) for n in i[2]))
    if k == "rename":
        return "(rename %s%s)" % (iset_str(i[1]), "".join(" (%s %s)" % (sym(a), sym(b)) for a, b in i[2]))
    return "(%s %s %s)" % (k, iset_str(i[1]), sym(i[2]))


def iset_lib(i):
    return i[1] if i[0] == "lib" else iset_lib(i[1])


def iset_depth(i):
    return 0 if i[0] == "lib" else 1 + iset_depth(i[1])


def iset_mods(i):
    return [] if i[0] == "lib" else [i[0]] + iset_mods(i[1])


def py_drop(p, n):
    return n[len(p):] if len(n) > len(p) and n.startswith(p) else n


def py_denote(world, i):
    """the generator's own idea of an import set (used to build mostly-valid inputs, never as the oracle)"""
    k = i[0]
    if k == "lib":
        return list(world[i[1]]) if i[1] in world else None
    s = py_denote(world, i[1])
    if s is None:
        return None
    if k == "only":
        out = []
        for n in i[2]:
            hit = [q for q in s if q[0] == n]
            if not hit:
                return None
            out.append(hit[0])
        return out
    if k == "except":
        return [q for q in s if q[0] not in i[2]]
    if k == "rename":
        def ren(n):
            for a, b in i[2]:
                if a == n:
                    return b
            return n
        return [(ren(n), m) for n, m in s]
    if k == "prefix":
        return [(i[2] + n, m) for n, m in s]
    return [(py_drop(i[2], n), m) for n, m in s]


def gen_iset(rng, world, lib, depth, err=0.0):
    if depth == 0:
        return ("lib", lib)
    inner = gen_iset(rng, world, lib, depth - 1, err)
    vis = py_denote(world, inner)
    names = []
    for n, _ in (vis or []):
        if n not in names:
            names.append(n)
    pool = NAMES + EXTRA_TARGETS
    k = rng.choice(MODS)
    if k == "only":
        ids = rng.sample(names, min(len(names), rng.randint(1, 3))) if names else []
        if rng.random() < err or not ids:
            ids.insert(rng.randrange(len(ids) + 1), rng.choice([n for n in pool if n not in names] or ["zz"]))
        return ("only", inner, ids)
    if k == "except":
        ids = rng.sample(names, min(len(names), rng.randint(0, 2))) if names else []
        if rng.random() < 0.15:
            ids.append(rng.choice(pool))
        return ("except", inner, ids)
    if k == "rename":
        prs = []
        for a in (rng.sample(names, min(len(names), rng.randint(1, 2))) if names else []):
            prs.append((a, rng.choice(pool)))
        if rng.random() < 0.15 or not prs:
            prs.append((rng.choice(pool), rng.choice(pool)))
        if len(prs) == 2 and rng.random() < 0.3:          # swap a <-> b
            prs = [(prs[0][0], prs[1][0]), (prs[1][0], prs[0][0])]
        return ("rename", inner, prs)
    if k == "prefix":
        return ("prefix", inner, rng.choice(PREFIXES))
    # drop-prefix: prefer a prefix that some visible name equals or properly starts with
    good = [p for p in PREFIXES if any(n.startswith(p) for n in names)]
    return ("drop-prefix", inner, rng.choice(good) if good and rng.random() < 0.8 else rng.choice(PREFIXES))


# ----------------------------------------------------------------------------- library graphs
class Lib:
    def __init__(self, name, imports, defs, exports):
        self.name, self.imports, self.defs, self.exports = name, imports, defs, exports   # exports: [(ext, int)]
        # round 4: library DECLARATIONS under cond-expand / in an included file (lib/meta-7.scm evaluates the declarations of define-library in
        # the meta environment, where cond-expand is the macro of lib/init-7.scm and include is a meta-primitive of eval-module)
        self.ce = None          # dict(kind="begin"|"export", what=<def name | (ext, int)>, clauses=[req | "else"], sel=index of the clause that holds)
        self.inc = []           # plain definitions moved into the included file <lib>-inc.scm

    def spec_str(self, e, m):
        return e if e == m else "(rename %s %s)" % (m, e)

    def ce_decl(self):
        """the cond-expand declaration: the real declaration sits in clause number sel (every clause before it is false); all other
        clauses hold decoys -- a wrong value for the definition / an export of the private h1"""
        t, c = self.tag, self.ce
        out = []
        for k, req in enumerate(c["clauses"]):
            if c["kind"] == "begin":
                body = "(begin (define %s (list 'v14val '%s '%s)))" % (c["what"], t, c["what"] if k == c["sel"] else "ce-decoy")
            else:
                body = "(export %s)" % (self.spec_str(*c["what"]) if k == c["sel"] else "h1")
            out.append("(%s %s)" % ("else" if req == "else" else ce_str(req), body))
        return "(cond-expand %s)" % " ".join(out)

    def inc_text(self):
        return "".join("(define %s (list 'v14val '%s '%s))\n" % (d, self.tag, d) for d in self.inc)

    @property
    def tag(self):
        return ".".join(self.name)

    def graph_sexp(self):
        return "(%s (%s) (%s) (%s))" % (iset_str(("lib", self.name)), " ".join(iset_str(i) for i in [("lib", SB)] + self.imports),
                                         " ".join(self.defs + ["tick-n"]),
                                         " ".join("(%s %s)" % (e, m) for e, m in self.exports))

    def sld(self):
        t = self.tag
        ce_export = self.ce["what"] if self.ce and self.ce["kind"] == "export" else None
        ce_def = self.ce["what"] if self.ce and self.ce["kind"] == "begin" else None
        ex = " ".join(self.spec_str(e, m) for e, m in self.exports if (e, m) != ce_export)
        body = ['(write-string "BODY %s\\n")' % t, "(define tick-n 0)"]
        if "tick" in self.defs:
            body += ["(define ctr (list 'v14ctr '%s 0))" % t,
                     "(define (tick) (set! tick-n (+ tick-n 1)) (set! ctr (list 'v14ctr '%s tick-n)) (list 'v14tick '%s tick-n))" % (t, t)]
        # (round 5) the syntax-rules macros m1 / lit / mlit are reached through an er-macro-transformer of the same name that hands the
        # operands to the PRIVATE syntax-rules macro <name>-sr (literal matching is still syntax-rules' own, in the library's environment)
        # and turns a use as a bare IDENTIFIER into (<name>-sr): like the wrappers, every generated macro then answers its tagged value
        # instead of raising inside its transformer when a probe reaches it in identifier form (e.g. the declared free name x of wifx,
        # looked up in a macro library that imported (rename mlit x): thorough tier g287) -- F-C06-1 would corrupt the process
        bare_safe = ("(define-syntax %s (er-macro-transformer (lambda (form rename compare) "
                     "(cons (rename '%s) (if (pair? form) (cdr form) '())))))")
        if "m1" in self.defs:
            body.append("(define-syntax m1-sr (syntax-rules () ((_) (list 'v14mac '%s 'm1 h1))))" % t)
            body.append(bare_safe % ("m1", "m1-sr"))
        # (round 5: (pair? form) first -- a wrapper reached in IDENTIFIER form, e.g. the declared free name x of wifx looked up in a macro
        # library where x is (rename wifx x), must answer its tagged value too instead of raising (cdr 'x) inside the transformer: F-C06-1)
        ok = "(and (pair? form) (pair? (cdr form)) (pair? (cddr form)))"
        for w in ("wif", "wifx"):
            if w in self.defs:
                body.append("(define-syntax %s (sc-macro-transformer (lambda (form env) (if %s "
                            "(let ((test (make-syntactic-closure env '() (cadr form))) (body (make-syntactic-closure env '(%s) (car (cddr form))))) "
                            "`(let ((it ,test)) (if it ,body #f))) ''(v14mac %s %s)))))" % (w, ok, " ".join(WRAPPER_FREE[w]), t, w))
        if "w0" in self.defs:
            body.append("(define-syntax w0 (sc-macro-transformer (lambda (form env) (if %s "
                        "(make-syntactic-closure env '() (car (cddr form))) ''(v14mac %s w0)))))" % (ok, t))
        if "erw" in self.defs:
            body.append("(define-syntax erw (er-macro-transformer (lambda (form rename compare) (if %s "
                        "`(,(rename 'let) ((,(rename 'tmp) 1)) ,(car (cddr form))) `(,(rename 'quote) (v14mac %s erw))))))" % (ok, t))
        # (round 5) pattern variables are named outside every name pool: a library may import (scheme base)'s ... under ANY pool name --
        # e.g. (rename (v14 g l1) (otherwise x)) with l1 exporting (rename ... otherwise) -- and a pattern (_ x) is then (_ <ellipsis>):
        # "bad ellipsis", the library legitimately fails to load (seen in the thorough tier: g78 l3, g184 l2)
        if "lit" in self.defs:
            body.append("(define-syntax lit-sr (syntax-rules () ((_ . c14-rest) '(v14mac %s lit))))" % t)
            body.append(bare_safe % ("lit", "lit-sr"))
        if "mlit" in self.defs:
            body.append(bare_safe % ("mlit", "mlit-sr"))
            body.append("(define-syntax mlit-sr (syntax-rules (lit else => ulit) ((_ lit) '(v14lit %s lit)) ((_ else) '(v14lit %s else)) ((_ =>) '(v14lit %s =>)) "
                        "((_ ulit) '(v14lit %s ulit)) ((_ c14-pv) '(v14lit %s no)) ((_ . c14-rest) '(v14mac %s mlit))))" % (t, t, t, t, t, t))
        if "elit" in self.defs:
            body.append("(define-syntax elit (er-macro-transformer (lambda (form rename compare) (if (and (pair? form) (pair? (cdr form)) (null? (cddr form))) "
                        "(list (rename 'quote) (list 'v14lit '%s (cond ((compare (cadr form) (rename 'lit)) 'lit) ((compare (cadr form) (rename 'else)) 'else) "
                        "((compare (cadr form) (rename '=>)) '=>) ((compare (cadr form) (rename 'ulit)) 'ulit) (else 'no)))) (list (rename 'quote) '(v14mac %s elit))))))" % (t, t))
        for d in self.defs:
            if d not in ("tick", "ctr") and d not in MACRO_DEFS and d != ce_def and d not in self.inc:
                body.append("(define %s (list 'v14val '%s '%s))" % (d, t, d))
        chibi = " (only (chibi) sc-macro-transformer er-macro-transformer make-syntactic-closure)" if any(w in self.defs for w in WRAPPERS + ["elit", "m1", "lit", "mlit"]) else ""
        extra = ""
        if self.inc:
            extra += "\n  (include \"%s-inc.scm\")" % self.name[-1]
        if self.ce:
            extra += "\n  " + self.ce_decl()
        return "(define-library (%s)\n  (export %s)\n  (import (scheme base)%s%s)\n  (begin\n    %s)%s)\n" % (
            " ".join(self.name), ex, chibi, "".join(" " + iset_str(i) for i in self.imports), "\n    ".join(body), extra)


def sb_graph_sexp():
    return "((scheme base) () (%s) (%s))" % (" ".join(KW), " ".join("(%s %s)" % (k, k) for k in KW))


def gen_ce_req(rng, features, gid, libs, want):
    """a feature requirement whose truth (python rendering of CondExpand.holds) is want; library requirements name earlier libraries of
    the graph (they exist) or missing ones"""
    names = set(iset_str(("lib", l.name)) for l in libs)
    for _ in range(30):
        f = gen_ce_feature(rng, features, gid, libs, rng.choice([0, 1, 1, 2, 3]))
        if ce_holds(f, features, names) == want:
            return f
    return ("not", "c14-no-such-feature") if want else "c14-no-such-feature"


def gen_decl_plan(rng, lib, libs, features, gid):
    """round 4: put one declaration of the library under cond-expand and/or move plain definitions into an included file"""
    plain = [d_ for d_ in lib.defs if d_ not in ("tick", "ctr", "h1", "q") and d_ not in MACRO_DEFS]
    if plain and rng.random() < 0.3:
        lib.inc = rng.sample(plain, min(len(plain), rng.choice([1, 1, 2])))
    if rng.random() < 0.45:
        rest = [d_ for d_ in plain if d_ not in lib.inc]
        kind = rng.choice(["begin", "export"])
        what = None
        if kind == "begin" and rest:
            what = rng.choice(rest)
        elif lib.exports:
            kind, what = "export", rng.choice(lib.exports)
        if what is not None:
            clauses = [gen_ce_req(rng, features, gid, libs, False) for _ in range(rng.choice([0, 0, 1, 2]))]
            sel = len(clauses)
            clauses.append("else" if rng.random() < 0.3 else gen_ce_req(rng, features, gid, libs, True))
            if clauses[-1] != "else":
                for _ in range(rng.choice([0, 0, 1])):
                    clauses.append(gen_ce_req(rng, features, gid, libs, rng.random() < 0.5))      # after the first true clause: never selected
                if rng.random() < 0.4:
                    clauses.append("else")
            lib.ce = dict(kind=kind, what=what, clauses=clauses, sel=sel)
            if kind == "export":
                # the module's export list is built declaration by declaration: the export under cond-expand comes after the main list
                # (the order of the id list %resolve-import returns, compared by the inner correspondence); same list object as the world's
                lib.exports.remove(what)
                lib.exports.append(what)


def gen_graph(rng, gid, nlibs, features=None):
    libs, world = [], {SB: [(k, k) for k in KW]}
    for j in range(nlibs):
        name = ("v14", gid, "l%d" % j)
        imports, visible = [], []
        if j > 0 and rng.random() < 0.7:
            for src in rng.sample(libs, min(len(libs), rng.choice([1, 1, 2]))):
                for _ in range(20):
                    i = gen_iset(rng, world, src.name, rng.choice([0, 0, 1, 1, 2]), err=0.0)
                    v = py_denote(world, i)
                    if v is not None:
                        break
                else:
                    i, v = ("lib", src.name), py_denote(world, ("lib", src.name))
                imports.append(i)
                visible += [n for n, _ in v]
        own_pool = [n for n in NAMES if n not in visible or rng.random() < 0.08]
        defs = rng.sample(own_pool, min(len(own_pool), rng.randint(2, 5))) + ["h1", "q"]
        if "tick" not in visible and "ctr" not in visible:
            defs += ["tick", "ctr"]
        if "m1" not in visible:
            defs.append("m1")
        for w in WRAPPERS + LITS:
            if w not in visible:
                defs.append(w)
        cands = [d for d in defs if d not in ("h1", "q")] + [n for n in dict.fromkeys(visible) if n not in defs and n not in PRIVATE and n not in KW]
        chosen = rng.sample(cands, min(len(cands), rng.randint(3, 10)))
        sc = [c for c in cands if c in ("wif", "wifx")]
        if sc and not any(c in sc for c in chosen) and rng.random() < 0.6:
            chosen.append(rng.choice(sc))
        exports, used = [], set()
        for m in chosen:
            e = m
            if rng.random() < 0.35:
                e = rng.choice(NAMES + EXTRA_TARGETS + ["ulit"] + [c for c in chosen if c not in KW])        # may swap with another export
            if e in used:
                e = m
            if e in used:
                continue
            used.add(e)
            exports.append((e, m))
        if rng.random() < 0.45:
            # re-export auxiliary syntax of (scheme base): (export else) / (export (rename else otherwise))
            for k in rng.sample(KW, rng.randint(1, 3)):
                e = k if rng.random() < 0.3 else rng.choice(KW_ALIASES + NAMES[:3] + ["p:" + k])
                if e not in used and e not in visible and e not in defs and (e == k or e not in KW):
                    used.add(e)
                    exports.append((e, k))
        lib = Lib(name, imports, defs, exports)
        if features:
            gen_decl_plan(rng, lib, libs, features, gid)
        libs.append(lib)
        world[name] = exports
    return libs, world


AMBIGUOUS = (("?",), "A")


def py_origins(libs, world, lib, m, fuel=8):
    """generator-side guess of the definitions internal name m of library lib may denote: ALL of them when the library binds the name more
    than once (defined and imported, or imported through two import sets -- "an error" in R7RS; chibi lets the later one win)"""
    if tuple(lib) == SB:
        return {(SB, m)} if m in KW else set()
    L = next((l for l in libs if l.name == lib), None)
    if L is None or fuel == 0:
        return set()
    out = set()
    if m in L.defs:
        out.add((lib, m))
    for i in [("lib", SB)] + L.imports:
        for n, mm in (py_denote(world, i) or []):
            if n == m:
                out |= py_origins(libs, world, iset_lib(i), mm, fuel - 1)
    return out


def py_origin(libs, world, lib, m, fuel=8):
    """the single definition behind internal name m of library lib, None, or AMBIGUOUS (shapes inputs only, never a verdict)"""
    s = py_origins(libs, world, lib, m, fuel)
    return None if not s else (next(iter(s)) if len(s) == 1 else AMBIGUOUS)


def gen_closed_case(rng, libs, world):
    """a program whose import sets differ from the macro library's: one import set delivers wrapper macros of library M
    (plain, only, prefixed or renamed), 1-2 further import sets over any libraries deliver the names the user code refers to"""
    havers = []
    for L in libs:
        ws = [(e, m) for e, m in L.exports if (py_origin(libs, world, L.name, m) or (None, None))[1] in WRAPPERS]
        if ws:
            havers.append((L, ws))
    if not havers:
        return None
    M, ws = rng.choice(havers)
    pick = rng.sample(ws, min(len(ws), rng.randint(1, 3)))
    r = rng.random()
    im = ("lib", M.name) if r < 0.3 else ("only", ("lib", M.name), [e for e, _ in pick])
    r = rng.random()
    if r < 0.2:
        im = ("prefix", im, rng.choice(PREFIXES))
    elif r < 0.4:
        vis = [n for n, _ in py_denote(world, im)]
        a = rng.choice([e for e, _ in pick])
        im = ("rename", im, [(a, rng.choice([t for t in NAMES + EXTRA_TARGETS if t not in vis] or ["zz9"]))])
    isets = [gen_iset(rng, world, rng.choice(libs).name, rng.choice([0, 0, 1, 2, 3]), err=0.0) for _ in range(rng.choice([1, 1, 2]))]
    isets.insert(rng.randrange(len(isets) + 1), im)
    macs = []
    for i in isets:
        for n, m in (py_denote(world, i) or []):
            o = py_origin(libs, world, iset_lib(i), m)
            # (a macro whose visible name is itself a declared free name -- x, it -- would be looked up in the macro's context)
            if o and o[1] in WRAPPERS and n not in macs and n not in ("x", "it") and py_all_defs(libs, world, isets, n) <= set(WRAPPERS):
                macs.append(n)
    if not macs:
        return None
    rng.shuffle(macs)
    stacks = [[m] for m in macs[:4]]
    for _ in range(rng.choice([1, 2, 2])):
        stacks.append([rng.choice(macs) for _ in range(rng.choice([2, 2, 3]))])
    return dict(kind="envsc", isets=isets, names=_candidates(rng, world, isets, libs=libs), stacks=stacks)


def gen_kw_iset(rng, libs, world, plain_too=False):
    """an import set that delivers auxiliary-syntax keywords under (mostly) other names: (scheme base) itself or a library re-exporting
    keywords, under 1-3 modifiers.  plain_too: the program also imports the plain (scheme base) (top-level programs, whose own probe
    code uses cond/else): then no keyword NAME may come to denote another keyword (swaps)"""
    reexp = [L for L in libs if any((py_origin(libs, world, L.name, m) or ((), ""))[0] == SB for _, m in L.exports)]
    for _ in range(30):
        base = rng.choice(reexp).name if reexp and rng.random() < 0.4 else SB
        i = ("lib", base)
        if base == SB and rng.random() < 0.5:
            i = ("only", i, rng.sample(KW, rng.randint(2, 5)))
        for _ in range(rng.choice([1, 1, 2, 3])):
            vis = [n for n, m in (py_denote(world, i) or []) if (py_origin(libs, world, iset_lib(i), m) or ((), ""))[0] == SB]
            k = rng.choice(["rename", "rename", "prefix", "prefix", "only", "except", "drop-prefix"])
            if k == "rename" and vis:
                srcs = rng.sample(vis, min(len(vis), rng.randint(1, 3)))
                prs = [(a, rng.choice(KW_ALIASES + NAMES + EXTRA_TARGETS)) for a in srcs]
                if len(prs) >= 2 and rng.random() < 0.25:
                    prs[1] = (prs[1][0], prs[0][0])
                    prs[0] = (prs[0][0], prs[1][0])              # swap: (else =>) (=> else)
                i = ("rename", i, prs)
            elif k == "prefix":
                # the real (scheme base) exports far more than the five keywords the SPEC world lists: over the WHOLE library no prefix may
                # turn one of its other names into a candidate name ("x" + "-" = x-, a candidate)
                whole = iset_lib(i) == SB and not any(j == "only" for j in iset_mods(i))
                i = ("prefix", i, rng.choice([q for q in PREFIXES if not (whole and q == "x")]))
            elif k == "only" and vis:
                i = ("only", i, rng.sample(vis, min(len(vis), rng.randint(1, 3))))
            elif k == "except" and vis:
                i = ("except", i, rng.sample(vis, min(len(vis), rng.randint(0, 2))))
            elif k == "drop-prefix":
                names = [n for n, _ in (py_denote(world, i) or [])]
                good = [q for q in PREFIXES if any(n.startswith(q) and len(n) > len(q) for n in names)]
                if good:
                    i = ("drop-prefix", i, rng.choice(good))
        vis = [n for n, _ in (py_denote(world, i) or [])]
        # (two keywords under ONE visible name are "an error" in R7RS and which one wins depends on the order of (scheme base)'s own
        #  export list, which the SPEC's world does not know: never generated, at any nesting level -- see distinct_all)
        if vis and iset_depth(i) >= 1 and distinct_all(world, i) and (not plain_too or all(m == n for n, m in py_denote(world, i) if n in KW)):
            return i
    return ("rename", ("lib", SB), [("else", "otherwise")])


def distinct_all(world, i):
    while True:
        vis = [n for n, _ in (py_denote(world, i) or [])]
        if len(set(vis)) != len(vis):
            return False
        if i[0] == "lib":
            return True
        i = i[1]


def gen_lit_case(rng, libs, world):
    """a program importing auxiliary keywords under other names next to import sets over the generated libraries (which deliver lit/mlit/elit
    and ordinary bindings); every candidate name is probed in LITERAL position of cond/case/guard, of a local syntax-rules macro (ellipsis,
    underscore), of quasiquote, and of every visible mlit/elit"""
    isets = [gen_kw_iset(rng, libs, world) for _ in range(rng.choice([1, 1, 2]))]
    for _ in range(rng.choice([1, 2, 2])):
        isets.insert(rng.randrange(len(isets) + 1), gen_iset(rng, world, rng.choice(libs).name, rng.choice([0, 0, 1, 2, 3]), err=0.0))
    return dict(kind="lit", isets=isets, **lit_plan(rng, libs, world, isets))


def py_all_defs(libs, world, isets, n):
    """(round 5) the definition names behind EVERY binding the program's import sets give the visible name n (a name imported twice is 'an
    error' in R7RS; chibi lets the later import win): a probe that CALLS n as a macro of some kind is generated only when every binding is
    a macro of that kind -- otherwise the call may reach another macro whose transformer raises (m1 has the single pattern (_)), F-C06-1"""
    out = set()
    for i in isets:
        for a, m in (py_denote(world, i) or []):
            if a == n:
                os_ = py_origins(libs, world, iset_lib(i), m)
                if not os_:
                    out.add("?")
                for o in os_:
                    out.add("kw:" + o[1] if tuple(o[0]) == SB else o[1])
    return out


def py_class(libs, world, isets, n):
    """generator-side guess of what a visible name is: a keyword, 'var', 'macro', 'U' or 'A' (bound by two import sets: not probed where
    the probe would evaluate it).  Only decides WHICH probes are run for the name; verdicts come from the SPEC origin."""
    found = set()
    for i in isets:
        for a, m in (py_denote(world, i) or []):
            if a == n:
                os_ = py_origins(libs, world, iset_lib(i), m)
                if not os_:
                    found.add("U")
                for o in os_:
                    found.add(o[1] if tuple(o[0]) == SB else ("macro" if o[1] in MACRO_DEFS else "var"))
    if not found:
        return "U"
    return found.pop() if len(found) == 1 else "A"


def lit_plan(rng, libs, world, isets, limit=30):
    names = _candidates(rng, world, isets, limit=limit, libs=libs, keep_kw=True)
    names = list(dict.fromkeys(names))
    mls = []
    for i in isets:
        for n, m in (py_denote(world, i) or []):
            o = py_origin(libs, world, iset_lib(i), m)
            if o and o[1] in ("mlit", "elit") and n not in mls and py_class(libs, world, isets, n) == "macro" \
                    and py_all_defs(libs, world, isets, n) <= {"mlit", "elit"}:
                mls.append(n)
    plan = []
    for n in names:
        c = py_class(libs, world, isets, n)
        ks = ["el", "uq"]
        if c != "...":
            ks.append("us")
        if c in ("else", "var", "U"):
            ks += ["ce", "se", "ge"]
        if c in ("=>", "var", "U"):
            ks += ["ca", "sa", "ga"]
        plan.append((n, [k for k in LIT_PROBES if k in ks]))
    return dict(names=names, plan=plan, mls=mls[:4])


def lit_case_text(n, c):
    return "(lit %d (%s) (%s) (%s))" % (n, " ".join(iset_str(i) for i in c["isets"]),
                                       " ".join("(%s %s)" % (sym(x), " ".join(ks)) for x, ks in c["plan"]), " ".join(sym(m) for m in c["mls"]))


def template(stack):
    t = "<>"
    for m in reversed(stack):
        t = "(%s 1 %s)" % (sym(m), t)
    return t


def tiny_graph(gid):
    """the 4-name library of the grammar-complete enumeration (thorough), with a renamed export and a swap"""
    l0 = Lib(("v14", gid, "l0"), [], ["a", "b", "ab", "p:a"] + FIXED_DEFS, [("a", "b"), ("b", "a"), ("ab", "ab"), ("p:a", "p:a")])
    return [l0], {SB: [(k, k) for k in KW], l0.name: l0.exports}


def enum_isets(world, lib, depth):
    """every import set of nesting depth <= depth over the small alphabet of tiny_graph"""
    level = [("lib", lib)]
    out = list(level)
    four = ["a", "b", "ab", "p:a"]
    ids_choices = [[x] for x in four] + [list(c) for c in itertools.combinations(four, 2)] + [["b", "ab", "p:a"], ["zz"], ["a", "zz"], []]
    ren_choices = [[("a", "b")], [("a", "b"), ("b", "a")], [("ab", "z")], [("zz", "a")], [("p:a", "a")], [("a", "ab")],
                   [("b", "p:b"), ("ab", "p:b")], [("a", "z"), ("a", "y")]]
    for _ in range(depth):
        nxt = []
        for i in level:
            for ids in ids_choices:
                nxt.append(("only", i, ids))
                nxt.append(("except", i, ids))
            for prs in ren_choices:
                nxt.append(("rename", i, prs))
            for p in ["p:", "a", "ab"]:
                nxt.append(("prefix", i, p))
                nxt.append(("drop-prefix", i, p))
        out += nxt
        level = nxt
    return out


# ----------------------------------------------------------------------------- S-expression results
def parse_datum(text):
    forms = G.read_all(text)
    return [f for (_, _, f) in forms]


def norm(d):
    """canonical python form of a datum read by gen.c14_import.read_all"""
    if isinstance(d, list):
        return tuple(norm(x) for x in d)
    if isinstance(d, tuple) and d and d[0] == "dotted":
        return ("dotted", tuple(norm(x) for x in d[1]), norm(d[2]))
    if isinstance(d, G.Str):
        return ("str", str(d))
    if isinstance(d, G.Sym):
        s = str(d)
        return s[1:-1] if len(s) >= 2 and s[0] == "|" and s[-1] == "|" else s
    return d


# ----------------------------------------------------------------------------- extraction without ocaml/common.ml
def extract(ctx, name):
    """like ctx.extract, but the extracted model contains Coq's [string] type, which shadows OCaml's string in
    ocaml/common.ml; the C14 drivers carry their own conversions and are built without common.ml"""
    bd = os.path.join(core.OCAML_BUILD, name)
    exv = os.path.join(core.COQ, "Extract_%s.v" % name)
    drv = os.path.join(ROOT, "ocaml", name + "_driver.ml")
    deps_v = [f for f in core.dep_closure(exv) if not os.path.relpath(f, core.COQ).startswith("Common" + os.sep)]
    with core.CoqLock(files=deps_v + [exv]):
        os.makedirs(bd, exist_ok=True)
        h = hashlib.sha256()
        for f in core.dep_closure(exv):
            h.update(open(f, "rb").read())
        h.update(open(drv, "rb").read())
        stamp, exe = os.path.join(bd, ".stamp"), os.path.join(bd, "modelrun")
        if os.path.exists(exe) and os.path.exists(stamp) and open(stamp).read() == h.hexdigest():
            return exe
        for f in os.listdir(bd):
            if not f.startswith("."):
                try:
                    os.unlink(os.path.join(bd, f))
                except OSError:
                    pass
        import re
        deps = []
        for m in re.finditer(r"From\s+ChibiV\s+Require\s+(?:Import\s+|Export\s+)?(.*?)\.\s", core.strip_coq_comments(open(exv).read()) + " ", re.S):
            for mod in m.group(1).split():
                deps.append(mod.replace(".", "/") + ".vo")
        with core.CoqLock():
            core._coq_makefile_nolock()
        rr = core.sh("timeout 900 make -k -j4 " + " ".join(deps), cwd=core.COQ)
        if rr.returncode != 0:
            ctx.broken("extract:" + name, "Coq build of the model failed", log=(rr.stdout + rr.stderr)[-3000:])
            return None
        r = core.sh("timeout 600 coqc -Q %s ChibiV -w -extraction-opaque-accessed,-extraction-reserved-identifier,-notation-overridden %s -o %s/Extract_%s.vo" % (core.COQ, exv, bd, name), cwd=bd)
        if r.returncode != 0 or not os.path.exists(os.path.join(bd, "model.ml")):
            ctx.broken("extract:" + name, "extraction failed", log=(r.stdout + r.stderr)[-3000:])
            return None
        shutil.copy(drv, os.path.join(bd, "driver.ml"))
        r = core.sh(["ocamlfind", "ocamlopt", "-w", "-a", "-package", "str", "-linkpkg", "model.mli", "model.ml", "driver.ml", "-o", "modelrun"], cwd=bd)
        if r.returncode != 0:
            ctx.broken("extract:" + name, "ocaml build failed", log=(r.stdout + r.stderr)[-3000:])
            return None
        open(stamp, "w").write(h.hexdigest())
        return exe


# ----------------------------------------------------------------------------- running the real chibi
def run_driver(d, moddir, casefile, timeout=300):
    env = B.chibi_env(d, {"CHIBI_MODULE_PATH": os.path.join(d, "lib") + ":" + moddir, "C14_CASES": casefile})
    try:
        r = subprocess.run([os.path.join(d, "chibi-scheme"), os.path.join(ROOT, "harness", "c14_driver.scm")],
                           capture_output=True, text=True, timeout=timeout, env=env)
        out, rc, err = r.stdout, r.returncode, r.stderr
    except subprocess.TimeoutExpired as e:
        out = e.stdout.decode() if isinstance(e.stdout, bytes) else (e.stdout or "")
        rc, err = "TIMEOUT", ""
    res, bodies, done, tainted = {}, [], False, None
    for line in out.split("\n"):
        if done:
            break        # (after an error caught from inside a macro transformer the pinned chibi re-runs the program tail at exit: ignore it)
        if line.startswith("CASE "):
            sp = line.index(" ", 5)
            res.setdefault(int(line[5:sp]), line[sp + 1:])
        elif line.startswith("BODY "):
            bodies.append(line[5:].strip())
        elif line.startswith("TAINTED "):
            tainted = int(line[8:].strip())
        elif line == "DONE":
            done = True
    return res, bodies, done, rc, err, tainted


def replay_cmd(d, moddir, isets, name, top=False):
    prog = "(import (scheme base) (scheme write) (scheme eval)) (write (eval '%s (environment %s)))" % (
        sym(name), " ".join("'" + iset_str(i) for i in isets))
    if top:
        prog = "(import (scheme base) (scheme write) %s) (write %s)" % (" ".join(iset_str(i) for i in isets), sym(name))
    return "echo \"%s\" > /var/tmp/c14-replay.scm; LD_LIBRARY_PATH=%s CHIBI_IGNORE_SYSTEM_PATH=1 CHIBI_MODULE_PATH=%s:%s %s/chibi-scheme /var/tmp/c14-replay.scm" % (
        prog.replace('"', '\\"'), d, os.path.join(d, "lib"), moddir, d)


MALFORMED = ["foo", "()", "(only)", "(except)", "(prefix {L})", "(drop-prefix {L})", "(rename {L} (a))", "(rename {L} a)",
             "(only {L} . a)", "(prefix {L} 3)", "(only (v14 nonexistent lib) a)", "(frob {L} a)", "(only {L})", "(except {L})",
             "(rename {L})", "(prefix {L} p: extra)", "(only ({L}) a)", "(prefix (only {L} a) q-)", "(v14 {G} nolib)",
             "(drop-prefix (prefix {L} a) a)", "(only {L} a a)", "(rename {L} (a b) (a c))", "(except {L} a a)", "(only {L} 1)",
             "((only) a)", "(only \"str\" a)", "(prefix {L} \"p\")"]


IDEQ_SOURCE = (
    "sexp sexp_identifier_eq_op (sexp ctx, sexp self, sexp_sint_t n, sexp e1, sexp id1, sexp e2, sexp id2) { sexp cell1, cell2; "
    "sexp_assert_type(ctx, sexp_envp, SEXP_ENV, e1); sexp_assert_type(ctx, sexp_envp, SEXP_ENV, e2); "
    "cell1 = sexp_env_cell(ctx, e1, id1, 0); cell2 = sexp_env_cell(ctx, e2, id2, 0); "
    "if (cell1 && (sexp_cdr(cell1) == SEXP_UNDEF)) cell1 = NULL; if (cell2 && (sexp_cdr(cell2) == SEXP_UNDEF)) cell2 = NULL; "
    "if (cell1 && (cell1 == cell2)) return SEXP_TRUE; else if (!cell1 && !cell2 && (id1 == id2)) return SEXP_TRUE; "
    "while (sexp_synclop(id1)) id1 = sexp_synclo_expr(id1); while (sexp_synclop(id2)) id2 = sexp_synclo_expr(id2); "
    "if ((id1 == id2) && ((!cell1 && !cell2) "
    "#if !SEXP_USE_STRICT_TOPLEVEL_BINDINGS "
    "|| ((!cell1 || (!sexp_lambdap(sexp_cdr(cell1)) && !sexp_env_cell_syntactic_p(cell1))) && (!cell2 || (!sexp_lambdap(sexp_cdr(cell2)) && !sexp_env_cell_syntactic_p(cell2)))) "
    "#endif "
    ")) return SEXP_TRUE; return SEXP_FALSE; }")


def check_ideq_source(ctx):
    """(G, by comparison) IdEq.identifier_eq mirrors sexp_identifier_eq_op of a STRICT build: the function's text (comments and layout
    removed) must be the one the model was written from, and SEXP_USE_STRICT_TOPLEVEL_BINDINGS must default to 1.  Fails closed."""
    import re
    try:
        ev = open(os.path.join(B.REPO, "eval.c")).read()
        ft = open(os.path.join(B.REPO, "include", "chibi", "features.h")).read()
    except OSError as e:
        ctx.broken("gen:sexp_identifier_eq_op", "source not readable: %s" % e)
        return
    m = re.search(r"^sexp sexp_identifier_eq_op \(.*?^}", ev, re.S | re.M)
    body = re.sub(r"\s+", " ", re.sub(r"/\*.*?\*/", " ", m.group(0), flags=re.S)).strip() if m else ""
    if body != IDEQ_SOURCE:
        ctx.broken("gen:sexp_identifier_eq_op", "eval.c sexp_identifier_eq_op is not the text coq/C14/IdEq.v models (the repaired strict function; "
                   "fixes/C14-identifier-eq-undefined-cell.patch applied?): %s" % body[:700])
    nocomment = re.sub(r"/\*.*?\*/", " ", ft, flags=re.S)
    dm = re.search(r"#ifndef SEXP_USE_STRICT_TOPLEVEL_BINDINGS\s*#define SEXP_USE_STRICT_TOPLEVEL_BINDINGS (\d+)\s*#endif", nocomment)
    early = re.search(r"^\s*#\s*define\s+SEXP_USE_STRICT_TOPLEVEL_BINDINGS\b", nocomment[:dm.start()] if dm else nocomment, re.M)
    if not dm or dm.group(1) != "1" or early:
        ctx.broken("gen:strict-toplevel-bindings", "include/chibi/features.h no longer defaults SEXP_USE_STRICT_TOPLEVEL_BINDINGS to 1: IdEq.identifier_eq "
                   "models the strict function (names are compared only when neither identifier has a binding)")


def run(ctx):
    rng = ctx.rng
    thorough = ctx.thorough
    n_graphs, n_env, n_res, n_sc = (36, 26, 14, 6) if not thorough else (400, 60, 30, 16)
    # round 4: the quick tier SAMPLES the round-3 streams per graph (3 of the 4 importer kinds, 3 literal programs, 4 clause lists, one or
    # two second standard environments); every stream still runs on every graph, the thorough tier keeps the full volume
    n_imp, n_lit = (3, 3) if not thorough else (10, 10)
    n_ce = 4 if not thorough else 20
    ctx.cov["rule"] = ("outer: generated library graphs (1-6 libraries; exports with (rename a b) incl. swaps; libraries importing and re-exporting "
                       "through their own import sets; every body prints once and owns a counter; a macro expanding into a private helper) are written "
                       "to a scratch module directory; per graph one chibi process builds environments from import sets of nesting depth 0-4 "
                       "(modifier and argument choices aimed at: only over renamed/prefixed ids, except/rename of absent ids, rename collisions and swaps, "
                       "drop-prefix with name == prefix, unknown ids) and probes every candidate name (all visible names, the whole alphabet, private names, "
                       "the empty symbol) with (eval name env); each probe is compared with the extracted SPEC (which library's definition, unbound, or "
                       "import error; names R7RS leaves unspecified because bound twice are skipped); a probe is non-trivial when the import set has "
                       "depth >= 1 and distinct by (graph shape, import sets, name).  inner: (%resolve-import x), symbol-drop, symbol-append in the real "
                       "chibi vs the code translated from the same source, on the same import sets plus a malformed stream; the frames of the "
                       "importing environment ((env-exports frame) down the parent chain) vs the extracted Env.env_import.  module table: per graph "
                       "2-5 further libraries with arbitrary imports (self, cycles, missing libraries) loaded 4-8 times in one process vs the "
                       "extracted Load.run_history (per step success/error, exact order of body evaluations).  closed probes (round 2): every library also "
                       "defines/exports/renames macros that wrap a user form (sc-macro-transformer closing it with free names (it) / (it x) / none, er-macro-transformer); "
                       "per graph 6 (thorough 16) programs plus most top-level programs import such macros from a library M (plain, only, prefixed, renamed) next to "
                       "1-2 import sets of their own that differ from M's imports, and probe EVERY candidate name inside the user-code position of each visible "
                       "wrapper and of 1-2 nestings of depth 2-3, in pair form (name) and identifier form name; oracle = the SPEC origin of the name in the program "
                       "(exactly as outside the macro), the extracted SynClo.closed_probe classifies the standing leak F-C14-2 for unbound names; a closed probe is "
                       "distinct by (graph shape, imports, wrapper kinds, template, name).  round 4: no probe calls or evaluates a name that the SPEC or the "
                       "model of the code says denotes a keyword of (scheme base) (its transformer would raise: F-C06-1), and a sentinel in the driver "
                       "reports any error raised inside a macro transformer instead of answering from the corrupted context; mlit/elit carry a literal "
                       "ulit that no library defines, probed before and after the program evaluated the unbound name (R7RS 4.3.2); 45 % of the libraries put "
                       "one declaration (a definition or an export) under cond-expand (decoys in every clause but the first true one), 30 % keep 1-2 "
                       "definitions in an included file; the chibi processes run on a pool of 3 threads.  thorough adds the enumeration of "
                       "all import sets of depth <= 2 over a 4-name library with swapped renamed exports (11+ id lists, 8 rename lists, 3 prefixes).  "
                       "round 5: (a) 12 (thorough 150) graphs with an (export-all) library whose body has definitions, procedures and dead code referring to "
                       "earlier, LATER (forward), imported and DANGLING names (preferably names other libraries export): (env-exports (module-env lib)) vs the "
                       "extracted ExportAll.env_exports/eval_body (order included), then 12 (24) environments importing it under every modifier and plain, before "
                       "and after other libraries exporting the same names, optionally one import BEFORE the library was loaded; every candidate name evaluated "
                       "vs Spec.program_origin over the world in which the library exports what the model says; (b) 5 (60) macro libraries exporting 42 "
                       "syntax-rules macros = 14 template shapes (plain, without pattern variables, ellipsis depth 1/2, ellipsis followed by a tail, (... ...), (... tmpl), (... tmpl) with a literal ellipsis, dotted tail, "
                       "vector (with / without pattern variables) handed to a private macro, custom ellipsis, let-syntax and define-syntax generating macros) x private name as operator / operand / "
                       "under quasiquote-unquote, the private names defined in the library or privately imported (only/prefix/rename); each used by an importer "
                       "lacking the names, binding them locally, importing other bindings of them from a user library (either order) and defining them at top level.")
    # ------------------------------------------------------------------ (G) + (T)
    split = ctx.cov.setdefault("wall_split_s", {})
    t0 = time.time()

    def lap(key):
        nonlocal t0
        t1 = time.time()
        split[key] = round(split.get(key, 0.0) + t1 - t0, 1)
        t0 = t1
    gen_ok = G.regen(ctx)
    ce_ok = G.regen_cond_expand(ctx)
    gen_ok = gen_ok and ce_ok
    check_ideq_source(ctx)
    ctx.coq_obligations("Properties_C14")
    lap("coq")
    d = ctx.build("default")
    lap("build")
    spec_exe = extract(ctx, "C14")
    if spec_exe is None:
        return
    gen_exe = extract(ctx, "C14gen") if gen_ok else None
    lap("extract")
    moddir = os.path.join(B.SCRATCH, "c14mods_%s_%d" % (ctx.tier, ctx.seed))
    shutil.rmtree(moddir, ignore_errors=True)
    os.makedirs(moddir)
    fprog = os.path.join(moddir, "features.scm")
    open(fprog, "w").write("(import (scheme base) (scheme write)) (write (features))\n")
    fr = B.run_chibi(d, [fprog], timeout=60)
    try:
        features = [x for x in norm(parse_datum(fr.stdout)[0]) if isinstance(x, str)]
    except Exception:
        features = []
    if not features:
        ctx.broken("correspondence:features", "(features) could not be read: %r %r" % (fr.stdout[:200], (fr.stderr or "")[:200]))
    ctx.trust("the generator's own python rendering of import sets is used only to build inputs; every verdict comes from the extracted Spec.program_origin / Spec.denote")
    ctx.assume("identifiers are ASCII (the model's strings are byte sequences; chibi's string-length/substring count characters)")
    ctx.assume("import sets bound twice to different bindings, and names both defined and imported in one library, are 'an error' in R7RS: not compared")
    ctx.assume("(auto) modules, include-ci / include-library-declarations, error paths of cond-expand and mutation of imported bindings are outside this check")

    # ------------------------------------------------------------------ build all graphs and cases
    graphs = []
    for g in range(n_graphs):
        gid = "g%d" % g
        libs, world = gen_graph(rng, gid, rng.choice([1, 2, 3, 3, 4, 5, 6]), features)
        graphs.append(dict(gid=gid, libs=libs, world=world, cases=[], kind="random"))
    if thorough:
        libs, world = tiny_graph("gt")
        graphs.append(dict(gid="gt", libs=libs, world=world, cases=[], kind="enum"))
    corpus = _load_corpus()
    for gr in graphs:
        libs, world = gr["libs"], gr["world"]
        gdir = os.path.join(moddir, "v14", gr["gid"])
        os.makedirs(gdir)
        for lib in libs:
            open(os.path.join(gdir, lib.name[-1] + ".sld"), "w").write(lib.sld())
            if lib.inc:
                open(os.path.join(gdir, lib.name[-1] + "-inc.scm"), "w").write(lib.inc_text())
            if lib.inc or lib.ce:
                ctx.cov["libraries_with_cond_expand_or_include_declarations"] = ctx.cov.get("libraries_with_cond_expand_or_include_declarations", 0) + 1
        cases = gr["cases"]
        if gr["kind"] == "enum":
            for i in enum_isets(world, libs[0].name, 2):
                cases.append(dict(kind="env", isets=[i], names=_candidates(rng, world, [i], limit=40, libs=libs)))
                cases.append(dict(kind="resolve", text=iset_str(i), iset=i))
        else:
            for c in range(n_env):
                depth = rng.choice([0, 1, 1, 2, 2, 2, 3, 3, 4])
                isets = [gen_iset(rng, world, rng.choice(libs).name, depth, err=0.12)]
                if rng.random() < 0.2:
                    isets.append(gen_iset(rng, world, rng.choice(libs).name, rng.choice([0, 1, 2]), err=0.0))
                cases.append(dict(kind="env", isets=isets, names=_candidates(rng, world, isets, libs=libs)))
            # round 3: the same import sets brought in by OTHER kinds of importer, in the driver's own top-level environment, under a prefix
            # that is unique to the case: (eval '(import ...) (interaction-environment)), (load file env), (load port env), (include file)
            imp_kinds = rng.sample(IMPORTER_KINDS, n_imp) if n_imp <= len(IMPORTER_KINDS) else [rng.choice(IMPORTER_KINDS) for _ in range(n_imp)]
            for kind in imp_kinds:
                pfx = "k%d%s:" % (len(cases), kind[0])
                isets = [("prefix", gen_iset(rng, world, rng.choice(libs).name, rng.choice([0, 1, 1, 2, 3]), err=0.08), pfx)]
                cases.append(dict(kind="env", importer=kind, isets=isets, names=_candidates(rng, world, isets, libs=libs, limit=20)))
            for c in range(n_lit):
                cases.append(gen_lit_case(rng, libs, world))
            for c in range(n_sc):
                cc = gen_closed_case(rng, libs, world)
                if cc:
                    cases.append(cc)
            for c in range(n_res):
                if rng.random() < 0.7:
                    i = gen_iset(rng, world, rng.choice(libs).name, rng.choice([0, 1, 2, 3, 4]), err=0.3)
                    cases.append(dict(kind="resolve", text=iset_str(i), iset=i))
                else:
                    t = rng.choice(MALFORMED).replace("{L}", iset_str(("lib", rng.choice(libs).name))).replace("{G}", gr["gid"])
                    cases.append(dict(kind="resolve", text=t, iset=parse_iset(t)))
            for c in range(4):
                a, b = rng.choice(PREFIXES + NAMES + [""]), rng.choice(NAMES + PREFIXES + [""])
                cases.append(dict(kind=rng.choice(["drop", "append"]), a=a, b=b))
            for c in range(n_ce if features else 0):
                cl = gen_ce_clauses(rng, features, gr["gid"], libs)
                cases.append(dict(kind="condexp", clauses=cl, text=" ".join(ce_clause_str(x) for x in cl)))
            for lib in libs:
                if lib.ce:
                    # the clause list of the library's own cond-expand DECLARATION, as an expression: the translated code (proved = holds),
                    # the python rendering that placed the real declaration, and chibi must select the same clause
                    cl = [(req, "c%d" % k) for k, req in enumerate(lib.ce["clauses"])]
                    cases.append(dict(kind="condexp", clauses=cl, text=" ".join(ce_clause_str(x) for x in cl), expect="c%d" % lib.ce["sel"]))
            for t in corpus:
                t2 = t.replace("{L}", iset_str(("lib", libs[0].name))).replace("{E}", libs[0].exports[0][0] if libs[0].exports else "a")
                cases.append(dict(kind="resolve", text=t2, iset=parse_iset(t2)))
            # frame structure of the importing environment (function-level tie of Env.env_import)
            for c in range(3):
                isets = [gen_iset(rng, world, rng.choice(libs).name, rng.choice([0, 1, 2, 3]), err=0.03) for _ in range(rng.choice([1, 1, 2, 3]))]
                cases.append(dict(kind="frames", isets=isets))
            # module-table histories: libraries c0.. with arbitrary (also cyclic / dangling) imports, loaded repeatedly
            nl = rng.randint(2, 5)
            acyclic = rng.random() < 0.4
            ldefs = {}
            for j in range(nl):
                pool = list(range(j)) if acyclic else list(range(nl))
                imps = rng.sample(pool, min(len(pool), rng.choice([0, 1, 1, 2, 3])))
                if rng.random() < 0.12:
                    imps.insert(rng.randrange(len(imps) + 1), 9)          # c9 does not exist
                ldefs[j] = imps
                open(os.path.join(gdir, "c%d.sld" % j), "w").write(
                    "(define-library (v14 %s c%d)\n  (export c%d-marker)\n  (import (scheme base)%s)\n  (begin (write-string \"BODY v14.%s.c%d\\n\") (define c%d-marker %d)))\n"
                    % (gr["gid"], j, j, "".join(" (v14 %s c%d)" % (gr["gid"], i) for i in imps), gr["gid"], j, j, j))
            gr["ldefs"] = ldefs
            gr["lreqs"] = [rng.choice(list(range(nl)) + [9]) for _ in range(rng.randint(4, 8))]
            for q in gr["lreqs"]:
                cases.append(dict(kind="load", lib=q, importer="environment" if q == 9 else rng.choice(["environment"] + IMPORTER_KINDS)))
            # one top-level (import ...) per process, last
            cc = gen_closed_case(rng, libs, world) if rng.random() < 0.7 else None
            if cc:
                cases.append(dict(kind="top", isets=cc["isets"], names=cc["names"], stacks=cc["stacks"]))
            else:
                i = gen_iset(rng, world, rng.choice(libs).name, rng.choice([1, 2, 3]), err=0.0)
                cases.append(dict(kind="top", isets=[i], names=_candidates(rng, world, [i], libs=libs), stacks=[]))
            top = cases[-1]
            if rng.random() < 0.6:
                # literal probes at the top level of a program: keywords imported under other names next to the plain (scheme base)
                top["isets"] = top["isets"] + [gen_kw_iset(rng, libs, world, plain_too=True)]
                bad = kw_visible(libs, world, top["isets"])
                top["names"] = [x for x in top["names"] if x not in bad]
                top["lit"] = lit_plan(rng, libs, world, [("lib", SB)] + top["isets"], limit=24)
            # second standard environments (b3): import sets loaded into (scheme-report-environment n) at the END of the program
            top["std"] = [dict(how=h, isets=[gen_iset(rng, world, rng.choice(libs).name, rng.choice([0, 0, 1, 2]), err=0.0)])
                          for h in rng.sample(STD_KINDS, 2 if (thorough or rng.random() < 0.5) else 1)]

    # ------------------------------------------------------------------ oracle: one batch per model
    spec_req, gen_req = [], []
    for gr in graphs:
        spec_req.append("graph " + sb_graph_sexp() + " " + " ".join(l.graph_sexp() for l in gr["libs"]))
        gr["inside_ix"] = {}
        for l in gr["libs"]:
            gr["inside_ix"][l.tag] = len(spec_req)
            spec_req.append("inside %s (%s)" % (iset_str(("lib", l.name)), " ".join(LIT_NAMES)))
        gen_req.append("world " + " ".join("(%s (%s))" % (iset_str(("lib", l.name)), " ".join(
            sym(e) if e == m else "(%s . %s)" % (sym(e), sym(m)) for e, m in l.exports)) for l in gr["libs"]))
        if "ldefs" in gr:
            gr["hist_ix"] = len(spec_req)
            spec_req.append("history (%s) (%s)" % (" ".join("(%d (%s))" % (j, " ".join(map(str, imps))) for j, imps in gr["ldefs"].items()),
                                                   " ".join("(%s %d)" % (c["importer"], c["lib"]) for c in gr["cases"] if c["kind"] == "load")))
        for c in gr["cases"]:
            if c["kind"] == "load":
                continue
            if c["kind"] == "frames":
                c["spec_ix"] = len(spec_req)
                spec_req.append("frames (%s)" % " ".join(iset_str(i) for i in c["isets"]))
                continue
            if c["kind"] == "lit" or c.get("lit"):
                lp = c if c["kind"] == "lit" else c["lit"]
                li = " ".join(iset_str(i) for i in (c["isets"] if c["kind"] == "lit" else [("lib", SB)] + c["isets"]))
                lp["origin_ix"] = len(spec_req)
                spec_req.append("origin (%s) (%s)" % (li, " ".join(sym(n) for n in lp["names"])))
                lp["ml_ix"] = len(spec_req)
                spec_req.append("origin (%s) (%s)" % (li, " ".join(sym(n) for n in lp["mls"])))
                lp["ideq_ix"] = len(spec_req)
                spec_req.append("ideq (%s) (%s) (%s)" % (li, " ".join(sym(n) for n in lp["mls"]), " ".join(sym(n) for n in lp["names"])))
                if c["kind"] == "lit":
                    continue
            for sd in c.get("std", []):
                sd["spec_ix"] = len(spec_req)
                sd["names"] = [n for n, _ in (py_denote(gr["world"], sd["isets"][0]) or [])]
                sd["names"] = list(dict.fromkeys(sd["names"]))
                spec_req.append("origin (%s) (%s)" % (" ".join(iset_str(i) for i in sd["isets"]), " ".join(sym(n) for n in sd["names"])))
            if c["kind"] in ("env", "top", "envsc"):
                c["spec_ix"] = len(spec_req)
                spec_req.append("origin (%s) (%s)" % (" ".join(iset_str(i) for i in c["isets"]), " ".join(sym(n) for n in c["names"])))
                c["closed_ix"] = []
                for st in c.get("stacks", []):
                    c["closed_ix"].append(len(spec_req))
                    spec_req.append("closed (%s) (%s) (%s)" % (" ".join(iset_str(i) for i in c["isets"]), " ".join("(mac %s)" % sym(m) for m in st),
                                                               " ".join(sym(n) for n in c["names"])))
            elif c["kind"] == "condexp":
                c["gen_ix"] = len(gen_req)
                gen_req.append("condexpand (%s) (%s)" % (" ".join(features), c["text"]))
            elif c["kind"] == "resolve":
                c["gen_ix"] = len(gen_req)
                gen_req.append("resolve " + c["text"])
                if c["iset"] is not None:
                    c["spec_ix"] = len(spec_req)
                    spec_req.append("denote " + c["text"])
            else:
                c["gen_ix"] = len(gen_req)
                gen_req.append("%s %s %s" % (c["kind"], sym(c["a"]), sym(c["b"])))
    lap("generate")
    spec_out = ctx.run_model(spec_exe, spec_req)
    gen_out = ctx.run_model(gen_exe, gen_req) if gen_exe else None
    lap("model")
    if os.environ.get("C14_DUMP"):
        with open(os.environ["C14_DUMP"], "w") as fh:
            for a, b in zip(spec_req, spec_out):
                fh.write(a + "\n  => " + b + "\n")
    for gr in graphs:
        for c in gr["cases"]:
            if c.get("stacks") is not None:
                live = []
                for st, ix in zip(c["stacks"], c["closed_ix"]):
                    toks = spec_out[ix].split(" ")
                    if toks and toks[0].startswith("W:") and len(toks) == 1 + len(c["names"]):
                        live.append(dict(stack=st, kinds=toks[0][2:].split(","), model=toks[1:]))
                    elif "NOTMACRO" not in spec_out[ix] and "E" not in spec_out[c["spec_ix"]].split(" "):
                        ctx.broken("spec-driver", "closed answered %r" % spec_out[ix][:200])
                c["live"] = live
            if c["kind"] in ("env", "envsc", "top") and "spec_ix" in c:
                # A name that -- by the SPEC or, through the standing leak F-C14-2, by the model of the code -- denotes an auxiliary KEYWORD of
                # (scheme base) (in the program, or in the user-code position of some stack) is not probed in this case: calling or evaluating
                # it raises inside the keyword's transformer (F-C06-1, see harness/c14_driver.scm "sentinel").  E.g. the macro library
                # privately imports (rename unquote b): b, unbound in the program, would leak to unquote inside wif.  (The generator's own
                # guess kw_visible already avoids most of them when the names are drawn; the SPEC has the last word.)
                live = c.get("live", [])
                toks = spec_out[c["spec_ix"]].split(" ")
                if len(toks) == len(c["names"]):
                    kwp = "O:%s:" % SB_TAG
                    keep = [i for i, t in enumerate(toks) if not (t.startswith(kwp) or any(l["model"][i].startswith(kwp) for l in live))]
                    if len(keep) != len(toks):
                        ctx.cov["keyword_names_not_probed"] = ctx.cov.get("keyword_names_not_probed", 0) + len(toks) - len(keep)
                        c["names"] = [c["names"][i] for i in keep]
                        c["spec_toks"] = [toks[i] for i in keep]
                        for l in live:
                            l["model"] = [l["model"][i] for i in keep]
    if gen_exe is None:
        ctx.note("inner correspondence skipped: the translated code could not be regenerated / extracted")

    # ------------------------------------------------------------------ round 5: (export-all) libraries; template shapes of exported macros
    r5_seed = rng.getrandbits(48)
    try:
        R5.run(sys.modules[__name__], ctx, d, spec_exe, moddir, r5_seed)
    except subprocess.TimeoutExpired as e:
        ctx.broken("correspondence:round5", "a round-5 process timed out: %s" % e)
    lap("round5")
    if os.environ.get("C14_ONLY_R5"):          # development aid: only the round-5 streams (never set by ./check itself)
        ctx.note("C14_ONLY_R5 is set: only the round-5 streams were run")
        return

    # ------------------------------------------------------------------ implementation + verdicts
    sampled = 0
    deaths = 0
    probe_text = open(os.path.join(ROOT, "harness", "c14_driver.scm")).read().split(";;; BEGIN PROBE")[1].split(";;; END PROBE")[0]
    for gr in graphs:
        casefile = gr["casefile"] = os.path.join(moddir, "cases_%s.scm" % gr["gid"])
        glibs = {l.tag: l for l in gr["libs"]}
        for n, c in enumerate(gr["cases"]):
            if c["kind"] == "top":
                c["prog"] = _write_top_program(moddir, gr, n, c, spec_out, glibs, probe_text)
        with open(casefile, "w") as fh:
            for n, c in enumerate(gr["cases"]):
                if c["kind"] == "top":
                    continue
                if c["kind"] == "env" and c.get("importer"):
                    ifile = os.path.join(moddir, "imp_%s_%d.scm" % (gr["gid"], n))
                    open(ifile, "w").write("(import %s)\n" % " ".join(iset_str(i) for i in c["isets"]))
                    fh.write("(env %d (%s) (%s) %s \"%s\")\n" % (n, " ".join(iset_str(i) for i in c["isets"]), " ".join(sym(x) for x in c["names"]), c["importer"], ifile))
                elif c["kind"] == "lit":
                    fh.write(lit_case_text(n, c) + "\n")
                elif c["kind"] == "env":
                    fh.write("(env %d (%s) (%s))\n" % (n, " ".join(iset_str(i) for i in c["isets"]), " ".join(sym(x) for x in c["names"])))
                elif c["kind"] == "envsc":
                    fh.write("(envsc %d (%s) (%s) (%s))\n" % (n, " ".join(iset_str(i) for i in c["isets"]), " ".join(sym(x) for x in c["names"]),
                                                              " ".join(template(l["stack"]) for l in c["live"])))
                elif c["kind"] == "frames":
                    fh.write("(frames %d (%s))\n" % (n, " ".join(iset_str(i) for i in c["isets"])))
                elif c["kind"] == "load" and c.get("importer", "environment") != "environment":
                    ifile = os.path.join(moddir, "impc_%s_%d.scm" % (gr["gid"], c["lib"]))
                    open(ifile, "w").write("(import (v14 %s c%d))\n" % (gr["gid"], c["lib"]))
                    fh.write("(load %d (v14 %s c%d) %s \"%s\")\n" % (n, gr["gid"], c["lib"], c["importer"], ifile))
                elif c["kind"] == "load":
                    fh.write("(load %d (v14 %s c%d))\n" % (n, gr["gid"], c["lib"]))
                elif c["kind"] == "condexp":
                    fh.write("(condexp %d (%s))\n" % (n, c["text"]))
                elif c["kind"] == "resolve":
                    fh.write("(resolve %d %s)\n" % (n, c["text"]))
                else:
                    fh.write("(%s %d %s %s)\n" % (c["kind"], n, sym(c["a"]), sym(c["b"])))
    # the chibi processes (one driver per graph, one per top-level program) are independent of each other: run them on a small pool,
    # judge in graph order (results do not depend on the scheduling; after 3 dead/hung drivers the remaining ones are cancelled)
    import concurrent.futures
    pool = concurrent.futures.ThreadPoolExecutor(max_workers=3)
    top_env = {"CHIBI_MODULE_PATH": os.path.join(d, "lib") + ":" + moddir}
    for gr in graphs:
        gr["fut"] = pool.submit(run_driver, d, moddir, gr["casefile"], 300 if thorough else 45)
        for c in gr["cases"]:
            if c["kind"] == "top":
                c["fut"] = pool.submit(B.run_chibi, d, [c["prog"]], timeout=60, extra_env=top_env)
    lap("generate")
    for gr in graphs:
        casefile = gr["casefile"]
        if deaths >= 3:
            ctx.note("stopped after 3 graphs on which the chibi process died or hung; remaining graphs not run")
            for g2 in graphs:
                g2["fut"].cancel()
                for c in g2["cases"]:
                    if "fut" in c:
                        c["fut"].cancel()
            break
        lap("judge")
        res, bodies, done, rc, err, tainted = gr["fut"].result()
        lap("driver")
        if not done:
            deaths += 1
        if tainted is not None:
            # F-C06-1 (known finding of C06): an error raised inside a macro transformer and caught by guard leaves the compile-time
            # context -- with the free-names list of the closure under analysis -- as the running context; everything the process says
            # from then on (imports of names called it / x in particular) is unreliable.  The generator must never cause it.
            _report_taint(ctx, gr, gr["cases"][tainted], casefile)
            # (the case that tainted the process is still judged: its answer line was built before and during the event -- on the unchanged
            #  tree no case taints, under a breaking change this is where its failing input is; nothing after it is judged)
            res = {n: v for n, v in res.items() if n <= tainted}
        libs = {l.tag: l for l in gr["libs"]}
        ticks = {t: 0 for t in libs}
        needed = set()
        if not done:
            missing = [n for n in range(len(gr["cases"])) if n not in res and gr["cases"][n]["kind"] != "top"]
            c = gr["cases"][missing[0]] if missing else None
            ctx.violation("driver-died", input=(c and (c.get("text") or " ".join(iset_str(i) for i in c.get("isets", [])))), graph=gr["gid"],
                          observed="chibi-scheme exited rc=%s before finishing the case list: %s" % (rc, (err or "")[-400:]),
                          expected="a result or a Scheme error for every case", replay="C14_CASES=%s ... harness/c14_driver.scm (module dir %s)" % (casefile, moddir))
        for n, c in enumerate(gr["cases"]):
            if n not in res:
                continue
            try:
                got = norm(parse_datum(res[n])[0])
            except Exception as e:
                if done:        # (a process that died leaves a truncated last line: already reported as driver-died)
                    ctx.broken("correspondence:unreadable-output", "case %r printed %r (%s)" % (c, res[n], e))
                continue
            if c["kind"] == "load":
                c["got"] = got
                continue
            if c["kind"] == "frames":
                _judge_frames(ctx, d, moddir, gr, c, got, spec_out[c["spec_ix"]])
                continue
            if c["kind"] == "lit":
                _judge_lit(ctx, d, moddir, gr, c, c, got, spec_out, False)
                continue
            if c["kind"] == "envsc":
                _judge_closed(ctx, d, moddir, gr, c, got, _spec_toks(c, spec_out), libs, ticks, needed)
                continue
            if c["kind"] in ("env", "top"):
                _judge_outer(ctx, d, moddir, gr, c, got, _spec_toks(c, spec_out), libs, ticks, needed)
                if sampled < 4 and iset_depth(c["isets"][0]) >= 2:
                    sampled += 1
                    ctx.sample(dict(kind="outer", imports=[iset_str(i) for i in c["isets"]], names=c["names"][:8],
                                    spec=spec_out[c["spec_ix"]].split(" ")[:8], impl=res[n][:300]))
            elif c["kind"] == "condexp":
                if gen_out is not None:
                    _judge_condexp(ctx, d, moddir, gr, c, got, gen_out[c["gen_ix"]], features)
            elif gen_out is not None:
                _judge_inner(ctx, d, moddir, gr, c, got, gen_out[c["gen_ix"]], spec_out[c["spec_ix"]] if "spec_ix" in c else None)
                if sampled < 6 and c["kind"] == "resolve" and c["iset"] is not None and iset_depth(c["iset"]) >= 2:
                    sampled += 1
                    ctx.sample(dict(kind="inner", request=c["text"], translated=gen_out[c["gen_ix"]], impl=res[n]))
        _check_bodies(ctx, d, moddir, gr, libs, bodies, needed, casefile)
        if "ldefs" in gr and done and tainted is None:
            _judge_load(ctx, d, moddir, gr, spec_out[gr["hist_ix"]], bodies, casefile)
        # top-level (import ...) programs: one process each (repl-import path)
        for n, c in enumerate(gr["cases"]):
            if c["kind"] != "top":
                continue
            prog = c["prog"]
            lap("judge")
            r = c["fut"].result()
            lap("top-programs")
            tb = [l[5:].strip() for l in r.stdout.split("\n") if l.startswith("BODY ")]
            out_main = r.stdout.split("\nDONE\n")[0] if "\nDONE\n" in r.stdout else r.stdout
            allcase = [l for l in r.stdout.split("\nEND\n")[0].split("\n") if l.startswith("CASE ")]
            byid = {}
            for l in allcase:
                byid.setdefault(int(l.split(" ", 2)[1]), l.split(" ", 2)[2])
            line = [l for l in out_main.split("\n") if l.startswith("CASE ") and int(l.split(" ", 2)[1]) < 900000]
            if line:
                got = norm(parse_datum(line[0].split(" ", 2)[2])[0])
            elif r.returncode not in (0,) and "error" in (r.stderr or "").lower():
                got = ("IMPORT-ERROR", (r.stderr or "")[:200])
            else:
                ctx.violation("driver-died", input=open(prog).read()[:300], observed="rc=%s %s" % (r.returncode, (r.stderr or "")[-300:]),
                              expected="the program runs", replay="chibi-scheme %s (module dir %s)" % (prog, moddir))
                continue
            tticks, tneeded = {t: 0 for t in libs}, set()
            top_tainted = byid.get(990000, "#f").strip() != "#f"
            if top_tainted:
                _report_taint(ctx, gr, c, prog)
            _judge_outer(ctx, d, moddir, gr, c, got, _spec_toks(c, spec_out), libs, tticks, tneeded)
            if len(line) > 1 and c.get("live"):
                try:
                    got2 = norm(parse_datum(line[1].split(" ", 2)[2])[0])
                except Exception as e:
                    ctx.broken("correspondence:unreadable-output", "top program %s printed %r (%s)" % (prog, line[1][:200], e))
                    got2 = None
                if got2 is not None:
                    _judge_closed(ctx, d, moddir, gr, c, got2, _spec_toks(c, spec_out), libs, tticks, tneeded)
            elif c.get("live") and line:
                ctx.violation("driver-died", input=open(prog).read()[-400:], observed="rc=%s %s" % (r.returncode, (r.stderr or "")[-300:]),
                              expected="the program runs to its end", replay="chibi-scheme %s (module dir %s)" % (prog, moddir))
            if c.get("lit") and line:
                if 900000 + n in byid:
                    try:
                        got3 = norm(parse_datum(byid[900000 + n])[0])
                    except Exception as e:
                        ctx.broken("correspondence:unreadable-output", "top program %s printed %r (%s)" % (prog, byid[900000 + n][:200], e))
                        got3 = None
                    if got3 is not None:
                        _judge_lit(ctx, d, moddir, gr, c, c["lit"], got3, spec_out, True)
                else:
                    ctx.violation("driver-died", input=open(prog).read()[-400:], observed="rc=%s %s" % (r.returncode, (r.stderr or "")[-300:]),
                                  expected="the program runs to its end", replay="chibi-scheme %s (module dir %s)" % (prog, moddir))
            if line and "\nDONE\n" in r.stdout and not top_tainted:
                _judge_std(ctx, d, moddir, gr, c, byid, r, prog, libs, tticks, tneeded)
            _check_bodies(ctx, d, moddir, gr, libs, tb, tneeded, prog, top=True)


    lap("judge")
    pool.shutdown(wait=False)
    if not ctx.cov.get("standing_leak_cases"):
        ctx.note("the standing leak F-C14-2 (names of the macro library visible in free-names closures) was not observed in this run")
    if os.environ.get("C14_DEBUG"):
        with open(os.environ["C14_DEBUG"], "w") as fh:
            for u in ctx.unproved:
                fh.write(repr(u)[:1500] + "\n")


def _write_top_program(moddir, gr, n, c, spec_out, libs, probe):
    """the text of one top-level (import ...) program (own process): outer probes, closed probes, literal probes, taint sentinel, DONE,
    then the second-standard-environment sections; returns the path"""
    prog = os.path.join(moddir, "top_%s_%d.scm" % (gr["gid"], n))
    text = "(import (scheme base) (scheme write) (scheme eval) (scheme repl) (scheme load) (scheme file) (only (chibi) scheme-report-environment identifier=? current-environment) %s %s)\n%s\n" % (
        SUPPORT, " ".join(iset_str(i) for i in c["isets"]), probe)
    text += "(c14-out %d (c14-probe (interaction-environment) '(%s)))\n" % (n, " ".join(sym(x) for x in c["names"]))
    text += "(c14-out %d (c14-probe-closed (interaction-environment) '(%s) '(%s)))\n" % (
        n, " ".join(template(l["stack"]) for l in c.get("live", [])), " ".join(sym(x) for x in c["names"]))
    if c.get("lit"):
        lp = c["lit"]
        text += "(c14-out %d (c14-probe-lit (interaction-environment) '(%s) '(%s)))\n" % (
            900000 + n, " ".join("(%s %s)" % (sym(x), " ".join(ks)) for x, ks in lp["plan"]), " ".join(sym(m) for m in lp["mls"]))
    text += "(c14-out 990000 (c14-tainted?))\n(write-string \"DONE\\n\")\n"
    # second standard environments, last (no guard works after the first one is made): each loads a file whose first form imports
    # a library this program has (mostly) already imported; only names the SPEC says are bound are evaluated
    for k, sd in enumerate(c.get("std", [])):
        so = spec_out[sd["spec_ix"]].split(" ")
        sd["probe"] = []
        if len(so) == len(sd["names"]) and "E" not in so:
            for nm, o in zip(sd["names"], so):
                if o.startswith("O:") and o.split(":", 2)[1] in libs:
                    m = o.split(":", 2)[2]
                    sd["probe"].append((nm, o, "(%s)" % sym(nm) if (m == "tick" or m in MACRO_DEFS) else sym(nm)))
        sfile = os.path.join(moddir, "std_%s_%d_%d.scm" % (gr["gid"], n, k))
        open(sfile, "w").write("(import %s)\n(define c14-std-r (let* (%s) (list %s)))\n" % (
            " ".join(iset_str(i) for i in sd["isets"]), " ".join("(c14v%d %s)" % (q, e) for q, (_, _, e) in enumerate(sd["probe"])),
            " ".join("c14v%d" % q for q in range(len(sd["probe"])))))
        ver = 5 if sd["how"].startswith("sre5") else 7
        ld = ("(call-with-input-file \"%s\" (lambda (in) (load in c14-sre%d)))" if "port" in sd["how"] else "(load \"%s\" c14-sre%d)")
        text += "(define c14-sre%d (scheme-report-environment %d))\n%s\n(c14-out %d (eval 'c14-std-r c14-sre%d))\n" % (k, ver, ld % (sfile, k), 910000 + 10 * k, k)
        if sd["how"] == "sre7-twice":
            text += "(define c14-sre%db (scheme-report-environment 7))\n(load \"%s\" c14-sre%db)\n(c14-out %d (eval 'c14-std-r c14-sre%db))\n" % (k, sfile, k, 910000 + 10 * k + 1, k)
    text += "(write-string \"END\\n\")\n"
    open(prog, "w").write(text)
    return prog


def _report_taint(ctx, gr, c, where):
    ctx.broken("harness:error-inside-macro-transformer",
               "a probe of the case (%s; imports %s) raised inside a macro transformer; the pinned chibi then keeps running inside the nested "
               "sexp_apply with the compile-time context (F-C06-1), whose free-names list redirects later lookups of it / x: the rest of the "
               "process %s was not judged" % (c["kind"], " ".join(iset_str(i) for i in c.get("isets", [])), where))


def _spec_toks(c, spec_out):
    """SPEC origins of c["names"] (filtered together with the names, see the keyword-leak filter in run)"""
    return c["spec_toks"] if "spec_toks" in c else spec_out[c["spec_ix"]].split(" ")


def _check_bodies(ctx, d, moddir, gr, libs, bodies, needed, casefile, top=False):
        # each library body at most once per process, exactly once when one of its bindings was delivered
        for t in libs:
            k = bodies.count(t)
            ctx.count(1, key=("body", top, gr["gid"], t), nontrivial=(t in needed))
            if k > 1 or (k == 0 and t in needed):
                ctx.violation("load:body-evaluated-%s" % ("twice" if k > 1 else "never"), input="library %s of graph %s, %d import cases in one process" % (t, gr["gid"], len(gr["cases"])),
                              expected="library body evaluated exactly once", observed="%d evaluations" % k,
                              replay="C14_CASES=%s CHIBI_IGNORE_SYSTEM_PATH=1 CHIBI_MODULE_PATH=%s:%s LD_LIBRARY_PATH=%s %s/chibi-scheme %s | grep -c 'BODY %s'" % (
                                  casefile, os.path.join(d, "lib"), moddir, d, d, casefile if top else os.path.join(ROOT, "harness", "c14_driver.scm"), t))


def parse_iset(text):
    """import-set text -> python form, or None when it is not a well-formed import set (malformed stream)"""
    try:
        forms = G.read_all(text)
        if len(forms) != 1:
            return None
        return _iset_of(forms[0][2])
    except Exception:
        return None


def _iset_of(f):
    if not isinstance(f, list) or not f or not all(isinstance(x, (G.Sym, list)) for x in f):
        raise ValueError
    h = f[0]
    if isinstance(h, G.Sym) and str(h) in ("only", "except") and len(f) >= 2 and isinstance(f[1], list):
        if not all(isinstance(x, G.Sym) for x in f[2:]):
            raise ValueError
        return (str(h), _iset_of(f[1]), [str(x) for x in f[2:]])
    if isinstance(h, G.Sym) and str(h) == "rename" and len(f) >= 2 and isinstance(f[1], list):
        prs = []
        for x in f[2:]:
            if not (isinstance(x, list) and len(x) == 2 and all(isinstance(y, G.Sym) for y in x)):
                raise ValueError
            prs.append((str(x[0]), str(x[1])))
        return ("rename", _iset_of(f[1]), prs)
    if isinstance(h, G.Sym) and str(h) in ("prefix", "drop-prefix") and len(f) == 3 and isinstance(f[1], list) and isinstance(f[2], G.Sym):
        return (str(h), _iset_of(f[1]), str(f[2]))
    if all(isinstance(x, G.Sym) for x in f) and str(h) not in MODS:
        return ("lib", tuple(str(x) for x in f))
    raise ValueError


def _load_corpus():
    p = os.path.join(ROOT, "corpus", "C14")
    out = []
    if os.path.isdir(p):
        for f in sorted(os.listdir(p)):
            for line in open(os.path.join(p, f)):
                line = line.strip()
                if line and not line.startswith(";"):
                    out.append(line)
    return out


def kw_visible(libs, world, isets):
    """visible names that (by the generator's guess) some import set binds to an auxiliary keyword of (scheme base): such a name must never
    be put in operator position or evaluated bare (the keyword's transformer raises, and an error caught from inside a macro transformer
    corrupts the pinned chibi's exit path, notes/C14.md (e))"""
    out = set()
    for i in isets:
        for n, m in (py_denote(world, i) or []):
            if any(tuple(o[0]) == SB for o in py_origins(libs, world, iset_lib(i), m)):
                out.add(n)                     # (conservative: also when only ONE of several bindings of the name is a keyword)
    return out


def _candidates(rng, world, isets, limit=34, libs=(), keep_kw=False):
    vis = []
    bad = set() if keep_kw else (kw_visible(libs, world, isets) | set(KW))
    for i in isets:
        for n, _ in (py_denote(world, i) or []):
            if n not in vis and n not in bad:
                vis.append(n)
    extra = list(NAMES) + ["tick", "ctr", "m1"] + PRIVATE + [""] + WRAPPERS + LITS
    if keep_kw:
        extra += KW + KW_ALIASES
        if "ulit" not in vis:
            vis.append("ulit")                 # always probed in literal cases (bound or not)
    for i in isets:
        j = i
        while j[0] != "lib":
            if j[0] in ("prefix", "drop-prefix"):
                extra += [j[2] + n for n in rng.sample(NAMES, 2)] + [j[2]]
            elif j[0] == "rename":
                extra += [b for _, b in j[2]] + [a for a, _ in j[2]]
            elif j[0] in ("only", "except"):
                extra += list(j[2])
            j = j[1]
    rng.shuffle(extra)
    names = list(vis)
    for n in extra:
        if n not in names and len(names) < limit and n not in bad:
            names.append(n)
    rng.shuffle(names)
    # probe the state-bearing names again at the end: a stale copy of ctr shows after the ticks
    names += [n for n in vis if n not in PRIVATE][:4]
    return names


def _expect_value(libs, ticks, lib, m):
    """the tagged value a probe of internal name m of library lib must yield (does not advance the tick model)"""
    if m == "tick":
        return ("v14tick", lib, ticks[lib] + 1)
    if m == "ctr":
        return ("v14ctr", lib, ticks[lib])
    if m == "m1":
        return ("v14mac", lib, "m1", ("v14val", lib, "h1"))
    if m in WRAPPERS or m in LITS:
        return ("v14mac", lib, m)
    return ("v14val", lib, m)


def _observe_tick(ticks, g):
    """a probe that returned (v14tick lib k) ran that library's tick once, whatever was expected"""
    if isinstance(g, tuple) and len(g) == 3 and g[0] == "v14tick" and g[1] in ticks and isinstance(g[2], int):
        ticks[g[1]] += 1
        return True
    return False


def _judge_outer(ctx, d, moddir, gr, c, got, spec, libs, ticks, needed):
    isets, names = c["isets"], c["names"]
    top = c["kind"] == "top"
    depth = max(iset_depth(i) for i in isets)
    mods = iset_mods(isets[0])
    sigbase = "import:%s:" % (mods[0] if mods else "plain")
    shape = tuple(l.graph_sexp().replace(gr["gid"], "G") for l in gr["libs"])
    text = " ".join(iset_str(i) for i in isets)
    if len(spec) != len(names):
        ctx.broken("spec-driver", "origin answered %d tokens for %d names: %r" % (len(spec), len(names), spec[:5]))
        return
    import_err = isinstance(got, tuple) and len(got) >= 1 and got[0] == "IMPORT-ERROR"
    if "E" in spec:
        ctx.count(1, key=("E", shape, text.replace(gr["gid"], "G")), nontrivial=depth >= 1)
        if not import_err:
            ctx.violation(sigbase + "import-accepted", input=text, graph=[l.sld() for l in gr["libs"]],
                          expected="an error: the import set names an identifier that is not in the original set / an unknown library",
                          observed=repr(got)[:300], replay=replay_cmd(d, moddir, isets, names[0], top))
        return
    if import_err:
        ctx.count(1, key=("R", shape, text.replace(gr["gid"], "G")), nontrivial=depth >= 1)
        ctx.violation(sigbase + "import-rejected", input=text, graph=[l.sld() for l in gr["libs"]],
                      expected="import succeeds; e.g. %s -> %s" % (names[0], spec[0]), observed=repr(got)[:300],
                      replay=replay_cmd(d, moddir, isets, names[0], top))
        return
    if not isinstance(got, tuple) or len(got) != len(names):
        ctx.broken("correspondence:outer", "driver answered %r for %d names" % (got, len(names)))
        return
    for name, s, g in zip(names, spec, got):
        ctx.count(1, key=(shape, text.replace(gr["gid"], "G"), name), nontrivial=(depth >= 1 and s != "A"))
        if s == "A":
            _observe_tick(ticks, g)              # unspecified which binding wins; keep the model in step
            continue
        if s == "U":
            _observe_tick(ticks, g)
            if g != "unbound":
                ctx.violation(sigbase + "unexpectedly-bound", input=text, name=name, graph=[l.sld() for l in gr["libs"]],
                              expected="unbound (not in the import set / private to its library)", observed=repr(g),
                              replay=replay_cmd(d, moddir, isets, name, top))
            continue
        _, lib, m = s.split(":", 2)
        if lib not in libs:
            ctx.broken("spec-driver", "origin names an unknown library: %s" % s)
            continue
        exp = _expect_value(libs, ticks, lib, m)
        needed.add(lib)
        ticked = _observe_tick(ticks, g)
        if g == exp:
            continue
        if g == "unbound":
            cls = "unbound"
        elif isinstance(g, tuple) and len(g) >= 3 and g[0] == exp[0] and g[1] == exp[1] and g[0] in ("v14tick", "v14ctr"):
            cls = "state-not-shared"
            if ticked:
                ticks[lib] = g[2]                # resynchronise: one report per divergence
        else:
            cls = "wrong-binding"
        ctx.violation(sigbase + cls, input=text, name=name, graph=[l.sld() for l in gr["libs"]],
                      expected="%s (the definition of %s in library %s%s)" % (exp, m, lib, "; this library's tick has run %d time(s) in this process" % exp[2] if exp[0] == "v14ctr" else ""),
                      observed=repr(g), replay=replay_cmd(d, moddir, isets, name, top))


_leak_registered = None


def leak_registered():
    """is the standing leak recorded in known_findings.json under LEAK_SIG?  (if not, it is reported as a note only)"""
    global _leak_registered
    if _leak_registered is None:
        _leak_registered = any(f.get("sig") == LEAK_SIG and f.get("property") == "C14" for f in core.load_findings().get("findings", []))
    return _leak_registered


def replay_closed(d, moddir, isets, tmpl, name, top=False):
    """both probe forms: <> := (name) (a plain value shows as the irritant of "non procedure application") and <> := name"""
    g = "(guard (e (#t (list 'error (error-object-message e) (error-object-irritants e)))) %s)"
    f1, f2 = tmpl.replace("<>", "(%s)" % sym(name)), tmpl.replace("<>", sym(name))
    if top:
        prog = "(import (scheme base) (scheme write) %s) (write %s) (newline) (write %s)" % (" ".join(iset_str(i) for i in isets), g % f1, g % f2)
    else:
        env = "(environment %s)" % " ".join("'" + iset_str(i) for i in isets)
        prog = "(import (scheme base) (scheme write) (scheme eval)) (define env %s) (write %s) (newline) (write %s)" % (
            env, g % ("(eval '%s env)" % f1), g % ("(eval '%s env)" % f2))
    return "echo \"%s\" > /var/tmp/c14-replay.scm; LD_LIBRARY_PATH=%s CHIBI_IGNORE_SYSTEM_PATH=1 CHIBI_MODULE_PATH=%s:%s %s/chibi-scheme /var/tmp/c14-replay.scm" % (
        prog.replace('"', '\\"'), d, os.path.join(d, "lib"), moddir, d)


def _judge_closed(ctx, d, moddir, gr, c, got, spec, libs, ticks, needed):
    """every name probed in the user-code position of exported sc/er macros.  Oracle: the SPEC origin of the name in the PROGRAM
    (user code closed by a macro of another library refers to the program's own imports, exactly as outside the macro);
    the extracted SynClo.closed_probe (model of the code, standing leak included) classifies what is seen for unbound names."""
    isets, names, live = c["isets"], c["names"], c.get("live", [])
    top = c["kind"] == "top"
    text = " ".join(iset_str(i) for i in isets)
    shape = tuple(l.graph_sexp().replace(gr["gid"], "G") for l in gr["libs"])
    graph = [l.sld() for l in gr["libs"]]
    import_err = isinstance(got, tuple) and len(got) >= 1 and got[0] == "IMPORT-ERROR"
    if "E" in spec or import_err:
        if ("E" in spec) != import_err and not top:
            ctx.violation("import:closed-case:" + ("import-accepted" if "E" in spec else "import-rejected"), input=text, graph=graph,
                          expected="import error" if "E" in spec else "import succeeds", observed=repr(got)[:300],
                          replay=replay_cmd(d, moddir, isets, names[0], top))
        return
    if not isinstance(got, tuple) or len(got) != len(live) or any(not isinstance(g, tuple) or len(g) != len(names) for g in got):
        ctx.broken("correspondence:closed", "driver answered %r for %d templates x %d names" % (repr(got)[:300], len(live), len(names)))
        return
    for l, res in zip(live, got):
        tmpl = template(l["stack"])
        free = set(f for k in l["kinds"] for f in WRAPPER_FREE[k])
        kinds = "+".join(l["kinds"])
        sigbase = "closed:%s:" % l["kinds"][0]
        ctx.cov["traces_validated_against_impl"] += 1
        for name, s, mtok, g0 in zip(names, spec, l["model"], res):
            ctx.count(1, key=("closed", shape, text.replace(gr["gid"], "G"), tuple(l["kinds"]), tmpl, name), nontrivial=(s != "A"))
            pre = dict(ticks)
            # the driver answers one value, or (c14-both pair-form identifier-form) when <> := (name) and <> := name see different things
            if isinstance(g0, tuple) and len(g0) == 3 and g0[0] == "c14-both":
                obs = [("", g0[1]), (":identifier-form", g0[2])]
            else:
                obs = [("", g0)]
            ticked = _observe_tick(ticks, obs[0][1])
            if s == "A":
                continue
            if mtok.startswith("O:"):
                _, mlib, mm = mtok.split(":", 2)
                mval = _expect_value(libs, pre, mlib, mm) if mlib in libs else None
            else:
                mval = "unbound"
            if s not in ("U",) and name not in free:
                _, lib, m = s.split(":", 2)
                if lib not in libs:
                    ctx.broken("spec-driver", "origin names an unknown library: %s" % s)
                    continue
                if mtok != s:
                    ctx.broken("model:closed-vs-spec", "%s inside %s with imports %s: SynClo.closed_probe says %s, Spec.program_origin %s (theorem wrapped_lookup_bound)" % (name, tmpl, text, mtok, s))
                exp = _expect_value(libs, pre, lib, m)
                needed.add(lib)
            for form, g in obs:
                inp = "%s ; program imports: %s" % (tmpl.replace("<>", ("%s" if form else "(%s)") % sym(name)), text)
                if name in free:
                    # a declared free name is looked up in the macro's context (the documented meaning of free names): no SPEC verdict;
                    # the model of the code must predict the pair form ('unbound' also when an earlier probe in this environment already
                    # made chibi create an undefined cell for the name); the identifier form resolves late in the closure's environment
                    if form == "" and mtok != "L" and g != mval and g != "unbound":
                        ctx.broken("correspondence:closed-free-name", "free name %s inside %s with imports %s: model %s, chibi %r" % (name, tmpl, text, mtok, g))
                    continue
                if s == "U":
                    if g == "unbound":
                        # right by the SPEC.  (Where the model predicts the leak, chibi still says unbound when an earlier probe in the same
                        # environment referred to the name first: analyze_var_ref then created an undefined cell for it in the program's own
                        # frame, which the copied frames share.  The leak needs the FIRST reference to be inside the closure.)
                        if mtok != "U" and form == "":
                            ctx.cov["standing_leak_masked"] = ctx.cov.get("standing_leak_masked", 0) + 1
                        continue
                    if mtok.startswith("O:") and g == mval:
                        # the standing leak (F-C14-2): exactly the binding the macro library's environment has under that name
                        ctx.cov["standing_leak_cases"] = ctx.cov.get("standing_leak_cases", 0) + 1
                        if leak_registered():
                            ctx.violation(LEAK_SIG, input=inp, name=name, graph=graph,
                                          expected="unbound (the program does not import %s)" % name, observed=repr(g),
                                          replay=replay_closed(d, moddir, isets, tmpl, name, top))
                        continue
                    ctx.violation(sigbase + "unexpectedly-bound" + form, input=inp, name=name, graph=graph,
                                  wrappers=kinds, expected="unbound (not in the program's import sets)%s" % ("" if mtok == "U" else "; the known leak would give %s" % mtok),
                                  observed=repr(g), replay=replay_closed(d, moddir, isets, tmpl, name, top))
                    continue
                if g == exp:
                    continue
                if g == "unbound":
                    cls = "unbound"
                elif isinstance(g, tuple) and len(g) >= 3 and g[0] == exp[0] and g[1] == exp[1] and g[0] in ("v14tick", "v14ctr"):
                    cls = "state-not-shared"
                    if ticked:
                        ticks[lib] = g[2]
                else:
                    cls = "wrong-binding"
                ctx.violation(sigbase + cls + form, input=inp, name=name, graph=graph, wrappers=kinds,
                              expected="%s (the program's own import: the definition of %s in library %s, exactly as outside the macro)" % (exp, m, lib),
                              observed=repr(g), replay=replay_closed(d, moddir, isets, tmpl, name, top))
    if live and not getattr(ctx, "_c14_closed_sampled", False) and len(live[0]["stack"]) >= 1:
        ctx._c14_closed_sampled = True
        ctx.sample(dict(kind="closed", imports=[iset_str(i) for i in isets], template=template(live[0]["stack"]), names=names[:8],
                        spec=spec[:8], model=live[0]["model"][:8], impl=repr(got[0][:8])))


def _std_replay(d, moddir, prog):
    return "LD_LIBRARY_PATH=%s CHIBI_IGNORE_SYSTEM_PATH=1 CHIBI_MODULE_PATH=%s:%s %s/chibi-scheme %s" % (d, os.path.join(d, "lib"), moddir, d, prog)


def _judge_std(ctx, d, moddir, gr, c, byid, r, prog, libs, ticks, needed):
    """second standard environments made at the end of a top-level program: a file whose first form imports a library is loaded into
    (scheme-report-environment n).  SPEC: the library is the SAME instance the program imported (body not evaluated again: _check_bodies;
    tick counters continue; ctr cells shared)."""
    for k, sd in enumerate(c.get("std", [])):
        text = " ".join(iset_str(i) for i in sd["isets"])
        ids = [910000 + 10 * k] + ([910000 + 10 * k + 1] if sd["how"] == "sre7-twice" else [])
        for j, cid in enumerate(ids):
            ctx.count(1, key=("std", sd["how"], j, text.replace(gr["gid"], "G"), tuple(l.graph_sexp().replace(gr["gid"], "G") for l in gr["libs"])), nontrivial=True)
            if cid not in byid:
                ctx.violation("load:second-standard-environment:import-failed", input="%s: (import %s) loaded into a fresh (scheme-report-environment) at the end of %s" % (sd["how"], text, prog),
                              expected="the import succeeds and delivers the instance of the library the program already uses",
                              observed="rc=%s %s" % (r.returncode, (r.stderr or "")[-400:]), replay=_std_replay(d, moddir, prog))
                return
            try:
                got = norm(parse_datum(byid[cid])[0])
            except Exception as e:
                ctx.broken("correspondence:unreadable-output", "top program %s printed %r (%s)" % (prog, byid[cid][:200], e))
                return
            if not isinstance(got, tuple) or len(got) != len(sd["probe"]):
                ctx.broken("correspondence:std", "std section answered %r for %d names" % (repr(got)[:200], len(sd["probe"])))
                return
            for (nm, o, _), g in zip(sd["probe"], got):
                _, lib, m = o.split(":", 2)
                exp = _expect_value(libs, ticks, lib, m)
                needed.add(lib)
                ticked = _observe_tick(ticks, g)
                if g == exp:
                    continue
                stale = isinstance(g, tuple) and len(g) >= 3 and g[0] == exp[0] and g[1] == exp[1] and g[0] in ("v14tick", "v14ctr")
                if stale and ticked:
                    ticks[lib] = g[2]
                ctx.violation("load:second-standard-environment:" + ("state-not-shared" if stale else "wrong-binding"),
                              input="%s: (import %s) loaded into a fresh (scheme-report-environment); name %s" % (sd["how"], text, nm),
                              expected="%s (the one instance of library %s: every importer shares its state)" % (exp, lib), observed=repr(g),
                              replay=_std_replay(d, moddir, prog))


def _kw_class(o, libs):
    if o in ("U", "A", "E"):
        return o
    _, lib, m = o.split(":", 2)
    if lib == SB_TAG:
        return m
    if lib not in libs:
        return "?"
    return "macro" if m in MACRO_DEFS else "var"


def _lit_expected(key, cls, name):
    """R7RS 4.3.2 / 4.2.1 / 4.2.7 / 4.2.8: the keyword is recognised iff the identifier denotes the SAME BINDING as the keyword of
    (scheme base), whatever its name.  None = not compared (the form is then not valid Scheme, or the probe was not meant for this class)."""
    if key in ("ce", "ge"):
        return {"else": "c14-else", "var": "c14-else", "U": "unbound"}.get(cls)
    if key == "se":
        return {"else": "c14-else"}.get(cls)
    if key in ("ca", "ga"):
        return {"=>": 7, "var": "c14-proc"}.get(cls)      # (an unbound variable whose value is not used need not raise)
    if key == "sa":
        return {"=>": (3,), "var": "c14-proc"}.get(cls)
    if key == "el":
        return (1, 2, 3) if cls == "..." else "c14-nomatch"
    if key == "us":
        return None if cls == "..." else ((name,) if cls == "_" else (1,))
    if key == "uq":
        return (1, 7) if cls == "unquote" else (1, (name, 7))
    return None


LIT_WHAT = {"ce": "cond-else", "ca": "cond-arrow", "se": "case-else", "sa": "case-arrow", "ge": "guard-else", "ga": "guard-arrow",
            "el": "syntax-rules-ellipsis", "us": "syntax-rules-underscore", "uq": "quasiquote-unquote"}
LIT_FORMS = {"ce": "(cond (#f 0) (<> 'c14-else))", "ca": "(cond ('(7) <> car) (#t 'c14-fall))", "se": "(case 3 ((1) 0) (<> 'c14-else))",
             "sa": "(case 3 ((3) <> list))", "ge": "(guard (c14e (#f 0) (<> 'c14-else)) (raise 1))", "ga": "(guard (c14e ((list c14e) <> car)) (raise 7))",
             "el": "(let-syntax ((c14m (syntax-rules () ((c14m c14v <>) '(c14v <>)) ((c14m . c14r) 'c14-nomatch)))) (c14m 1 2 3))",
             "us": "(let-syntax ((c14m (syntax-rules () ((c14m <>) '(<>)) ((c14m . c14r) 'c14-nomatch)))) (c14m 1))", "uq": "(quasiquote (1 (<> 7)))"}


def replay_lit(d, moddir, isets, form, top, pre=None):
    """pre: an (unbound) variable the program refers to first -- (define (c14-f) pre) compiles a reference without running it"""
    imports = " ".join(iset_str(i) for i in isets)
    if top:
        prog = "(import (scheme base) (scheme write) %s) %s(write %s)" % (imports, "(define (c14-f) %s) " % pre if pre else "", form)
    else:
        prog = "(import (scheme base) (scheme write) (scheme eval)) (define c14-e (environment '(scheme base) %s)) %s(write (eval '%s c14-e))" % (
            " ".join("'" + iset_str(i) for i in isets), "(eval '(define (c14-f) %s) c14-e) " % pre if pre else "", form)
    return "echo \"%s\" > /var/tmp/c14-replay.scm; LD_LIBRARY_PATH=%s CHIBI_IGNORE_SYSTEM_PATH=1 CHIBI_MODULE_PATH=%s:%s %s/chibi-scheme /var/tmp/c14-replay.scm" % (
        prog.replace('"', '\\"'), d, os.path.join(d, "lib"), moddir, d)


def _judge_lit(ctx, d, moddir, gr, c, lp, got, spec_out, top):
    """literal probes: oracle = SPEC origin of the name (Spec.program_origin over a graph whose library 0 is (scheme base) exporting the
    auxiliary keywords) + R7RS 4.3.2: a literal matches iff the two identifiers denote the same binding.  The extracted model of
    sexp_identifier_eq_op (IdEq.identifier_eq over the environments built by Env.env_import) is compared with both."""
    isets = c["isets"]
    text = " ".join(iset_str(i) for i in isets)
    libs = {l.tag: l for l in gr["libs"]}
    shape = tuple(l.graph_sexp().replace(gr["gid"], "G") for l in gr["libs"])
    graph = [l.sld() for l in gr["libs"]]
    spec = spec_out[lp["origin_ix"]].split(" ")
    mlo = spec_out[lp["ml_ix"]].split(" ") if lp["mls"] else []
    import_err = isinstance(got, tuple) and len(got) >= 1 and got[0] == "IMPORT-ERROR"
    if "E" in spec or import_err:
        if ("E" in spec) != import_err and not top:
            ctx.violation("import:literal-case:" + ("import-accepted" if "E" in spec else "import-rejected"), input=text, graph=graph,
                          expected="import error" if "E" in spec else "import succeeds", observed=repr(got)[:300], replay=replay_cmd(d, moddir, isets, lp["names"][0], top))
        return
    if len(spec) != len(lp["names"]) or (lp["mls"] and len(mlo) != len(lp["mls"])):
        ctx.broken("spec-driver", "origin answered %r for the literal case %s" % (spec[:6], text))
        return
    if not isinstance(got, tuple) or len(got) != len(lp["plan"]):
        ctx.broken("correspondence:literal", "driver answered %r for %d names" % (repr(got)[:300], len(lp["plan"])))
        return
    # the model of sexp_identifier_eq_op: per ml a line of tokens, per name four digits (lit else => ulit)
    ideq = [x.split(" ") for x in spec_out[lp["ideq_ix"]].split(" | ")] if lp["mls"] else []
    if lp["mls"] and (len(ideq) != len(lp["mls"]) or any(len(x) != len(lp["names"]) for x in ideq)):
        ctx.broken("spec-driver", "ideq answered %r" % spec_out[lp["ideq_ix"]][:200])
        ideq = []
    # what each ml is: the defining library D and the origins of its literals inside D
    mlinfo = []
    for mo in mlo:
        info = None
        if mo.startswith("O:"):
            _, dl, dm = mo.split(":", 2)
            if dl in gr["inside_ix"] and dm in ("mlit", "elit"):
                info = (dl, dm, spec_out[gr["inside_ix"][dl]].split(" "))
        mlinfo.append(info)
    ctx.cov["traces_validated_against_impl"] += 1
    for ni, ((name, keys), o, res) in enumerate(zip(lp["plan"], spec, got)):
        cls = _kw_class(o, libs)
        nml = len(lp["mls"])
        if not isinstance(res, tuple) or len(res) != len(keys) + 2 * nml:
            ctx.broken("correspondence:literal", "driver answered %r for %s" % (repr(res)[:200], name))
            continue
        for key, g in zip(keys, res):
            exp = _lit_expected(key, cls, name) if cls not in ("A", "E", "?") else None
            ctx.count(1, key=("lit", top, shape, text.replace(gr["gid"], "G"), key, name), nontrivial=(exp is not None and cls in KW))
            if exp is None or g == exp:
                continue
            ctx.violation("literal:%s:%s" % (LIT_WHAT[key], "not-recognised" if cls in KW else "wrongly-recognised"),
                          input="%s ; program imports: %s" % (LIT_FORMS[key].replace("<>", sym(name)), text), name=name, graph=graph,
                          expected="%r: %s denotes %s" % (exp, sym(name), {"U": "nothing (unbound)", "var": "a variable", "macro": "a macro"}.get(cls, "the auxiliary keyword %s of (scheme base) (R7RS 4.3.2: same binding, whatever the name)" % cls)),
                          observed=repr(g), replay=replay_lit(d, moddir, isets, LIT_FORMS[key].replace("<>", sym(name)), top))
        after, before = res[len(keys):len(keys) + nml], res[len(keys) + nml:]
        for mi, (ml, info) in enumerate(zip(lp["mls"], mlinfo)):
            if info is None or cls in ("A", "E", "?"):
                continue
            dl, dm, inside = info
            if len(inside) != len(LIT_NAMES) or "A" in inside or "E" in inside:
                continue
            # R7RS 4.3.2: the input identifier matches the literal iff both have the same binding, or both have none and are the same name
            which = "no"
            for litname, lo in zip(LIT_NAMES, inside):
                if (lo.startswith("O:") and lo == o) or (lo == "U" and o == "U" and litname == name):
                    which = litname
                    break
            exp = ("v14lit", dl, which)
            if which != "no" and o == "U":
                ctx.cov["unbound_literal_probes"] = ctx.cov.get("unbound_literal_probes", 0) + 1       # both unbound, same name: must match
            # model of the code (IdEq.identifier_eq over the environments built by Env.env_import)
            mtok = ideq[mi][ni] if ideq else None
            mwhich = None
            if mtok is not None and len(mtok) == len(LIT_NAMES):
                mwhich = "no"
                for litname, bit in zip(LIT_NAMES, mtok):
                    if bit == "1":
                        mwhich = litname
                        break
            ctx.count(1, key=("litm", top, shape, text.replace(gr["gid"], "G"), dm, ml, name), nontrivial=(which != "no" or cls != "U"))
            if mwhich is not None and mwhich != which:
                # theorem identifier_eq_is_r7rs_literal_match says this cannot happen
                ctx.broken("model:identifier-eq-vs-spec", "(%s %s) with imports %s: IdEq.identifier_eq says %s, the SPEC (R7RS 4.3.2) %s, chibi %r / %r" % (ml, name, text, mwhich, which, before[mi], after[mi]))
                continue
            for when, g in (("", before[mi]), ("after-reference", after[mi])):
                if g == exp:
                    continue
                both_unbound = which != "no" and o == "U"
                if both_unbound and ((when and before[mi] == exp) or top):
                    # (in a top-level program the outer probes have evaluated every name before the literal probes run)
                    # F-C14-3: right until the program REFERS to the unbound variable (the keyed probes evaluate it), wrong afterwards
                    sig = "literal:%s:unbound-literal-after-reference:not-recognised" % dm
                else:
                    sig = "literal:%s:%s" % (dm, "not-recognised" if which != "no" else "wrongly-recognised")
                ctx.violation(sig, input="(%s %s) ; program imports: %s%s" % (sym(ml), sym(name), text, " ; after the program evaluated the (unbound) variable %s" % sym(name) if when and o == "U" else ""),
                              name=name, graph=graph,
                              expected="%r: %s is %s of library %s, whose literals (%s) denote %s there; %s denotes %s in the program (R7RS 4.3.2: match iff same binding, or both unbound and the same name)" % (
                                  exp, ml, dm, dl, " ".join(LIT_NAMES), " ".join(inside), sym(name), o),
                              observed=repr(g), replay=replay_lit(d, moddir, isets, "(%s %s)" % (sym(ml), sym(name)), top, pre=(sym(name) if when and o == "U" else None)))
                break
    if not getattr(ctx, "_c14_lit_sampled", False):
        ctx._c14_lit_sampled = True
        ctx.sample(dict(kind="literal", imports=text, plan=[(n, ks) for n, ks in lp["plan"][:6]], mls=lp["mls"], spec=spec[:6], impl=repr(got[:6])[:600]))


def gen_ce_feature(rng, features, gid, libs, depth):
    r = rng.random()
    if depth == 0 or r < 0.35:
        k = rng.random()
        if k < 0.35:
            return rng.choice(features)
        if k < 0.6:
            return rng.choice(["nope", "x", "c14-no-such-feature", "else-not"])
        if k < 0.8 and libs:
            return ("library", iset_str(("lib", rng.choice(libs).name)))
        return ("library", "(v14 %s nolib%d)" % (gid, rng.randint(0, 3)))
    if r < 0.5:
        return ("not", gen_ce_feature(rng, features, gid, libs, depth - 1))
    return (rng.choice(["and", "or"]), [gen_ce_feature(rng, features, gid, libs, depth - 1) for _ in range(rng.choice([0, 1, 2, 2, 3]))])


def ce_str(f):
    if isinstance(f, str):
        return f
    if f[0] == "library":
        return "(library %s)" % f[1]
    if f[0] == "not":
        return "(not %s)" % ce_str(f[1])
    return "(%s%s)" % (f[0], "".join(" " + ce_str(x) for x in f[1]))


def ce_holds(f, features, libnames):
    """R7RS 4.2.1 feature requirements (python rendering of CondExpand.holds: decides who is wrong when model and chibi differ)"""
    if isinstance(f, str):
        return f in features
    if f[0] == "library":
        return f[1] in libnames
    if f[0] == "not":
        return not ce_holds(f[1], features, libnames)
    if f[0] == "and":
        return all(ce_holds(x, features, libnames) for x in f[1])
    return any(ce_holds(x, features, libnames) for x in f[1])


def gen_ce_clauses(rng, features, gid, libs):
    cl = [(gen_ce_feature(rng, features, gid, libs, rng.choice([0, 1, 2, 2, 3])), "c%d" % k) for k in range(rng.choice([1, 2, 2, 3]))]
    if rng.random() < 0.4:
        cl.append(("else", "ce"))
    return cl


def ce_clause_str(c):
    return "(%s (quote %s))" % ("else" if c[0] == "else" else ce_str(c[0]), c[1])


def _judge_condexp(ctx, d, moddir, gr, c, got, model, features):
    """(cond-expand clause ...) in the real chibi vs the code translated from lib/init-7.scm; the SPEC rendering decides who is wrong"""
    ctx.count(1, key=("condexp", c["text"].replace(gr["gid"], "G")), nontrivial=True)
    ctx.cov["traces_validated_against_impl"] += 1
    libnames = set(iset_str(("lib", l.name)) for l in gr["libs"])
    exp = True
    for f, body in c["clauses"]:
        if f == "else" or ce_holds(f, features, libnames):
            exp = body
            break
    impl = got[1] if isinstance(got, tuple) and len(got) == 2 and got[0] == "OK" else ("ERR", got)
    if c.get("expect") is not None and exp != c["expect"]:
        ctx.broken("generator:cond-expand-declaration", "the clause list of a library declaration selects %r, the generator placed the real declaration in %r: %s" % (exp, c["expect"], c["text"]))
    if model.startswith("ERR"):
        mval = ("ERR", model)
    else:
        try:
            mv = norm(parse_datum(model)[0])
            mval = mv[1][1] if isinstance(mv, tuple) and len(mv) == 2 and mv[0] == "begin" and isinstance(mv[1], tuple) and mv[1][0] == "quote" else mv
        except Exception:
            mval = ("unreadable", model)
    if impl != exp:
        ctx.violation("cond-expand:wrong-clause", input="(cond-expand %s)" % c["text"], expected=repr(exp), observed=repr(impl),
                      replay="(import (scheme base) (scheme write)) (write (cond-expand %s))  ; module dir %s" % (c["text"], moddir))
    elif mval != impl:
        ctx.broken("correspondence:translated-code:cond-expand", "the code translated from lib/init-7.scm answers %r, chibi %r on (cond-expand %s)" % (mval, impl, c["text"]))


def _judge_inner(ctx, d, moddir, gr, c, got, model, spec):
    """got: normalised (OK value) / (ERR msg) from the real function; model: the translated code's answer"""
    key = c.get("text") or (c["kind"], c["a"], c["b"])
    ctx.count(1, key=("inner", str(key).replace(gr["gid"], "G")), nontrivial=True)
    ctx.cov["traces_validated_against_impl"] += 1
    impl_ok = isinstance(got, tuple) and len(got) == 2 and got[0] == "OK"
    if model.startswith("ERR"):
        agree = not impl_ok
        mval = None
    else:
        try:
            mval = norm(parse_datum(model)[0])
        except Exception:
            mval = ("unreadable", model)
        agree = impl_ok and got[1] == mval
    if c["kind"] == "resolve" and spec is not None:
        # decide with the SPEC whether the real function is wrong
        if spec == "ERR" or spec.startswith("ERR "):
            exp = None
        else:
            exp = [] if spec == "_" else [tuple("" if x == "||" else x for x in tok.split("\t")) for tok in spec.split(" ")]
        if exp is None and impl_ok:
            ctx.violation("resolve-import:accepts-invalid", input=c["text"], expected="error (unknown library, or `only` of an identifier not in the set)",
                          observed=repr(got)[:300], replay="(import (meta) (scheme write)) (write (%%resolve-import '%s))  ; module dir %s" % (c["text"], moddir))
            return
        if exp is not None:
            pairs = None
            if impl_ok and isinstance(got[1], tuple) and got[1]:
                pairs = []
                for x in got[1][1:]:
                    if isinstance(x, str):
                        pairs.append((x, x))
                    elif isinstance(x, tuple) and x and x[0] == "dotted" and len(x[1]) == 1:
                        pairs.append((x[1][0], x[2]))
                    else:
                        pairs = None
                        break
                if got[1][0] != tuple(iset_lib(c["iset"])):
                    pairs = None
            if pairs != exp:
                ctx.violation("resolve-import:%s" % (iset_mods(c["iset"]) or ["plain"])[0], input=c["text"],
                              expected="(%s %s)" % (iset_str(("lib", iset_lib(c["iset"]))), " ".join("(%s . %s)" % q for q in exp)),
                              observed=repr(got)[:300], exports=gr["world"].get(iset_lib(c["iset"])),
                              replay="(import (meta) (scheme write)) (write (%%resolve-import '%s))  ; module dir %s" % (c["text"], moddir))
                return
    if not agree:
        ctx.broken("correspondence:translated-code:%s" % c["kind"], "the code translated from lib/meta-7.scm and the real function differ on %s: translated=%s impl=%r"
                   % (key, model, got))


def _judge_load(ctx, d, moddir, gr, model, bodies, casefile):
    """module table: the extracted Load.run_history vs (environment '(lib)) repeated in one process"""
    try:
        outs, ev = model.split(" | ")
    except ValueError:
        ctx.broken("spec-driver", "history answered %r" % model)
        return
    outs = outs.split(",")
    ev = [x for x in ev.split(",") if x]
    loads = [c for c in gr["cases"] if c["kind"] == "load"]
    world = "; ".join("c%d imports (%s)" % (j, " ".join("c%d" % i for i in imps)) for j, imps in gr["ldefs"].items())
    hist = " ".join("c%d" % c["lib"] for c in loads)
    rep = "C14_CASES=%s CHIBI_IGNORE_SYSTEM_PATH=1 CHIBI_MODULE_PATH=%s:%s LD_LIBRARY_PATH=%s %s/chibi-scheme %s" % (
        casefile, os.path.join(d, "lib"), moddir, d, d, os.path.join(ROOT, "harness", "c14_driver.scm"))
    shape = (tuple(sorted((j, tuple(i)) for j, i in gr["ldefs"].items())), tuple(gr["lreqs"]))
    for k, (c, o) in enumerate(zip(loads, outs)):
        got = c.get("got")
        ctx.count(1, key=("load", shape, k), nontrivial=True)
        ok = got == "OK"
        if ok != (o == "D"):
            cls = {"S": "cyclic-import-accepted", "N": "missing-library-accepted", "F": "model-out-of-fuel"}[o[0]] if ok else "load-rejected"
            ctx.violation("load:" + cls, input="world: %s; loads in one process: %s; step %d (c%d)" % (world, hist, k + 1, c["lib"]),
                          expected={"D": "the library loads", "S": "error: a library (transitively) imports itself, or its loading failed before",
                                    "N": "error: an imported library does not exist", "F": "?"}[o[0]],
                          observed=repr(got)[:200], replay=rep)
    if gr["gid"] in ("g0", "g1"):
        ctx.sample(dict(kind="module-table", world=world, loads=hist, model=model, impl=[c.get("got") for c in loads],
                        impl_bodies=[b for b in bodies if b.startswith("v14.%s.c" % gr["gid"])]), maxn=10)
    tag = "v14.%s.c" % gr["gid"]
    got_ev = [b[len(tag):] for b in bodies if b.startswith(tag)]
    if got_ev != ev:
        dup = len(set(got_ev)) != len(got_ev)
        ctx.violation("load:body-evaluated-twice" if dup else "load:body-evaluation-order", input="world: %s; loads in one process: %s" % (world, hist),
                      expected="bodies evaluated, in order: %s (each at most once, dependencies first, none of a library whose import fails)" % ",".join("c" + x for x in ev),
                      observed=",".join("c" + x for x in got_ev), replay=rep + " | grep BODY")


def _judge_frames(ctx, d, moddir, gr, c, got, model):
    text = " ".join(iset_str(i) for i in c["isets"])
    ctx.count(1, key=("frames", text.replace(gr["gid"], "G"), tuple(l.graph_sexp().replace(gr["gid"], "G") for l in gr["libs"])), nontrivial=True)
    ctx.cov["traces_validated_against_impl"] += 1
    impl_err = isinstance(got, tuple) and got and got[0] == "IMPORT-ERROR"
    if model.startswith("ERR"):
        if not impl_err:
            ctx.violation("import:%s:import-accepted" % (iset_mods(c["isets"][0]) or ["plain"])[0], input=text, expected="import error", observed=repr(got)[:300],
                          replay=replay_cmd(d, moddir, c["isets"], "a"))
        return
    try:
        exp = norm(parse_datum("(" + model + ")")[0])
    except Exception:
        ctx.broken("spec-driver", "frames answered %r" % model)
        return
    if got != exp:
        # frames differ: does any name resolve differently from the SPEC?  (the outer stream decides that); here: structure only
        ctx.broken("correspondence:env-import-frames", "environment frames after (environment %s): model %r, chibi (env-exports per frame) %r" % (text, exp, got))
